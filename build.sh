#!/bin/sh
# builds bin/hvet offline from engine/ if missing or out of date (serialised with a lock)
here=$(cd "$(dirname "$0")" && pwd)
cd "$here" || exit 2
export GOFLAGS=-mod=mod GOPROXY=off GOSUMDB=off GOTOOLCHAIN=local
unset GOWORK
mkdir -p bin evidence
(
  flock 9
  need=0
  [ -x bin/hvet ] || need=1
  if [ $need -eq 0 ]; then
    for f in engine/*.go engine/go.mod; do
      [ "$f" -nt bin/hvet ] && need=1
    done
  fi
  if [ $need -eq 1 ]; then
    (cd engine && go build -o ../bin/hvet.tmp . ) && mv bin/hvet.tmp bin/hvet || exit 1
  fi
) 9>bin/.lock
