#!/usr/bin/env python3
"""Generates /verif/MANIFEST.json from tools/claims.json (claimed properties, with their texts)
and properties.jsonl (everything not claimed goes to not_applicable with its reason)."""
import json, os
here = os.path.dirname(os.path.dirname(os.path.abspath(__file__)))
claims = json.load(open(os.path.join(here, "tools", "claims.json")))
props = [json.loads(l) for l in open(os.path.join(here, "properties.jsonl"))]
baseline = json.load(open("/root/.vp/BASELINE.json"))["cmd"] if os.path.exists("/root/.vp/BASELINE.json") else ""
checks, na = [], []
for p in props:
    pid = p["id"]
    c = claims["claimed"].get(pid)
    if c is None:
        na.append({"property_id": pid, "reason": claims["not_applicable"].get(pid, "no static rule implemented and tested both ways yet (see DESIGN.md)")})
        continue
    checks.append({
        "property_id": pid,
        "quick_cmd": f"./check {pid} quick",
        "thorough_cmd": f"./check {pid} thorough",
        "evidence_file": f"/verif/evidence/{pid}.json",
        "replay_cmd_template": "./bin/hvet -explain {path}",
        "engine": "hvet",
        "level_claimed": {"category": "other", "text": c["text"], "design_ref": f"DESIGN.md section 3, {pid}"},
        "level_note": c["note"],
        "technique": c["technique"],
    })
m = {
    "version": 1,
    "setup_cmd": "./build.sh && ./bin/hvet -list",
    "hooks": {
        "guard": "verif",
        "enable": "none needed: the checker reads /repo's sources (go/packages + go/ssa); no instrumentation is compiled into heimdall",
        "baseline_off_cmd": baseline,
        "source_commits": [],
        "add_only": True,
    },
    "engines": [{
        "name": "hvet",
        "path": "/verif/engine",
        "serves_properties": [c["property_id"] for c in checks],
        "kind_free_text": "repository-specific static checker: type-checked program (go/packages), SSA (go/ssa), per-function CFG edge-cut / value-origin / dominance / lock-set / effect analyses, module call graph; no execution of heimdall code",
    }],
    "checks": checks,
    "not_applicable": na,
    "notes": claims.get("notes", ""),
}
json.dump(m, open(os.path.join(here, "MANIFEST.json"), "w"), indent=1)
print("claimed", len(checks), "not_applicable", len(na))
