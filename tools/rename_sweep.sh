#!/bin/bash
# Development aid (not part of any registered check): renames every candidate name (suffix "Zz") in a
# scratch copy of the repository and runs all properties on the renamed program; prints the names for
# which the result is not clean. A behaviour-preserving rename must leave every rule silent.
# usage: rename_sweep.sh <scratch-copy-of-repo> <out.txt> [package fragments, comma separated]
#   names come from `bin/hvet -listnames <fragments>`; run it on a COPY (the sweep reads the working tree).
repo=$1; out=$2; frags=${3:-internal,cmd}; : > "$out"
here=$(cd "$(dirname "$0")/.." && pwd)
tmp=$(mktemp -d); cp "$here/bin/hvet" "$tmp/hvet"
"$tmp/hvet" -listnames "$frags" -repo "$repo" 2>/dev/null | grep -v WARNING > "$tmp/names.txt"
export HV="$tmp/hvet" REPO="$repo" KNOWN="$here/known_findings.json"
cat "$tmp/names.txt" | xargs -P ${SWEEP_P:-8} -I{} bash -c 'r=$($HV -sweep -repo $REPO -known $KNOWN -rename "{}=$(echo {} | awk -F. "{print \$NF}")Zz" 2>&1 | grep -v WARNING | grep -v "SWEEP clean" | tr "\n" " " | cut -c1-400); [ -n "$r" ] && echo "{} :: $r"' >> "$out"
rm -rf "$tmp"
