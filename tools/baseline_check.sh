#!/bin/bash
# usage: baseline_check.sh [repo]  -- runs the whole test suite of the repository and compares the passing tests
# with the stable_pass list of /root/.vp/BASELINE.json (used to gate every fix: commit in /repo)
repo=${1:-/repo}
export GOFLAGS=-mod=mod GOPROXY=off GOSUMDB=off GOTOOLCHAIN=local
cd "$repo" || exit 2
go build ./... || { echo "BUILD FAILED"; exit 1; }
out=$(mktemp)
go test -json -vet=off -count=1 -timeout 25m ./... > "$out" 2>/dev/null
python3 - "$out" <<'PY'
import json,sys
b=json.load(open('/root/.vp/BASELINE.json'))
want=set(b['stable_pass'])
got=set()
for l in open(sys.argv[1]):
    try: e=json.loads(l)
    except Exception: continue
    if e.get('Action')=='pass' and e.get('Test'):
        got.add(e['Package']+'::'+e['Test'])
missing=sorted(want-got)
print("stable:",len(want),"not passing now:",len(missing))
for m in missing[:20]: print("  ",m)
sys.exit(1 if missing else 0)
PY
rc=$?
rm -f "$out"
exit $rc
