#!/bin/bash
# usage: seed_check.sh <seeddir> <prop> [more props...]  -- applies the seeded change to /repo, runs the checks, reverts
sd=$1; shift
cd /repo || exit 2
[ -z "$(git status --porcelain)" ] || { echo "repo not clean"; exit 2; }
git apply "$sd/patch.diff" || exit 1
for p in "$@"; do
  (cd /verif && ./check $p quick > "$sd/check_$p.txt" 2>&1; echo "$p exit=$? $(grep -c '^VIOLATION' "$sd/check_$p.txt") violation(s): $(grep '^  rule' "$sd/check_$p.txt" | head -3 | cut -c1-200 | tr '\n' '|')")
done
git checkout -q -- . ; git clean -fdq
