#!/bin/bash
# usage: seed_confirm.sh <seeddir> <worktree>   -- confirms a seeded change: builds, existing tests pass, demo fails with / passes without
# writes <seeddir>/confirm.txt
sd=$1; wt=$2
export GOFLAGS=-mod=mod GOPROXY=off GOSUMDB=off GOTOOLCHAIN=local
cd "$wt" || exit 2
git checkout -q -- . ; git clean -fdq
out="$sd/confirm.txt"; : > "$out"
where=$(cat "$sd/where.txt" | tr -d '\n ')
pkg="./$(dirname "$where")"
git apply "$sd/patch.diff" || { echo "APPLY-FAILED" >> "$out"; exit 1; }
touched=$(git diff --name-only | xargs -n1 dirname | sort -u | sed 's#^#./#' | tr '\n' ' ')
if go build ./... >> "$out" 2>&1; then echo "BUILD ok" >> "$out"; else echo "BUILD FAILED" >> "$out"; fi
go test -count=1 $touched ./internal/rules/... ./internal/handler/... ./cmd/... 2>&1 | grep -v "^ok\|no test files" > "$sd/confirm_tests.txt"
if grep -q "^FAIL\|^--- FAIL" "$sd/confirm_tests.txt"; then
  # ignore the root-only failure
  if grep "^--- FAIL" "$sd/confirm_tests.txt" | grep -v "TestProviderLifecycle\|TestValidateNotReadableConfigFile\|TestKoanfFromYaml\|TestCreateKeyStoreFromPEMFile" | grep -q .; then echo "EXISTING-TESTS FAILED" >> "$out"; else echo "EXISTING-TESTS ok (root-only failures ignored)" >> "$out"; fi
else echo "EXISTING-TESTS ok" >> "$out"; fi
cp "$sd/demo_test.go" "$where"
if go test -count=1 -run "ZZDemo|Demo" "$pkg" > "$sd/confirm_demo_with.txt" 2>&1; then echo "DEMO-WITH-CHANGE passes (BAD)" >> "$out"; else echo "DEMO-WITH-CHANGE fails (good)" >> "$out"; fi
rm -f "$where"; git checkout -q -- . ; git clean -fdq
cp "$sd/demo_test.go" "$where"
if go test -count=1 -run "ZZDemo|Demo" "$pkg" > "$sd/confirm_demo_without.txt" 2>&1; then echo "DEMO-WITHOUT-CHANGE passes (good)" >> "$out"; else echo "DEMO-WITHOUT-CHANGE fails (BAD)" >> "$out"; fi
rm -f "$where"; git checkout -q -- . ; git clean -fdq
cat "$out"
