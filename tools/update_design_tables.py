#!/usr/bin/env python3
"""Regenerates the generated tables of DESIGN.md in place: the seeded-change table (between the
SEED-TABLE markers) from seeded/*/meta.json and Appendix C (between the RULES-TABLE markers) from the
quick-tier output of all checks (run ./check <id> quick > /tmp/ev/out_<id>.txt first, or pass --run)."""
import glob, json, os, re, subprocess, sys
os.chdir('/verif')
if '--run' in sys.argv:
    os.makedirs('/tmp/ev', exist_ok=True)
    for i in range(1, 21):
        p = 'C%02d' % i
        out = subprocess.run(['./check', p, 'quick'], capture_output=True, text=True).stdout
        open('/tmp/ev/out_%s.txt' % p, 'w').write(out)
seed = subprocess.run(['python3', 'tools/seed_table.py'], capture_output=True, text=True).stdout
rows = []
tot_rules = tot_obl = 0
for i in range(1, 21):
    p = 'C%02d' % i
    for line in open('/tmp/ev/out_%s.txt' % p):
        m = re.match(r'^  (C\d\d\.\w+)\s+instances=(\d+)\s+floor=(\d+)\s+discharged=\d+\s+known=(\d+) violated=0\s+(.*)$', line)
        if m:
            rows.append('| %s | %s | %s | %s | %s |' % (m.group(1), m.group(2), m.group(3), m.group(4), m.group(5).strip()))
            tot_rules += 1
            tot_obl += int(m.group(2))
rules = '| rule | instances | floor | known | what is decided |\n|---|---|---|---|---|\n' + '\n'.join(rows) + '\n\n%d rules, %d obligations.\n' % (tot_rules, tot_obl)
s = open('DESIGN.md').read()
def put(s, tag, body):
    a, b = '<!-- %s-BEGIN -->' % tag, '<!-- %s-END -->' % tag
    i, j = s.index(a) + len(a), s.index(b)
    return s[:i] + '\n' + body + s[j:]
s = put(s, 'SEED-TABLE', seed)
s = put(s, 'RULES-TABLE', rules)
open('DESIGN.md', 'w').write(s)
print('tables updated:', tot_rules, 'rules,', tot_obl, 'obligations')
