#!/usr/bin/env python3
"""Re-runs, for every seeded change, the checks recorded in its meta.json against /repo with the patch
applied (and reverts), and reports seeds whose detection changed. Updates meta.json."""
import glob, json, os, re, subprocess, sys
os.chdir('/verif')
subprocess.run(['./build.sh'], check=True, capture_output=True)
subprocess.run(['git', '-C', '/repo', 'diff', '--quiet'], check=True)
changed = []
for m in sorted(glob.glob('seeded/*/meta.json')):
    d = json.load(open(m))
    sid = os.path.basename(os.path.dirname(m))
    if d.get('superseded'):
        continue  # the patched function was rewritten by a later fix: commit; see meta.json
    props = list(d.get('checks_run', {}).keys()) or [d['property']]
    r = subprocess.run(['git', '-C', '/repo', 'apply', os.path.join('/verif', os.path.dirname(m), 'patch.diff')], capture_output=True, text=True)
    if r.returncode != 0:
        print(sid, 'PATCH DOES NOT APPLY ANY MORE:', r.stderr.strip()[:200]); continue
    try:
        rules = set()
        results = {}
        for p in props:
            out = subprocess.run(['./bin/hvet', '-prop', p, '-repo', '/repo', '-evidence', '/tmp/ev/recheck.json', '-known', 'known_findings.json'], capture_output=True, text=True)
            rs = sorted(set(re.findall(r'^  rule (\S+) at', out.stdout, re.M)))
            und = 'UNDECIDED' in out.stdout
            results[p] = {'exit': out.returncode, 'rules': rs + (['UNDECIDED'] if und and not rs else []),
                          'violations': out.stdout.count('\nVIOLATION'), 'first': (re.findall(r'^  rule .*$', out.stdout, re.M) or [''])[0][:300]}
            rules |= set(results[p]['rules'])
    finally:
        subprocess.run(['git', '-C', '/repo', 'checkout', '-q', '--', '.'], check=True)
        subprocess.run(['git', '-C', '/repo', 'clean', '-fdq'], check=True)
    was = bool(d.get('detected'))
    now = bool(rules)
    if was != now or sorted(rules) != d.get('detected_by'):
        changed.append((sid, d.get('detected_by'), sorted(rules)))
    d['checks_run'] = results; d['detected_by'] = sorted(rules); d['detected'] = now
    json.dump(d, open(m, 'w'), indent=1)
for c in changed:
    print('CHANGED', c)
print('rechecked', len(glob.glob('seeded/*/meta.json')), 'seeds;', len(changed), 'changed')
