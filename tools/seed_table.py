#!/usr/bin/env python3
"""Prints the markdown table of seeded changes (seeded/*/meta.json): what each breaks and which rules report it."""
import json, glob, os, re
rows = []
for m in sorted(glob.glob('/verif/seeded/*/meta.json')):
    d = json.load(open(m))
    sid = os.path.basename(os.path.dirname(m))
    title = re.sub(r'\s+', ' ', d.get('title', ''))[:110].replace('|', '/')
    det = ', '.join(d.get('detected_by', [])) or '**missed**'
    rows.append((sid, title, det, d.get('miss_reason', '')))
print('| seed | change | reported by | note |')
print('|---|---|---|---|')
for r in rows:
    print('| %s | %s | %s | %s |' % r)
n = len(rows); c = sum(1 for r in rows if 'missed' not in r[2])
print()
print('%d seeded changes, %d reported, %d missed.' % (n, c, n - c))
