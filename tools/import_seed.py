#!/usr/bin/env python3
"""Imports a confirmed seeded change from /tmp/seeds/<id>/<n> into /verif/seeded/<id>-<n>/ and runs the
property's check against it (apply to /repo, check, revert). Usage: import_seed.py C01 1 [extra props...]"""
import json, os, re, shutil, subprocess, sys
pid, n = sys.argv[1], sys.argv[2]
extra = sys.argv[3:]
src = os.environ.get("SEED_SRC") or f"/tmp/seeds/{pid}/{n}"  # SEED_SRC=/tmp/seeds/C01r2/1 import_seed.py C01 4
dst = f"/verif/seeded/{pid}-{n}"
os.makedirs(dst, exist_ok=True)
shutil.copy(f"{src}/patch.diff", f"{dst}/patch.diff")
shutil.copy(f"{src}/demo_test.go", f"{dst}/demo_test.go.txt")
where = open(f"{src}/where.txt").read().strip()
notes = open(f"{src}/notes.md").read()
confirm = open(f"{src}/confirm.txt").read().strip().splitlines() if os.path.exists(f"{src}/confirm.txt") else []
title = notes.splitlines()[0].lstrip("# ").strip()
def section(name):
    m = re.search(r"(?im)^#+\s*[^\n]*" + name + r"[^\n]*\n(.*?)(?=^#+\s|\Z)", notes, re.S | re.M)
    return m.group(1).strip()[:1200] if m else ""
needs = section("manifest") or section("needs") or section("trigger")
clause = section("clause") or section("broken") or section("property")
results = {}
subprocess.run(["git", "-C", "/repo", "diff", "--quiet"], check=True)
subprocess.run(["git", "-C", "/repo", "apply", f"{dst}/patch.diff"], check=True)
try:
    for p in [pid] + extra:
        out = subprocess.run(["./check", p, "quick"], cwd="/verif", capture_output=True, text=True)
        rules = sorted(set(re.findall(r"^  rule (\S+) at", out.stdout, re.M)))
        results[p] = {"exit": out.returncode, "violations": out.stdout.count("\nVIOLATION") + (1 if out.stdout.startswith("VIOLATION") else 0), "rules": rules,
                      "first": (re.findall(r"^  rule .*$", out.stdout, re.M) or [""])[0][:300]}
finally:
    subprocess.run(["git", "-C", "/repo", "checkout", "-q", "--", "."], check=True)
    subprocess.run(["git", "-C", "/repo", "clean", "-fdq"], check=True)
detected = sorted({r for p in results for r in results[p]["rules"]})
meta = {
    "property": pid, "title": title, "source": "independent sub-agent given only the property text and a scratch worktree",
    "breaks": clause, "needs_to_manifest": needs,
    "demo": {"file": "demo_test.go.txt", "place_at": where, "how": "copy to that path in a scratch worktree and run go test for the package: fails with patch.diff applied, passes without"},
    "confirmed": confirm,
    "confirmed_how": "tools/seed_confirm.sh in a scratch worktree of /repo (git apply; go build ./...; go test of the touched packages + ./internal/rules/... ./internal/handler/... ./cmd/...; demo with and without the change)",
    "checks_run": results, "detected_by": detected, "detected": bool(detected),
}
json.dump(meta, open(f"{dst}/meta.json", "w"), indent=1)
print(pid, n, "detected by", detected or "NONE")
