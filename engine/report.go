package main

import (
	"encoding/json"
	"fmt"
	"go/token"
	"os"
	"path/filepath"
	"sort"
	"strings"
	"time"
)

// Ob is one obligation: an instance of a rule on a concrete construct, decided ok or not.
type Ob struct {
	Rule    string   `json:"rule"`
	Key     string   `json:"key"` // rule + construct descriptor, never a line number
	Where   string   `json:"where"`
	OK      bool     `json:"ok"`
	Msg     string   `json:"msg,omitempty"`
	Witness []string `json:"witness,omitempty"`
}

type RuleInfo struct {
	ID    string
	Floor int
	Desc  string
}

type Report struct {
	W      *World
	Prop   string
	Rules  []*RuleInfo
	Obs    []*Ob
	Undec  []string
	Notes  []string
	Counts map[string]int // measured counters: functions, call sites, paths ...
	funcs  map[string]bool
}

func NewReport(w *World, prop string) *Report {
	return &Report{W: w, Prop: prop, Counts: map[string]int{}, funcs: map[string]bool{}}
}

func (r *Report) Rule(id string, floor int, desc string) *RuleInfo {
	ri := &RuleInfo{ID: id, Floor: floor, Desc: desc}
	r.Rules = append(r.Rules, ri)
	return ri
}

// Ob records an obligation for rule ri.
func (r *Report) Ob(ri *RuleInfo, key string, pos token.Pos, ok bool, msg string, witness ...string) *Ob {
	o := &Ob{Rule: ri.ID, Key: ri.ID + "|" + key, OK: ok, Msg: msg, Witness: witness}
	if r.W != nil {
		o.Where = r.W.Pos(pos)
	}
	r.Obs = append(r.Obs, o)
	return o
}

func (r *Report) Undecided(ri *RuleInfo, why string) {
	id := "?"
	if ri != nil {
		id = ri.ID
	}
	r.Undec = append(r.Undec, id+": "+why)
}

func (r *Report) Note(s string) { r.Notes = append(r.Notes, s) }

// Analysed registers a function as analysed (for the evidence counters).
func (r *Report) Analysed(names ...string) {
	for _, n := range names {
		r.funcs[n] = true
	}
}

type KnownFinding struct {
	Property string `json:"property"`
	Rule     string `json:"rule"`
	Key      string `json:"key"`
	What     string `json:"what"`
	Status   string `json:"status"` // known | fixed
	Commit   string `json:"commit,omitempty"`
}

func loadKnown(path string) ([]KnownFinding, error) {
	b, err := os.ReadFile(path)
	if err != nil {
		if os.IsNotExist(err) {
			return nil, nil
		}
		return nil, err
	}
	var k struct {
		Findings []KnownFinding `json:"findings"`
	}
	if err := json.Unmarshal(b, &k); err != nil {
		return nil, err
	}
	return k.Findings, nil
}

type ruleStat struct {
	ID         string `json:"id"`
	Desc       string `json:"desc"`
	Instances  int    `json:"instances"`
	Floor      int    `json:"floor"`
	Discharged int    `json:"discharged"`
	Violated   int    `json:"violated"`
	Known      int    `json:"known"`
}

// Finish prints the verdict lines, writes evidence and replay files and returns the exit code.
func (r *Report) Finish(opts *Options, start time.Time, extra map[string]any) int {
	known, kerr := loadKnown(opts.Known)
	if kerr != nil {
		r.Undec = append(r.Undec, "known findings file unreadable: "+kerr.Error())
	}
	knownByKey := map[string]KnownFinding{}
	for _, k := range known {
		if k.Property == r.Prop && k.Status == "known" {
			knownByKey[k.Key] = k
		}
	}
	stats := map[string]*ruleStat{}
	var order []string
	for _, ri := range r.Rules {
		stats[ri.ID] = &ruleStat{ID: ri.ID, Desc: ri.Desc, Floor: ri.Floor}
		order = append(order, ri.ID)
	}
	sort.SliceStable(r.Obs, func(i, j int) bool { return r.Obs[i].Key < r.Obs[j].Key })
	// de-duplicate obligations by key (a key decided twice must agree; not-ok wins)
	byKey := map[string]*Ob{}
	var obs []*Ob
	for _, o := range r.Obs {
		if p, ok := byKey[o.Key]; ok {
			if !o.OK && p.OK {
				*p = *o
			}
			continue
		}
		byKey[o.Key] = o
		obs = append(obs, o)
	}
	var viol []*Ob
	usedKnown := map[string]bool{}
	for _, o := range obs {
		st := stats[o.Rule]
		if st == nil {
			st = &ruleStat{ID: o.Rule}
			stats[o.Rule] = st
			order = append(order, o.Rule)
		}
		st.Instances++
		if o.OK {
			st.Discharged++
			continue
		}
		if k, ok := knownByKey[o.Key]; ok {
			st.Known++
			usedKnown[o.Key] = true
			fmt.Printf("KNOWN-FINDING: property=%s %s [%s at %s]\n", r.Prop, k.What, o.Key, o.Where)
			continue
		}
		st.Violated++
		viol = append(viol, o)
	}
	for _, ri := range r.Rules {
		st := stats[ri.ID]
		if st.Instances < ri.Floor {
			r.Undec = append(r.Undec, fmt.Sprintf("%s: %d instances found, floor is %d (anchor lost?)", ri.ID, st.Instances, ri.Floor))
		}
	}
	for k := range knownByKey {
		if !usedKnown[k] {
			r.Notes = append(r.Notes, "known finding no longer reported (repaired?): "+k)
		}
	}
	_ = os.MkdirAll(filepath.Join(filepath.Dir(opts.Evidence), "replay"), 0o755)
	// remove stale replay files of this property
	old, _ := filepath.Glob(filepath.Join(filepath.Dir(opts.Evidence), "replay", r.Prop+"-*.json"))
	for _, f := range old {
		_ = os.Remove(f)
	}
	n := 0
	writeReplay := func(v any) string {
		n++
		p := filepath.Join(filepath.Dir(opts.Evidence), "replay", fmt.Sprintf("%s-%d.json", r.Prop, n))
		b, _ := json.MarshalIndent(v, "", " ")
		_ = os.WriteFile(p, b, 0o644)
		return p
	}
	for _, o := range viol {
		p := writeReplay(map[string]any{"property": r.Prop, "rule": o.Rule, "key": o.Key, "where": o.Where, "msg": o.Msg, "witness": o.Witness})
		fmt.Printf("  rule %s at %s: %s\n", o.Rule, o.Where, o.Msg)
		for _, wl := range o.Witness {
			fmt.Printf("      %s\n", wl)
		}
		fmt.Printf("VIOLATION property=%s replay=%s\n", r.Prop, p)
	}
	sort.Strings(r.Undec)
	for _, u := range r.Undec {
		p := writeReplay(map[string]any{"property": r.Prop, "rule": "UNDECIDED", "reason": u})
		fmt.Printf("  UNDECIDED %s\n", u)
		fmt.Printf("VIOLATION property=%s replay=%s\n", r.Prop, p)
	}
	// evidence
	var rs []*ruleStat
	tot, dis, kn := 0, 0, 0
	for _, id := range order {
		st := stats[id]
		rs = append(rs, st)
		tot += st.Instances
		dis += st.Discharged
		kn += st.Known
	}
	var samples []any
	perRule := map[string]int{}
	for _, o := range obs {
		if perRule[o.Rule] < 2 || !o.OK {
			perRule[o.Rule]++
			samples = append(samples, o)
		}
	}
	distinct := len(byKey)
	cov := map[string]any{
		"explanation":         fmt.Sprintf("static analysis (go/types + go/ssa over the current working tree of %s): %d rule(s) enumerated %d obligation(s) keyed rule|construct; each is decided on the CFG/SSA/type information, no code is executed. Level 'other': the rules are structural necessary conditions of the property (see DESIGN.md section for %s); they do not decide the behavioural clauses listed as 'not decided' there.", opts.Repo, len(rs), tot, r.Prop),
		"obligations":         tot,
		"discharged":          dis,
		"known_findings":      kn,
		"violated":            len(viol),
		"undecided":           r.Undec,
		"evaluations":         tot,
		"distinct_nontrivial": distinct,
		"rule":                "one evaluation = one obligation (rule instance on a concrete function / call site / field / table entry); distinct = distinct obligation keys; every obligation is non-trivial in the sense that the rule's anchor was resolved in the type-checked program and the oracle was evaluated on it",
		"samples":             samples,
		"rules":               rs,
		"checker_cmd":         strings.Join(os.Args, " "),
		"trusted_base":        []string{"go/types, go/ssa, go/packages of golang.org/x/tools v0.29.0", "Go toolchain type checker and export data", "documented contracts of third-party APIs named in DESIGN.md 2.4", "engine tables of repo combinators (internal/x) and error constructors (internal/x/errorchain)"},
		"packages_loaded":     len(r.W.Pkgs),
		"module_functions":    len(r.W.Funcs),
		"functions_analysed":  len(r.funcs),
		"counters":            r.Counts,
		"notes":               r.Notes,
		"exhaustive":          true,
	}
	for k, v := range extra {
		cov[k] = v
	}
	ev := map[string]any{
		"property_id": r.Prop,
		"tier":        opts.Tier,
		"seed":        opts.Seed,
		"level":       "other",
		"coverage":    cov,
		"assumptions": []string{"third-party code behaves as documented (DESIGN.md 2.4)", "interface calls resolve to non-mock module implementations", "helper summaries are followed to call depth 3"},
		"wall_s":      time.Since(start).Seconds(),
		"violations":  len(viol) + len(r.Undec),
	}
	b, _ := json.MarshalIndent(ev, "", " ")
	if err := os.WriteFile(opts.Evidence, b, 0o644); err != nil {
		fmt.Printf("cannot write evidence: %v\n", err)
		return 2
	}
	fmt.Printf("property=%s tier=%s rules=%d obligations=%d discharged=%d known=%d violated=%d undecided=%d wall=%.1fs\n",
		r.Prop, opts.Tier, len(rs), tot, dis, kn, len(viol), len(r.Undec), time.Since(start).Seconds())
	for _, st := range rs {
		fmt.Printf("  %-8s instances=%-3d floor=%-3d discharged=%-3d known=%d violated=%d  %s\n", st.ID, st.Instances, st.Floor, st.Discharged, st.Known, st.Violated, st.Desc)
	}
	if len(viol)+len(r.Undec) > 0 {
		return 1
	}
	return 0
}
