package main

import (
	"fmt"
	"go/token"
	"go/types"
	"sort"
	"strings"

	"golang.org/x/tools/go/ssa"
)

func init() { register("C11", checkC11) }

// cachingSite describes one cache read: the function G containing Cache.Get, the key value and
// the functions that compute the key.
type cachingSite struct {
	G      *ssa.Function
	Get    *ssa.Call
	Key    ssa.Value
	KeyFns []*ssa.Function // module callees that directly produce the key
}

func cachingSites(w *World, ci *types.Named) []*cachingSite {
	var out []*cachingSite
	for _, c := range cacheCalls(w, ci, "Get") {
		s := &cachingSite{G: c.Parent(), Get: c, Key: c.Common().Args[1]}
		for _, o := range w.Origins(s.Key, nil) {
			if kc, _ := resultOfCall(o); kc != nil {
				if callee := kc.Common().StaticCallee(); callee != nil && callee.Blocks != nil && w.inModule(callee) {
					s.KeyFns = append(s.KeyFns, callee)
				}
			}
		}
		out = append(out, s)
	}
	sort.Slice(out, func(i, j int) bool { return out[i].G.String() < out[j].G.String() })
	return out
}

func checkC11(w *World, r *Report) {
	ci := w.Named("internal/cache", "Cache")
	if ci == nil {
		r.Undecided(nil, "cache.Cache not found")
		return
	}
	sites := cachingSites(w, ci)
	c11Deterministic(w, r, sites)
	c11Overrides(w, r, sites)
	c11RemoteInputs(w, r, sites)
	c11KeyInputs(w, r, sites)
	c11ReloadableInKey(w, r, ci)
	c11NoLossyURL(w, r, sites)
	c11HTTPCacheKey(w, r, ci)
	c11PartsSeparated(w, r, sites)
}

// ---- C11.1 -------------------------------------------------------------------------------------

// isOrderSensitiveSink: a call that appends bytes/strings to a hash, buffer or builder.
func isOrderSensitiveSink(c *ssa.CallCommon) bool {
	n := callName(c)
	switch {
	case strings.HasPrefix(n, "fmt.Fprint"):
		return true
	case n == "io.WriteString":
		return true
	}
	o := calleeObj(c)
	if o == nil {
		return false
	}
	switch o.Name() {
	case "Write", "WriteString", "WriteByte", "WriteRune":
		rv := callRecv(c)
		if rv == nil {
			return false
		}
		ts := rv.Type().String()
		if it, isIface := rv.Type().Underlying().(*types.Interface); isIface && o.Name() == "Write" && it.NumMethods() > 0 {
			// any writer-shaped interface (Write([]byte) (int, error))
			if sg, ok := o.Type().(*types.Signature); ok && sg.Params().Len() == 1 && sg.Results().Len() == 2 {
				return true
			}
		}
		return strings.Contains(ts, "hash.Hash") || strings.Contains(ts, "bytes.Buffer") || strings.Contains(ts, "strings.Builder") || strings.Contains(ts, "io.Writer")
	}
	return false
}

// mapRangeLoops returns, for every range over a map in fn, the blocks of the loop.
func mapRangeLoops(fn *ssa.Function) map[*ssa.Range][]*ssa.BasicBlock {
	out := map[*ssa.Range][]*ssa.BasicBlock{}
	eachInstr(fn, func(in ssa.Instruction) {
		rg, ok := in.(*ssa.Range)
		if !ok {
			return
		}
		if _, isMap := rg.X.Type().Underlying().(*types.Map); !isMap {
			return
		}
		// the loop header is the block holding the Next instruction
		var hdr *ssa.BasicBlock
		if refs := rg.Referrers(); refs != nil {
			for _, rf := range *refs {
				if nx, ok := rf.(*ssa.Next); ok {
					hdr = nx.Block()
				}
			}
		}
		if hdr == nil {
			return
		}
		// loop blocks: reachable from hdr and able to reach hdr again
		fromHdr := reach(hdr, nil)
		var blocks []*ssa.BasicBlock
		for _, b := range fn.Blocks {
			if b == hdr {
				blocks = append(blocks, b)
				continue
			}
			if fromHdr[b] && reach(b, nil)[hdr] {
				blocks = append(blocks, b)
			}
		}
		out[rg] = blocks
	})
	return out
}

func isSortCall(c *ssa.CallCommon) bool {
	n := callName(c)
	return strings.HasPrefix(n, "sort.") || strings.HasPrefix(n, "slices.Sort") || n == "slices.Sorted" || n == "slices.SortFunc"
}

func c11Deterministic(w *World, r *Report, sites []*cachingSite) {
	ri := r.Rule("C11.1", 10, "cache keys are derived deterministically: no map iteration order enters a digest, buffer or concatenation")
	var roots []*ssa.Function
	seenRoot := map[*ssa.Function]bool{}
	for _, s := range sites {
		for _, k := range s.KeyFns {
			if !seenRoot[k] {
				seenRoot[k] = true
				roots = append(roots, k)
			}
		}
	}
	// every Hash() []byte method of the module feeds some key
	for _, fn := range w.Funcs {
		if w.isMockFn(fn) || fn.Signature.Recv() == nil || fn.Name() != "Hash" {
			continue
		}
		if fn.Signature.Results().Len() == 1 && fn.Signature.Results().At(0).Type().String() == "[]byte" && !seenRoot[fn] {
			seenRoot[fn] = true
			roots = append(roots, fn)
		}
	}
	parent, order := w.CG().Reachable(roots, func(f *ssa.Function) bool { return !w.inModule(f) })
	_ = parent
	for _, fn := range order {
		if fn.Blocks == nil || w.isMockFn(fn) || !w.inModule(fn) {
			continue
		}
		// restrict to functions that can feed a key: they (transitively) are key functions or are called by them
		r.Analysed(w.FnName(fn))
		loops := mapRangeLoops(fn)
		hasSort := len(findCalls(fn, isSortCall)) > 0
		n := 0
		for rg, blocks := range loops {
			n++
			ok, msg := true, ""
			inLoop := map[*ssa.BasicBlock]bool{}
			for _, b := range blocks {
				inLoop[b] = true
			}
			for _, b := range blocks {
				for _, in := range b.Instrs {
					switch x := in.(type) {
					case *ssa.Call:
						if isOrderSensitiveSink(x.Common()) {
							ok, msg = false, "map iteration writes into an order-sensitive sink ("+callName(x.Common())+"): the digest depends on the iteration order"
						}
						if bi, isB := x.Call.Value.(*ssa.Builtin); isB && bi.Name() == "append" && !hasSort {
							ok, msg = false, "map iteration appends to a slice that is never sorted"
						}
					case *ssa.BinOp:
						if x.Op == token.ADD {
							if bt, isBasic := x.Type().Underlying().(*types.Basic); isBasic && bt.Info()&types.IsString != 0 {
								for _, o := range []ssa.Value{x.X, x.Y} {
									if p, isPhi := o.(*ssa.Phi); isPhi && inLoop[p.Block()] {
										ok, msg = false, "map iteration concatenates into a string accumulator"
									}
								}
							}
						}
					}
				}
			}
			_, p := accessPath(rg.X)
			r.Ob(ri, fmt.Sprintf("%s|range-over-map|%s#%d", w.FnName(fn), strings.Join(p, "."), n), rg.Pos(), ok, msg)
		}
		if len(loops) == 0 {
			r.Ob(ri, w.FnName(fn)+"|no-map-iteration", fn.Pos(), true, "")
		}
		// encoders that are explicitly order-unstable
		for _, c := range callsIn(fn) {
			if n := callName(c.Common()); strings.Contains(n, "UnorderedMap") || strings.Contains(n, "Unordered") {
				r.Ob(ri, w.FnName(fn)+"|unordered-encoding", c.Pos(), false, "the key is derived with "+n+": map entries are then encoded in iteration order")
			}
		}
		// map lookups must use the key as stored: a transformed key can miss the entry and drop its value from the digest
		nl := 0
		eachInstr(fn, func(in ssa.Instruction) {
			lk, isL := in.(*ssa.Lookup)
			if !isL || lk.CommaOk {
				return
			}
			if _, isMap := lk.X.Type().Underlying().(*types.Map); !isMap {
				return
			}
			if _, isC := lk.Index.(*ssa.Const); isC {
				return
			}
			// only maps whose keys are enumerated in this function (the map is being digested entry by entry)
			enumerated := false
			mroot, mpath := accessPath(lk.X)
			same := func(v ssa.Value) bool {
				r2, p2 := accessPath(v)
				return r2 == mroot && strings.Join(p2, ".") == strings.Join(mpath, ".")
			}
			eachInstr(fn, func(in2 ssa.Instruction) {
				if rg, isR := in2.(*ssa.Range); isR && same(rg.X) {
					enumerated = true
				}
				if c, isCall := in2.(*ssa.Call); isCall && strings.HasPrefix(callName(c.Common()), "maps.Keys") && len(c.Call.Args) == 1 && same(c.Call.Args[0]) {
					enumerated = true
				}
			})
			if !enumerated {
				return
			}
			nl++
			bad := ""
			dependsOn(w, lk.Index, func(x ssa.Value) bool {
				if c, isCall := x.(*ssa.Call); isCall {
					n := callName(c.Common())
					switch {
					case strings.HasPrefix(n, "maps.Keys"), strings.HasPrefix(n, "slices.Sorted"), strings.HasPrefix(n, "slices.Collect"), strings.HasPrefix(n, "builtin."):
					case selectOperands(c) != nil:
					default:
						bad = n
					}
				}
				return false
			})
			_, mp := accessPath(lk.X)
			r.Ob(ri, fmt.Sprintf("%s|lookup-by-stored-key|%s#%d", w.FnName(fn), strings.Join(mp, "."), nl), lk.Pos(), bad == "", "the map is indexed with a key transformed by "+bad+": entries stored under another spelling are missed and their values never reach the digest")
		})
	}
}

// ---- C11.2 -------------------------------------------------------------------------------------

// overridableFields: fields of mechanism type t that WithConfig sets to something else than the
// receiver's same field.
func overridableFields(w *World, t *types.Named) map[*types.Var]bool {
	out := map[*types.Var]bool{}
	wc := w.Method(t, "WithConfig")
	if wc == nil || wc.Blocks == nil {
		return out
	}
	for _, a := range ruleLiteralAllocs(wc, t) {
		st := t.Underlying().(*types.Struct)
		for i := 0; i < st.NumFields(); i++ {
			f := st.Field(i)
			v, _ := storedField(a, f.Name())
			if v == nil {
				continue
			}
			if _, lf := fieldLoad(stripConv(v)); lf == f {
				continue
			}
			out[f] = true
		}
	}
	return out
}

func c11Overrides(w *World, r *Report, sites []*cachingSite) {
	ri := r.Rule("C11.2", 6, "a rule-level override that influences the decision is part of the cache key or is applied after a cache hit as well")
	for _, s := range sites {
		G := s.G
		if G.Signature.Recv() == nil {
			continue
		}
		t := derefNamed(G.Signature.Recv().Type())
		if t == nil {
			continue
		}
		ov := overridableFields(w, t)
		if len(ov) == 0 {
			continue
		}
		r.Analysed(w.FnName(G))
		// hit region: blocks reachable from the err == nil edge of Get; miss region: from the != nil edge or
		// the blocks after the hit region rejoins
		ei := errIdx(s.Get)
		hit := map[*ssa.BasicBlock]bool{}
		for _, b := range G.Blocks {
			for i := range b.Succs {
				for _, f := range edgeFacts(b, i) {
					if f.Kind == FNil && isResult(s.Get, ei)(f.V) {
						for blk := range reachFromEdge(b, i, nil) {
							hit[blk] = true
						}
					}
				}
			}
		}
		// functions of t reachable only through call sites that are not in the hit region
		fieldReadFns := func(f *types.Var) []*ssa.UnOp {
			var out []*ssa.UnOp
			for _, fn := range w.Funcs {
				root := fn
				for root.Parent() != nil {
					root = root.Parent()
				}
				if root.Signature.Recv() == nil || derefNamed(root.Signature.Recv().Type()) != t {
					continue
				}
				eachInstr(fn, func(in ssa.Instruction) {
					if u, ok := in.(*ssa.UnOp); ok {
						if _, lf := fieldLoad(u); lf == f {
							out = append(out, u)
						}
					}
				})
			}
			return out
		}
		keyFnSet := map[*ssa.Function]bool{}
		for _, k := range s.KeyFns {
			keyFnSet[k] = true
		}
		// the miss path is the path that performs the remote call: callees of G (after the lookup) from which
		// an HTTP round trip is reachable, and everything of t they call
		remote := remoteCallers(w)
		missOnly := map[*ssa.Function]bool{}
		var remoteCalls []ssa.Instruction
		for _, c := range callsIn(G) {
			callee := c.Common().StaticCallee()
			if callee == nil || !w.inModule(callee) || !reachableAfter(s.Get, c) {
				continue
			}
			if remote[callee] {
				missOnly[callee] = true
				remoteCalls = append(remoteCalls, c)
			}
		}
		changed := true
		for changed {
			changed = false
			for fn := range missOnly {
				for _, e := range w.CG().Out[fn] {
					cal := e.Callee
					if cal.Signature.Recv() != nil && derefNamed(cal.Signature.Recv().Type()) == t && !missOnly[cal] && cal != G && !keyFnSet[cal] {
						missOnly[cal] = true
						changed = true
					}
				}
			}
		}
		hitFns := map[*ssa.Function]bool{}
		afterRemoteC := func(u ssa.Instruction) bool {
			for _, c := range remoteCalls {
				if dominatesInstr(c, u) {
					return true
				}
			}
			return false
		}
		for _, c := range callsIn(G) {
			callee := c.Common().StaticCallee()
			if callee == nil || callee.Signature.Recv() == nil || derefNamed(callee.Signature.Recv().Type()) != t || keyFnSet[callee] {
				continue
			}
			if afterRemoteC(c) || remote[callee] {
				continue
			}
			if hit[c.Block()] || !reachableAfter(s.Get, c) {
				hitFns[callee] = true
			}
		}
		afterRemote := func(u ssa.Instruction) bool {
			for _, c := range remoteCalls {
				if dominatesInstr(c, u) {
					return true
				}
			}
			return false
		}
		names := []string{}
		byName := map[string]*types.Var{}
		for f := range ov {
			names = append(names, f.Name())
			byName[f.Name()] = f
		}
		sort.Strings(names)
		for _, n := range names {
			f := byName[n]
			inKey, missRead, hitRead := false, false, false
			var missPos token.Pos
			for _, u := range fieldReadFns(f) {
				fn := u.Parent()
				root := fn
				for root.Parent() != nil {
					root = root.Parent()
				}
				switch {
				case keyFnSet[root]:
					inKey = true
				case root == G:
					// a read whose value flows into the key argument counts as key input
					if dependsOn(w, s.Key, func(v ssa.Value) bool { return v == u }) {
						inKey = true
						continue
					}
					if isTTLUse(w, u) {
						continue
					}
					switch {
					case fn == G && afterRemote(u):
						missRead = true
						missPos = u.Pos()
					case fn == G && hit[u.Block()]:
						hitRead = true
					case fn == G && !reachableAfter(s.Get, u):
						// read before the cache lookup: it counts for the hit path only if a value derived
						// from it is consumed in the hit region
						for _, in := range forwardSlice(u) {
							if hit[in.Block()] && !afterRemote(in) {
								hitRead = true
							}
							if afterRemote(in) {
								missRead = true
								missPos = in.Pos()
							}
						}
					}
				case hitFns[root] || missOnly[root]:
					if isTTLUse(w, u) {
						continue
					}
					if hitFns[root] {
						// a method of the mechanism called on the hit path (or before the lookup)
						hitRead = true
					}
					if missOnly[root] {
						missRead = true
						missPos = u.Pos()
					}
				}
			}
			ok := inKey || !missRead || hitRead
			if ok && !inKey && missRead && hitRead {
				// the hit-path application must be effective: the error of the call that consumes the
				// setting on the hit path is tested or returned
				eff := false
				for _, c := range callsIn(G) {
					cc, isCall := c.(*ssa.Call)
					if !isCall || !hit[c.Block()] || afterRemote(c) || !lastResultIsError(c.Common().Signature()) {
						continue
					}
					consumes := false
					if callee := c.Common().StaticCallee(); callee != nil && hitFns[callee] {
						consumes = true
					}
					for _, u := range fieldReadFns(f) {
						if u.Parent() == G {
							for _, in := range forwardSlice(u) {
								if in == ssa.Instruction(cc) {
									consumes = true
								}
							}
						}
					}
					if consumes && errorResultUsed(cc) && !dependsOnCachedContent(w, G, s.Get, cc, hit) {
						eff = true
					}
				}
				if !eff {
					ok = false
				}
			}
			pos := G.Pos()
			if missPos.IsValid() {
				pos = missPos
			}
			r.Ob(ri, w.FnName(G)+"|override|"+n, pos, ok, "the overridable setting '"+n+"' influences the result on a cache miss only: it is neither part of the cache key nor applied after a hit, so a result validated under one rule's policy is served to another rule")
		}
	}
}

// errorResultUsed: the error result of the call is tested against nil or returned.
func errorResultUsed(c *ssa.Call) bool {
	var errV ssa.Value = c
	if c.Common().Signature().Results().Len() > 1 {
		errV = nil
		if refs := c.Referrers(); refs != nil {
			for _, rf := range *refs {
				if ex, ok := rf.(*ssa.Extract); ok && ex.Index == c.Common().Signature().Results().Len()-1 {
					errV = ex
				}
			}
		}
	}
	if errV == nil {
		return false
	}
	for _, in := range forwardSlice(errV) {
		switch x := in.(type) {
		case *ssa.If, *ssa.Return:
			return true
		case *ssa.BinOp:
			_ = x
		}
	}
	return false
}

// forwardSlice: instructions (transitively) using v within its function.
func forwardSlice(v ssa.Value) []ssa.Instruction {
	var out []ssa.Instruction
	seen := map[ssa.Instruction]bool{}
	var walk func(v ssa.Value)
	walk = func(v ssa.Value) {
		refs := v.Referrers()
		if refs == nil {
			return
		}
		for _, rf := range *refs {
			if seen[rf] {
				continue
			}
			seen[rf] = true
			out = append(out, rf)
			if val, ok := rf.(ssa.Value); ok {
				walk(val)
			}
			// a store into a local variable: continue with its loads
			if st, ok := rf.(*ssa.Store); ok {
				if a, ok := st.Addr.(*ssa.Alloc); ok {
					walk(a)
				}
			}
		}
	}
	walk(v)
	return out
}

// remoteCallers: module functions from which an HTTP round trip is reachable in the call graph.
func remoteCallers(w *World) map[*ssa.Function]bool {
	cg := w.CG()
	out := map[*ssa.Function]bool{}
	var work []*ssa.Function
	for callee := range cg.In {
		n := callee.String()
		if n == "(*net/http.Client).Do" || strings.HasSuffix(n, "RoundTripper).RoundTrip") || n == "(*net/http.Client).Get" || n == "(*net/http.Client).Post" {
			work = append(work, callee)
		}
	}
	for len(work) > 0 {
		f := work[len(work)-1]
		work = work[:len(work)-1]
		for _, e := range cg.In[f] {
			if !out[e.Caller] {
				out[e.Caller] = true
				work = append(work, e.Caller)
			}
		}
	}
	return out
}

// isTTLUse: the loaded field value is used only for TTL purposes (compared with zero / nil, handed
// to Cache.Set as TTL, or read inside a TTL producer / cache-enabled predicate).
func isTTLUse(w *World, u *ssa.UnOp) bool {
	t := u.Type().String()
	return t == "time.Duration" || t == "*time.Duration"
}

// ---- C11.3 -------------------------------------------------------------------------------------

// requestSourceKinds collects which request-derived sources the given functions (and the module
// functions they call, to depth 4, staying inside the mechanism's package tree) read.
func requestSourceKinds(w *World, roots []*ssa.Function, stop map[*ssa.Function]bool) map[string]token.Pos {
	kinds := map[string]token.Pos{}
	seen := map[*ssa.Function]bool{}
	var visit func(fn *ssa.Function, depth int)
	visit = func(fn *ssa.Function, depth int) {
		if fn == nil || seen[fn] || fn.Blocks == nil || depth > 4 || stop[fn] {
			return
		}
		seen[fn] = true
		for _, g := range withClosures(fn) {
			seen[g] = true
			for _, c := range callsIn(g) {
				cc := c.Common()
				o := calleeObj(cc)
				if o != nil && o.Pkg() != nil && o.Pkg().Path() == modPath+"/internal/heimdall" {
					switch o.Name() {
					case "Header", "Headers", "Cookie", "Body":
						kinds[o.Name()] = c.Pos()
					case "Outputs":
						kinds["Outputs"] = c.Pos()
					case "Request":
						// the whole request handed to a template / expression
						kinds["Request(template)"] = c.Pos()
					}
				}
				if callee := cc.StaticCallee(); callee != nil && w.inModule(callee) && !w.isMockFn(callee) {
					p := fnPkgPath(callee)
					if strings.Contains(p, "/internal/rules/mechanisms/") && !strings.Contains(p, "/template") && !strings.Contains(p, "/cellib") {
						visit(callee, depth+1)
					}
				}
			}
		}
	}
	for _, r := range roots {
		visit(r, 0)
	}
	// a direct Header()/Cookie() call is always made on ctx.Request(): do not count that Request() as template use
	if _, hasTpl := kinds["Request(template)"]; hasTpl {
		onlyForAccess := true
		for fn := range seen {
			for _, c := range callsIn(fn) {
				o := calleeObj(c.Common())
				if o == nil || o.Name() != "Request" || o.Pkg() == nil || o.Pkg().Path() != modPath+"/internal/heimdall" {
					continue
				}
				v, ok := c.(*ssa.Call)
				if !ok {
					continue
				}
				if refs := v.Referrers(); refs != nil {
					for _, rf := range *refs {
						switch x := rf.(type) {
						case *ssa.FieldAddr, *ssa.DebugRef:
							_ = x
						default:
							onlyForAccess = false
						}
					}
				}
			}
		}
		if onlyForAccess {
			delete(kinds, "Request(template)")
		}
	}
	return kinds
}

func c11RemoteInputs(w *World, r *Report, sites []*cachingSite) {
	ri := r.Rule("C11.3", 4, "every request-derived source read on the cache-miss path (and sent to the remote system or used to build the result) is also an input of the cache key")
	for _, s := range sites {
		G := s.G
		if len(s.KeyFns) == 0 {
			continue
		}
		r.Analysed(w.FnName(G))
		// key side: the key functions plus the module functions whose results are handed to them
		keyRoots := append([]*ssa.Function{}, s.KeyFns...)
		var keyCall *ssa.Call
		for _, o := range w.Origins(s.Key, nil) {
			if kc, _ := resultOfCall(o); kc != nil {
				keyCall = kc
			}
		}
		argProducers := map[*ssa.Function]bool{}
		if keyCall != nil {
			for _, a := range keyCall.Common().Args {
				for _, o := range w.Origins(a, nil) {
					if pc, _ := resultOfCall(o); pc != nil {
						if callee := pc.Common().StaticCallee(); callee != nil && w.inModule(callee) {
							keyRoots = append(keyRoots, callee)
							argProducers[callee] = true
						}
					}
				}
			}
		}
		keyKinds := requestSourceKinds(w, keyRoots, nil)
		// miss side: module callees invoked after the Get outside the hit region
		ei := errIdx(s.Get)
		hit := map[*ssa.BasicBlock]bool{}
		for _, b := range G.Blocks {
			for i := range b.Succs {
				for _, f := range edgeFacts(b, i) {
					if f.Kind == FNil && isResult(s.Get, ei)(f.V) {
						for blk := range reachFromEdge(b, i, nil) {
							hit[blk] = true
						}
					}
				}
			}
		}
		var missRoots []*ssa.Function
		for _, c := range callsIn(G) {
			callee := c.Common().StaticCallee()
			if callee == nil || !w.inModule(callee) || w.isMockFn(callee) {
				continue
			}
			if reachableAfter(s.Get, c) {
				missRoots = append(missRoots, callee)
			}
		}
		// request construction that happens before the lookup (introspection / JWT: createRequest) feeds both
		// the key (through the request URL) and the remote call: it is shared and not a miss-only source
		stop := map[*ssa.Function]bool{}
		for f := range argProducers {
			stop[f] = true
		}
		for _, k := range s.KeyFns {
			stop[k] = true
		}
		missKinds := requestSourceKinds(w, missRoots, stop)
		var names []string
		for k := range missKinds {
			names = append(names, k)
		}
		sort.Strings(names)
		for _, k := range names {
			_, ok := keyKinds[k]
			r.Ob(ri, w.FnName(G)+"|source|"+k, missKinds[k], ok, "on a cache miss the mechanism reads "+k+" of the request, but the cache key is computed without it: requests differing only there share a cached result")
		}
		if len(names) == 0 {
			r.Ob(ri, w.FnName(G)+"|no-request-source-on-miss", G.Pos(), true, "")
		}
	}
}

// ---- C11.4 -------------------------------------------------------------------------------------

func c11KeyInputs(w *World, r *Report, sites []*cachingSite) {
	ri := r.Rule("C11.4", 14, "every input of the caching function reaches the cache key and every parameter of a key function reaches its digest")
	seenKeyFn := map[*ssa.Function]bool{}
	for _, s := range sites {
		G := s.G
		r.Analysed(w.FnName(G))
		// (b) every non-context parameter of G that is used after the lookup flows into the key
		for i, p := range G.Params {
			if G.Signature.Recv() != nil && i == 0 {
				continue
			}
			if isCtxLike(w, p.Type()) {
				continue
			}
			if _, isReqPtr := p.Type().(*types.Pointer); isReqPtr && p.Type().String() == "*net/http.Response" {
				continue
			}
			usedOnMiss := false
			for _, c := range callsIn(G) {
				if !reachableAfter(s.Get, c) {
					continue
				}
				for _, a := range c.Common().Args {
					if dependsOn(w, a, func(v ssa.Value) bool { return v == p }) {
						usedOnMiss = true
					}
				}
			}
			if !usedOnMiss {
				continue
			}
			ok := dependsOn(w, s.Key, func(v ssa.Value) bool { return v == p })
			r.Ob(ri, fmt.Sprintf("%s|param-in-key|%s", w.FnName(G), p.Name()), s.Get.Pos(), ok, "parameter "+p.Name()+" is used on the cache-miss path but does not flow into the cache key")
		}
		// (c) values computed before the lookup and handed to miss-path calls flow into the key
		for _, c := range callsIn(G) {
			callee := c.Common().StaticCallee()
			if callee == nil || !w.inModule(callee) || !reachableAfter(s.Get, c) {
				continue
			}
			if cc, ok := c.(*ssa.Call); ok {
				isKeyFn := false
				for _, k := range s.KeyFns {
					if k == callee {
						isKeyFn = true
					}
				}
				if isKeyFn {
					continue
				}
				_ = cc
			}
			for ai, a := range callArgs(c.Common()) {
				if isCtxLike(w, a.Type()) {
					continue
				}
				// the cache handle itself is not an input of the cached computation
				if ct := w.Named("internal/cache", "Cache"); ct != nil && types.Identical(a.Type(), ct) {
					continue
				}
				av, isInstr := a.(ssa.Instruction)
				if !isInstr {
					continue
				}
				if !dominatesInstr(av, s.Get) {
					continue
				}
				// only request-derived values: they depend on a parameter of G or on a call taking the context
				if _, isC := a.(*ssa.Const); isC {
					continue
				}
				reqDerived := dependsOn(w, a, func(v ssa.Value) bool {
					if p, ok := v.(*ssa.Parameter); ok {
						return !(G.Signature.Recv() != nil && p == G.Params[0])
					}
					return false
				})
				if !reqDerived {
					continue
				}
				ok := dependsOn(w, s.Key, func(v ssa.Value) bool { return v == a })
				r.Ob(ri, fmt.Sprintf("%s|miss-arg-in-key|%s#%d", w.FnName(G), callee.Name(), ai), c.Pos(), ok, fmt.Sprintf("argument %d of %s is derived from the request before the cache lookup and used on a miss, but does not flow into the cache key", ai, callee.Name()))
			}
		}
		// (a) inside each key function every parameter reaches a digest write or the result
		for _, k := range s.KeyFns {
			if seenKeyFn[k] {
				continue
			}
			seenKeyFn[k] = true
			r.Analysed(w.FnName(k))
			var sinks []ssa.Value
			for _, c := range callsIn(k) {
				if isOrderSensitiveSink(c.Common()) {
					sinks = append(sinks, callArgs(c.Common())...)
				}
			}
			for _, ret := range returnsOf(k) {
				sinks = append(sinks, ret.Results...)
			}
			for i, p := range k.Params {
				if k.Signature.Recv() != nil && i == 0 {
					continue
				}
				ok := false
				for _, sv := range sinks {
					if dependsOn(w, sv, func(v ssa.Value) bool { return v == p }) {
						ok = true
					}
				}
				r.Ob(ri, fmt.Sprintf("%s|param-in-digest|%d:%s", w.FnName(k), i, p.Type().String()), k.Pos(), ok, "parameter "+p.Name()+" of the key function never reaches the digest")
				// a map takes part with its values, not only with its keys
				if _, isMap := p.Type().Underlying().(*types.Map); isMap && ok {
					vals := false
					for _, sv := range sinks {
						if dependsOn(w, sv, func(v ssa.Value) bool {
							switch x := v.(type) {
							case *ssa.Lookup:
								return stripConv(x.X) == ssa.Value(p)
							case *ssa.Extract:
								if nx, isN := x.Tuple.(*ssa.Next); isN && x.Index == 2 {
									if rg, isR := nx.Iter.(*ssa.Range); isR && stripConv(rg.X) == ssa.Value(p) {
										return true
									}
								}
							case *ssa.Call:
								n := callName(x.Common())
								if strings.HasPrefix(n, "maps.Keys") {
									return false
								}
								for _, a := range x.Common().Args {
									if stripConv(a) == ssa.Value(p) {
										return true // the whole map handed to a marshaller / formatter / maps.Values
									}
								}
							}
							return false
						}) {
							vals = true
						}
					}
					r.Ob(ri, fmt.Sprintf("%s|map-values-in-digest|%d:%s", w.FnName(k), i, p.Type().String()), k.Pos(), vals, "only the keys of the map parameter "+p.Name()+" reach the digest, not its values: two requests that differ in a value share one cache entry")
				}
			}
		}
	}
}

func isCtxLike(w *World, t types.Type) bool {
	s := t.String()
	return s == "context.Context" || strings.HasSuffix(s, "internal/heimdall.Context")
}

// c11ReloadableInKey (C11.6): an object that takes part in a cache key through its Hash() and
// whose state can be replaced at run time (it has a reload entry point: OnChanged) must derive
// that hash from the replaceable state - otherwise results computed with the old state (a token
// signed with the rotated-out key) stay valid under the same key.
func c11ReloadableInKey(w *World, r *Report, ci *types.Named) {
	ri := r.Rule("C11.6", 1, "the Hash() of a reloadable object that enters a cache key reads state that the reload replaces (the signer's hash covers the loaded key, so cached tokens die with a key rotation)")
	n := 0
	seen := map[*types.Named]bool{}
	for _, fn := range w.Funcs {
		if w.isMockFn(fn) || fn.Name() != "Hash" || fn.Signature.Recv() == nil || fn.Parent() != nil {
			continue
		}
		t := derefNamed(fn.Signature.Recv().Type())
		if t == nil || seen[t] {
			continue
		}
		reload := w.Method(t, "OnChanged")
		if reload == nil || reload.Blocks == nil {
			continue
		}
		seen[t] = true
		// fields the reload path stores into (methods of t reachable from OnChanged)
		written := map[string]bool{}
		reach, _ := w.CG().Reachable([]*ssa.Function{reload}, func(f *ssa.Function) bool { return !w.inModule(f) })
		reach[reload] = nil
		for g := range reach {
			if g.Signature.Recv() == nil || derefNamed(g.Signature.Recv().Type()) != t {
				continue
			}
			eachInstr(g, func(in ssa.Instruction) {
				if st, ok := in.(*ssa.Store); ok {
					if fa, ok := st.Addr.(*ssa.FieldAddr); ok && derefNamed(fa.X.Type()) == t {
						if f := fieldOf(fa.X.Type(), fa.Field); f != nil && !isMutexType(f.Type()) {
							written[f.Name()] = true
						}
					}
				}
			})
		}
		if len(written) == 0 {
			continue
		}
		// only where the cached value itself is produced by this object from the reloadable state:
		// some cache.Set stores a value that depends on a call to a method of t reading such a field
		// (a signer's token). An object that merely takes part in producing the *request* whose
		// response is cached (endpoint auth strategies) does not make that response stale.
		produces := false
		reader := map[*ssa.Function]bool{}
		for _, g := range w.Funcs {
			if g.Signature.Recv() == nil || derefNamed(g.Signature.Recv().Type()) != t || g == fn || w.isMockFn(g) {
				continue
			}
			eachInstr(g, func(in ssa.Instruction) {
				if fa, ok := in.(*ssa.FieldAddr); ok && derefNamed(fa.X.Type()) == t {
					if f := fieldOf(fa.X.Type(), fa.Field); f != nil && written[f.Name()] {
						reader[g] = true
					}
				}
			})
		}
		// yields(c, d): a non-error result of call c is computed from the result of a reader method
		var yields func(x ssa.Value, depth int) bool
		yields = func(x ssa.Value, depth int) bool {
			c, _ := resultOfCall(x)
			if c == nil {
				if cc, ok := x.(*ssa.Call); ok {
					c = cc
				}
			}
			if c == nil || depth > 2 {
				return false
			}
			var callees []*ssa.Function
			if c.Common().IsInvoke() {
				callees = w.resolveInvoke(c.Common())
			} else if f := c.Common().StaticCallee(); f != nil {
				callees = []*ssa.Function{f}
			}
			for _, f := range callees {
				if reader[f] {
					return true
				}
				if !w.inModule(f) || f.Blocks == nil {
					continue
				}
				for _, ret := range returnsOf(f) {
					for _, rv := range ret.Results {
						if isErrorType(rv.Type()) {
							continue
						}
						if dependsOn(w, rv, func(y ssa.Value) bool { return yields(y, depth+1) }) {
							return true
						}
					}
				}
			}
			return false
		}
		for _, sc := range cacheCalls(w, ci, "Set") {
			if dependsOn(w, sc.Common().Args[2], func(x ssa.Value) bool { return yields(x, 0) }) {
				produces = true
			}
		}
		if !produces {
			continue
		}
		n++
		r.Analysed(w.FnName(fn))
		reads := false
		eachInstr(fn, func(in ssa.Instruction) {
			if fa, ok := in.(*ssa.FieldAddr); ok && derefNamed(fa.X.Type()) == t {
				if f := fieldOf(fa.X.Type(), fa.Field); f != nil && written[f.Name()] {
					reads = true
				}
			}
		})
		var ws []string
		for k := range written {
			ws = append(ws, k)
		}
		sort.Strings(ws)
		r.Ob(ri, w.FnName(fn)+"|covers-reloadable-state", fn.Pos(), reads,
			fmt.Sprintf("Hash() reads none of the fields the reload replaces (%s): a cache key built from it does not change when the state is reloaded, so results produced with the old state keep being served", strings.Join(ws, ", ")))
		// ... and returns nothing that survives a reload: a result taken from a field of the object
		// that methods outside the reload path store (a memoised digest) and that the reload does not
		// replace is the digest of the *previous* state
		stale := ""
		storedOutsideReload := map[string]bool{}
		for _, g := range w.Funcs {
			if g.Signature.Recv() == nil || derefNamed(g.Signature.Recv().Type()) != t || w.isMockFn(g) {
				continue
			}
			if _, onReload := reach[g]; onReload {
				continue
			}
			eachInstr(g, func(in ssa.Instruction) {
				if st, ok := in.(*ssa.Store); ok {
					if fa, ok := st.Addr.(*ssa.FieldAddr); ok && derefNamed(fa.X.Type()) == t {
						if f := fieldOf(fa.X.Type(), fa.Field); f != nil && !isMutexType(f.Type()) && !written[f.Name()] {
							storedOutsideReload[f.Name()] = true
						}
					}
				}
			})
		}
		for _, ret := range returnsOf(fn) {
			for _, rv := range ret.Results {
				dependsOn(w, rv, func(x ssa.Value) bool {
					if fa, ok := x.(*ssa.FieldAddr); ok && derefNamed(fa.X.Type()) == t {
						if f := fieldOf(fa.X.Type(), fa.Field); f != nil && storedOutsideReload[f.Name()] {
							stale = f.Name()
							return true
						}
					}
					return false
				})
			}
		}
		r.Ob(ri, w.FnName(fn)+"|no-result-surviving-reload", fn.Pos(), stale == "",
			fmt.Sprintf("Hash() returns a value taken from the field %s, which methods outside the reload path store and the reload does not replace (a memoised digest): after a reload the cache key is still the one of the previous state, so results produced with the old state keep being served", stale))
		// ... and among them the one that identifies the key in the product: what a reader method
		// writes into the token's "kid" header must reach the digest of Hash() (a rotation that keeps
		// the algorithm changes nothing else)
		for g := range reader {
			for _, c := range callsIn(g) {
				if !strings.HasSuffix(callName(c.Common()), "SignerOptions.WithHeader") {
					continue
				}
				args := callArgs(c.Common())
				if len(args) < 2 {
					continue
				}
				if k, ok := constString(stripConv(args[0])); !ok || k != "kid" {
					continue
				}
				root, idp := accessPathThroughCopy(stripConv(args[1]))
				if len(g.Params) == 0 || root != ssa.Value(g.Params[0]) || len(idp) == 0 || !written[idp[0]] {
					continue
				}
				var sinks []ssa.Value
				for _, hc := range callsIn(fn) {
					if isOrderSensitiveSink(hc.Common()) {
						sinks = append(sinks, callArgs(hc.Common())...)
					}
				}
				covered := false
				for _, sv := range sinks {
					if dependsOn(w, sv, func(x ssa.Value) bool {
						xr, xp := accessPathThroughCopy(x)
						if _, isAddr := x.(*ssa.FieldAddr); isAddr {
							return false
						}
						if xr != ssa.Value(fn.Params[0]) || len(xp) != len(idp) {
							return false
						}
						for i := range xp {
							if xp[i] != idp[i] {
								return false
							}
						}
						return true
					}) {
						covered = true
					}
				}
				r.Ob(ri, w.FnName(fn)+"|covers-key-id", fn.Pos(), covered,
					fmt.Sprintf("%s writes %s into the kid header of what is cached, but Hash() does not digest it: after a key rotation the cache key stays the same and tokens signed with the replaced key keep being served", g.Name(), strings.Join(idp, ".")))
			}
		}
	}
	if n == 0 {
		r.Undecided(ri, "no reloadable type with a Hash() method found")
	}
}

// c11NoLossyURL (C11.7): a key function must not fold distinct resources into one key: case
// folding is harmless for scheme and host, not for a whole URL, a path or a query.
func c11NoLossyURL(w *World, r *Report, sites []*cachingSite) {
	ri := r.Rule("C11.7", 3, "no cache key function applies a case-folding or trimming normaliser to a whole URL, a path or a query (distinct resources would share one entry)")
	seen := map[*ssa.Function]bool{}
	for _, s := range sites {
		for _, kf := range s.KeyFns {
			if seen[kf] {
				continue
			}
			seen[kf] = true
			r.Analysed(w.FnName(kf))
			ok, msg := true, ""
			for _, f := range withClosures(kf) {
				for _, ci := range callsIn(f) {
					c, isCall := ci.(*ssa.Call)
					if !isCall {
						continue
					}
					switch callName(c.Common()) {
					case "strings.ToLower", "strings.ToUpper", "strings.ToTitle", "strings.TrimSpace", "strings.Trim", "strings.TrimRight", "strings.TrimLeft", "strings.TrimSuffix", "strings.TrimPrefix":
					default:
						continue
					}
					if dependsOn(w, c.Common().Args[0], func(x ssa.Value) bool {
						switch y := x.(type) {
						case *ssa.Call:
							n := callName(y.Common())
							return strings.HasSuffix(n, "url.URL.String") || strings.HasSuffix(n, "url.URL.RequestURI") || strings.HasSuffix(n, "url.URL.EscapedPath")
						case *ssa.FieldAddr:
							if fl := fieldOf(y.X.Type(), y.Field); fl != nil && fl.Pkg() != nil && fl.Pkg().Path() == "net/url" {
								return fl.Name() == "Path" || fl.Name() == "RawPath" || fl.Name() == "RawQuery" || fl.Name() == "Fragment"
							}
						}
						return false
					}) {
						ok, msg = false, "the key is built from a "+callName(c.Common())+" of a URL, path or query at "+w.Pos(c.Pos())+": resources that differ only in what the normaliser removes share one cache entry"
					}
				}
			}
			r.Ob(ri, w.FnName(kf)+"|no-lossy-url-normalisation", kf.Pos(), ok, msg)
		}
	}
}

// ---- C11.8 -------------------------------------------------------------------------------------

// c11HTTPCacheKey: the key of the HTTP response cache (internal/httpcache) must cover everything
// that selects the response: the absolute request URL (scheme and host as well as path and query),
// the method and the presented credential. A key that leaves out one of them serves a response
// fetched for a different request (the key set of another identity provider that happens to use
// the same path). Decided on the key function: which request components reach its digest.
func c11HTTPCacheKey(w *World, r *Report, ci *types.Named) {
	httpCacheKey(w, r, ci, "C11.8", "the key of the HTTP response cache covers the absolute URL (host, path, query), the method and the Authorization header of the request, and either the body or the cache is used for GET and HEAD only")
}

func httpCacheKey(w *World, r *Report, ci *types.Named, id, text string) {
	ri := r.Rule(id, 6, text)
	pkg := modPath + "/internal/httpcache"
	keyFns := map[*ssa.Function]bool{}
	for _, name := range []string{"Get", "Set"} {
		for _, c := range cacheCalls(w, ci, name) {
			if fnPkgPath(c.Parent()) != pkg {
				continue
			}
			args := callArgs(c.Common())
			if len(args) < 2 {
				continue
			}
			for _, o := range w.Origins(args[1], nil) {
				if kc, _ := resultOfCall(o); kc != nil {
					if cal := kc.Common().StaticCallee(); cal != nil && fnPkgPath(cal) == pkg {
						keyFns[cal] = true
					}
				}
			}
		}
	}
	if len(keyFns) != 1 {
		r.Undecided(ri, fmt.Sprintf("expected one key function of the HTTP cache, found %d", len(keyFns)))
		return
	}
	for k := range keyFns {
		r.Analysed(w.FnName(k))
		var sinks []ssa.Value
		for _, ia := range withHelperBodies(k) {
			if c, ok := ia.In.(ssa.CallInstruction); ok && isOrderSensitiveSink(c.Common()) {
				sinks = append(sinks, callArgs(c.Common())...)
			}
		}
		for _, ret := range returnsOf(k) {
			sinks = append(sinks, ret.Results...)
		}
		reaches := func(pred func(v ssa.Value) bool) bool {
			for _, s := range sinks {
				if dependsOn(w, s, pred) {
					return true
				}
			}
			return false
		}
		urlCall := func(names ...string) func(v ssa.Value) bool {
			return func(v ssa.Value) bool {
				c, ok := v.(*ssa.Call)
				if !ok {
					return false
				}
				n := callName(c.Common())
				for _, x := range names {
					if n == "net/url.URL."+x {
						return true
					}
				}
				return false
			}
		}
		field := func(names ...string) func(v ssa.Value) bool {
			return func(v ssa.Value) bool {
				_, f := fieldLoad(v)
				if f == nil || f.Pkg() == nil || (f.Pkg().Path() != "net/url" && f.Pkg().Path() != "net/http") {
					return false
				}
				for _, x := range names {
					if f.Name() == x {
						return true
					}
				}
				return false
			}
		}
		whole := reaches(urlCall("String", "Redacted"))
		// (URL.Hostname() drops the port: endpoints on different ports of one host would share entries)
		host := whole || reaches(field("Host"))
		path := whole || reaches(urlCall("RequestURI", "EscapedPath")) || reaches(field("Path", "RawPath", "RequestURI"))
		query := whole || reaches(urlCall("RequestURI", "Query")) || reaches(field("RawQuery", "RequestURI"))
		method := reaches(field("Method"))
		auth := reaches(func(v ssa.Value) bool {
			c, ok := v.(*ssa.Call)
			if !ok || callName(c.Common()) != "net/http.Header.Get" {
				return false
			}
			for _, a := range c.Common().Args {
				if s, ok := constString(a); ok && strings.EqualFold(s, "Authorization") {
					return true
				}
			}
			return false
		})
		name := w.FnName(k)
		r.Ob(ri, name+"|host-in-key", k.Pos(), host, "the key of the HTTP response cache does not depend on the host of the request: endpoints on different hosts with the same path share an entry")
		r.Ob(ri, name+"|path-in-key", k.Pos(), path, "the key of the HTTP response cache does not depend on the request path")
		r.Ob(ri, name+"|query-in-key", k.Pos(), query, "the key of the HTTP response cache does not depend on the query")
		r.Ob(ri, name+"|method-in-key", k.Pos(), method, "the key of the HTTP response cache does not depend on the request method")
		// the body selects the response as well (a POST to an introspection endpoint): it is part of
		// the key, or the cache is used for body-less methods only (a test of the method guards
		// every use of the cache)
		body := reaches(field("Body")) || reaches(func(v ssa.Value) bool {
			c, ok := v.(*ssa.Call)
			return ok && (callName(c.Common()) == "net/http.Request.GetBody" || callName(c.Common()) == "io.ReadAll")
		})
		if !body {
			guarded := true
			nUse := 0
			for _, nm := range []string{"Get", "Set"} {
				for _, cc := range cacheCalls(w, ci, nm) {
					if fnPkgPath(cc.Parent()) != pkg {
						continue
					}
					nUse++
					g := cc.Parent()
					methodTest := func(f Fact) bool {
						// the edge on which the method *is* one of the body-less ones
						if f.Kind != FCmp || f.Op != token.EQL {
							return false
						}
						for _, pr := range [][2]ssa.Value{{f.X, f.Y}, {f.Y, f.X}} {
							if _, fld := fieldLoad(pr[0]); fld != nil && fld.Name() == "Method" {
								if s, ok := constString(pr[1]); ok && (s == "GET" || s == "HEAD") {
									return true
								}
							}
						}
						return false
					}
					if !(onlyVia(g, cc.Block(), methodTest) || onlyViaCallers(g, methodTest, 0)) {
						guarded = false
					}
				}
			}
			body = guarded && nUse > 0
		}
		r.Ob(ri, name+"|body-in-key-or-bodyless-only", k.Pos(), body, "the key of the HTTP response cache ignores the request body and the cache is used for every method: the response to one POST (the introspection result of one token) is served for another")
		r.Ob(ri, name+"|credential-in-key", k.Pos(), auth, "the key of the HTTP response cache does not depend on the Authorization header: a response fetched with one credential is served for another")
	}
}

// accessPathThroughCopy: like accessPath, but a local that holds a copy of a struct field
// (`jwk := s.jwk`) stands for that field.
func accessPathThroughCopy(v ssa.Value) (ssa.Value, []string) {
	root, p := accessPath(v)
	for depth := 0; depth < 3; depth++ {
		al, ok := root.(*ssa.Alloc)
		if !ok || al.Referrers() == nil {
			break
		}
		var src ssa.Value
		n := 0
		for _, rf := range *al.Referrers() {
			if st, ok := rf.(*ssa.Store); ok && st.Addr == ssa.Value(al) {
				n++
				src = st.Val
			}
		}
		if n != 1 {
			break
		}
		r2, p2 := accessPath(src)
		if r2 == nil || len(p2) == 0 {
			break
		}
		root, p = r2, append(append([]string{}, p2...), p...)
	}
	return root, p
}

// dependsOnCachedContent: whether the call c (in the hit region of G) is executed depends on the
// *content* of the cached entry: a branch that dominates c, lies in the hit region and tests a value
// read from the cache entry (the Get result or what it was decoded into) - other than the error of
// the lookup / decoding itself. A policy check that runs only for some cached contents lets the
// other contents pass unchecked.
func dependsOnCachedContent(w *World, G *ssa.Function, get ssa.CallInstruction, c ssa.Instruction, hit map[*ssa.BasicBlock]bool) bool {
	getV, _ := get.(ssa.Value)
	fromGet := func(v ssa.Value) bool {
		return dependsOn(w, v, func(x ssa.Value) bool { return getV != nil && x == getV })
	}
	// decode targets: allocs handed to a call of the hit region together with something read from the cache
	targets := map[ssa.Value]bool{}
	for _, ci := range callsIn(G) {
		if !hit[ci.Block()] {
			continue
		}
		has := false
		for _, a := range ci.Common().Args {
			if fromGet(a) {
				has = true
			}
		}
		if !has {
			continue
		}
		for _, a := range ci.Common().Args {
			if al, ok := stripConv(a).(*ssa.Alloc); ok {
				targets[al] = true
			}
		}
	}
	for _, b := range G.Blocks {
		if !hit[b] || b == c.Block() || !b.Dominates(c.Block()) || len(b.Instrs) == 0 {
			continue
		}
		br, ok := b.Instrs[len(b.Instrs)-1].(*ssa.If)
		if !ok {
			continue
		}
		// error tests of calls are the lookup / decoding succeeding, not content
		isErrTest := false
		for _, f := range condFacts(br.Cond, true) {
			if (f.Kind == FNil || f.Kind == FNonNil) && f.V != nil && isErrorType(f.V.Type()) {
				isErrTest = true
			}
		}
		if isErrTest {
			continue
		}
		// only what the entry was decoded into: a test of the raw entry (empty?) selects between the
		// hit path and the miss path, which applies the setting anyway
		if dependsOn(w, br.Cond, func(x ssa.Value) bool { return targets[x] }) {
			return true
		}
	}
	return false
}

// ---- C11.5: the parts of a cache key cannot run into each other ----------------------------------------
//
// A key that is the digest of parts written one after the other is unambiguous only if the parts
// cannot shift across their boundary: "ab"+"c" and "a"+"bc" digest alike. Two parts of variable
// length that are written consecutively therefore need a separator between them (a constant, or a
// fixed-length part such as another digest or a length). Decided per key function, in program order
// within each block and around each loop body.
func c11PartsSeparated(w *World, r *Report, sites []*cachingSite) {
	ri := r.Rule("C11.5", 4, "two variable-length parts written consecutively into the digest of a cache key are separated by a constant or a fixed-length part")
	seen := map[*ssa.Function]bool{}
	var fns []*ssa.Function
	for _, s := range sites {
		for _, k := range s.KeyFns {
			if !seen[k] {
				seen[k] = true
				fns = append(fns, k)
			}
		}
	}
	// key functions that are not next to a cache call: the token key of the client-credentials strategy
	for _, fn := range w.Funcs {
		if !seen[fn] && !w.isMockFn(fn) && fn.Parent() == nil && strings.Contains(strings.ToLower(fn.Name()), "cachekey") && fn.Blocks != nil {
			seen[fn] = true
			fns = append(fns, fn)
		}
	}
	kind := func(v ssa.Value) string {
		v = stripConv(v)
		if _, ok := v.(*ssa.Const); ok {
			return "const"
		}
		// a literal of constants ([]byte{0})
		if sl, ok := v.(*ssa.Slice); ok {
			if els := sliceLiteralElems(sl); els != nil {
				allC := true
				for _, e := range els {
					if _, isC := stripConv(e).(*ssa.Const); !isC {
						allC = false
					}
				}
				if allC {
					return "const"
				}
			}
		}
		fixed := false
		for _, o := range w.Origins(v, nil) {
			switch x := stripConv(o).(type) {
			case *ssa.Call:
				n := callName(x.Common())
				if strings.HasSuffix(n, ".Hash") || strings.HasSuffix(n, ".Sum") || strings.HasPrefix(n, "crypto/") || strings.HasPrefix(n, "strconv.AppendBool") {
					fixed = true
					continue
				}
				if x.Common().IsInvoke() && (x.Common().Method.Name() == "Hash" || x.Common().Method.Name() == "Sum") {
					fixed = true
					continue
				}
				return "var"
			case *ssa.MakeSlice:
				if _, isC := x.Len.(*ssa.Const); isC {
					fixed = true
					continue
				}
				return "var"
			case *ssa.Slice:
				// ttlBytes := make([]byte, 8): resliced alloc of constant size
				fixed = true
			case *ssa.Const:
				return "const"
			default:
				return "var"
			}
		}
		if fixed {
			return "fixed"
		}
		return "var"
	}
	for _, fn := range fns {
		r.Analysed(w.FnName(fn))
		ok, pos, nvar := true, fn.Pos(), 0
		for _, b := range fn.Blocks {
			var kinds []string
			var poss []token.Pos
			for _, in := range b.Instrs {
				c, isC := in.(ssa.CallInstruction)
				if !isC || !isOrderSensitiveSink(c.Common()) {
					continue
				}
				args := callArgs(c.Common())
				if len(args) == 0 {
					continue
				}
				k := kind(args[len(args)-1])
				kinds = append(kinds, k)
				poss = append(poss, c.Pos())
				if k == "var" {
					nvar++
				}
			}
			for i := 1; i < len(kinds); i++ {
				if kinds[i] == "var" && kinds[i-1] == "var" {
					ok, pos = false, poss[i]
				}
			}
			// around a loop: the last write of the body meets the first one of the next iteration
			if len(kinds) > 0 && reach(b, nil)[b] && kinds[0] == "var" && kinds[len(kinds)-1] == "var" {
				onCycle := false
				for _, sx := range b.Succs {
					if reach(sx, nil)[b] {
						onCycle = true
					}
				}
				if onCycle {
					ok, pos = false, poss[0]
				}
			}
		}
		if nvar < 2 {
			continue
		}
		r.Ob(ri, w.FnName(fn)+"|parts-separated", pos, ok, "two variable-length parts are written into the digest one directly after the other: the boundary between them can shift (ab+c = a+bc), so different inputs share one cache entry")
	}
}
