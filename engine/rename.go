package main

import (
	"fmt"
	"go/ast"
	"go/types"
	"os"
	"sort"
	"strings"
)

// Type-resolved renaming for the checker self-test: "-rename internal/x/radixtree.Tree.values=entries"
// (field of a struct type) or "-rename internal/rules.getConfig=toConfig" (package-level function)
// or "-rename internal/rules.ruleImpl.Execute#m=..." is not supported (methods of interfaces must
// keep their names). The program is loaded once, every identifier that resolves to the object is
// replaced, and the property is then checked on the renamed program through overlays. A
// behaviour-preserving change by construction: every check must stay silent.

func renameOverlays(w *World, specs []string) (map[string][]byte, error) {
	type edit struct {
		off int
		old string
		new string
	}
	edits := map[string][]edit{}
	for _, spec := range specs {
		i := strings.LastIndex(spec, "=")
		if i < 0 {
			return nil, fmt.Errorf("bad -rename %q", spec)
		}
		path, newName := spec[:i], spec[i+1:]
		parts := strings.Split(path, ".")
		// <pkg rel path>.<Type>.<field>  or  <pkg rel path>.<func>
		var obj types.Object
		var find func(n int) types.Object
		find = func(n int) types.Object {
			if n < 1 || n > 2 || len(parts) <= n {
				return nil
			}
			pkgRel := strings.Join(parts[:len(parts)-n], ".")
			p := w.ByPath[modPath+"/"+pkgRel]
			if p == nil || p.Types == nil {
				return nil
			}
			top := p.Types.Scope().Lookup(parts[len(parts)-n])
			if top == nil {
				return nil
			}
			if n == 1 {
				return top
			}
			tn, ok := top.(*types.TypeName)
			if !ok {
				return nil
			}
			if st, ok := tn.Type().Underlying().(*types.Struct); ok {
				for k := 0; k < st.NumFields(); k++ {
					if st.Field(k).Name() == parts[len(parts)-1] {
						return st.Field(k)
					}
				}
			}
			// an (unexported) method of the named type
			if nt, ok := tn.Type().(*types.Named); ok {
				for k := 0; k < nt.NumMethods(); k++ {
					if m := nt.Method(k); m.Name() == parts[len(parts)-1] && !m.Exported() {
						return m
					}
				}
			}
			return nil
		}
		if obj = find(2); obj == nil {
			obj = find(1)
		}
		if obj == nil {
			return nil, fmt.Errorf("-rename: %q does not name a struct field or package-level object", path)
		}
		same := func(o types.Object) bool {
			if o == nil {
				return false
			}
			if o == obj {
				return true
			}
			// fields / methods of generic types: instantiations have their own objects
			if v, ok := o.(*types.Var); ok {
				if ov, ok := obj.(*types.Var); ok && v.Origin() == ov.Origin() {
					return true
				}
			}
			if f, ok := o.(*types.Func); ok {
				if of, ok := obj.(*types.Func); ok && f.Origin() == of.Origin() {
					return true
				}
			}
			return false
		}
		n := 0
		for _, p := range w.Pkgs {
			if p.TypesInfo == nil {
				continue
			}
			visit := func(id *ast.Ident, o types.Object) {
				if !same(o) || id.Name != obj.Name() {
					return
				}
				pos := w.Fset.Position(id.Pos())
				edits[pos.Filename] = append(edits[pos.Filename], edit{pos.Offset, id.Name, newName})
				n++
			}
			for id, o := range p.TypesInfo.Defs {
				visit(id, o)
			}
			for id, o := range p.TypesInfo.Uses {
				visit(id, o)
			}
		}
		if n == 0 {
			return nil, fmt.Errorf("-rename: no identifier resolves to %q", path)
		}
	}
	out := map[string][]byte{}
	for file, es := range edits {
		b, err := os.ReadFile(file)
		if err != nil {
			return nil, err
		}
		sort.Slice(es, func(i, j int) bool { return es[i].off > es[j].off })
		last := -1
		for _, e := range es {
			if e.off == last {
				continue
			}
			last = e.off
			if string(b[e.off:e.off+len(e.old)]) != e.old {
				return nil, fmt.Errorf("-rename: unexpected text at %s:%d", file, e.off)
			}
			b = append(append(append([]byte{}, b[:e.off]...), e.new...), b[e.off+len(e.old):]...)
		}
		out[file] = b
	}
	return out, nil
}
