package main

import (
	"fmt"
	"go/types"
	"strings"

	"golang.org/x/tools/go/ssa"
)

func init() { register("C14", checkC14) }

type factoryAnchors struct {
	createRule, initDefault, execPipeline, errPipeline *ssa.Function
	createHandlers                                     []*ssa.Function // instantiations of the generic handler builder
	factoryT                                           *types.Named    // the rule factory struct
	defaultRuleField                                   *types.Var      // field of the factory holding the default rule
}

// findFactoryAnchors resolves the rule factory by role: the implementation of rule.Factory, its
// CreateRule, the function storing the default rule, and the pipeline builders (callees of
// CreateRule that return the composite types).
func findFactoryAnchors(w *World, pa *pipelineAnchors) (*factoryAnchors, error) {
	fa := &factoryAnchors{}
	fi := w.Iface("internal/rules/rule", "Factory")
	if fi == nil {
		return nil, fmt.Errorf("rule.Factory not found")
	}
	for _, t := range w.Implementors(fi) {
		if t.Obj().Pkg().Path() == modPath+"/internal/rules" {
			fa.factoryT = t
		}
	}
	if fa.factoryT == nil {
		return nil, fmt.Errorf("no implementation of rule.Factory in internal/rules")
	}
	fa.createRule = w.Method(fa.factoryT, "CreateRule")
	if fa.createRule == nil {
		return nil, fmt.Errorf("CreateRule not found")
	}
	st := fa.factoryT.Underlying().(*types.Struct)
	for i := 0; i < st.NumFields(); i++ {
		if derefNamed(st.Field(i).Type()) == pa.ruleImpl {
			fa.defaultRuleField = st.Field(i)
		}
	}
	if fa.defaultRuleField == nil {
		return nil, fmt.Errorf("the factory has no default-rule field")
	}
	for _, c := range findCalls(fa.createRule, func(c *ssa.CallCommon) bool { return c.StaticCallee() != nil }) {
		callee := c.Common().StaticCallee()
		res := callee.Signature.Results()
		if res.Len() == 4 && types.Identical(res.At(0).Type(), pa.compSC) {
			fa.execPipeline = callee
		}
		if res.Len() == 2 && types.Identical(res.At(0).Type(), pa.compEH) {
			fa.errPipeline = callee
		}
	}
	if fa.execPipeline == nil || fa.errPipeline == nil {
		return nil, fmt.Errorf("pipeline builders not found among CreateRule's callees")
	}
	for _, fn := range w.Funcs {
		if fnPkgPath(fn) != modPath+"/internal/rules" || w.isMockFn(fn) {
			continue
		}
		if fn != fa.createRule && len(ruleLiteralAllocs(fn, pa.ruleImpl)) > 0 && fn.Signature.Recv() != nil && derefNamed(fn.Signature.Recv().Type()) == fa.factoryT {
			fa.initDefault = fn
		}
		if org := fn.Origin(); org != nil && fn.Signature.Results().Len() == 2 && types.Identical(fn.Signature.Results().At(0).Type(), pa.shIface) {
			fa.createHandlers = append(fa.createHandlers, fn)
		}
	}
	if fa.initDefault == nil {
		return nil, fmt.Errorf("default-rule initialisation not found")
	}
	return fa, nil
}

func checkC14(w *World, r *Report) {
	pa, err := findPipelineAnchors(w)
	if err != nil {
		r.Undecided(nil, err.Error())
		return
	}
	fa, err := findFactoryAnchors(w, pa)
	if err != nil {
		r.Undecided(nil, err.Error())
		return
	}
	c14StageFallback(w, r, pa, fa)
	c14Backtracking(w, r, pa, fa, "C14.2")
	c14Ordering(w, r, pa, fa)
	c01HasAuthenticator(w, r, pa, "C14.4a")
	c14Mandatory(w, r, pa, fa)
	c14DefaultRule(w, r, pa, fa)
	c14ConfigType(w, r)
	c14RuleFailureFailsSet(w, r, fa)
	c14OneMechanismPerStep(w, r, fa)
	// a type-confused rule definition panics while it is processed; the panic must come out as an error
	c19RecoverIntoResult(w, r, "C14.8")
}

// stageFields returns the names of the four pipeline fields of the rule implementation in the
// order creator, first handler stage, second handler stage, error handlers (handler order taken
// from the execution order in Execute).
func stageFields(w *World, pa *pipelineAnchors) ([4]string, error) {
	var out [4]string
	sc := fieldsOfType(pa.ruleImpl, pa.compSC)
	eh := fieldsOfType(pa.ruleImpl, pa.compEH)
	sh := fieldsOfType(pa.ruleImpl, pa.compSH)
	if len(sc) != 1 || len(eh) != 1 || len(sh) != 2 {
		return out, fmt.Errorf("unexpected pipeline fields in the rule implementation")
	}
	out[0], out[3] = sc[0], eh[0]
	fn := w.Method(pa.ruleImpl, "Execute")
	if fn == nil {
		return out, fmt.Errorf("Execute not found")
	}
	var calls []*ssa.Call
	for _, c := range findCalls(fn, func(c *ssa.CallCommon) bool {
		rv := callRecv(c)
		return rv != nil && types.Identical(rv.Type(), pa.compSH) && methodCallNamed(c, "Execute")
	}) {
		calls = append(calls, c)
	}
	if len(calls) != 2 {
		return out, fmt.Errorf("expected two handler-stage calls in Execute")
	}
	a, b := calls[0], calls[1]
	if dominatesInstr(b, a) {
		a, b = b, a
	}
	_, fa := fieldLoad(callRecv(a.Common()))
	_, fb := fieldLoad(callRecv(b.Common()))
	if fa == nil || fb == nil {
		return out, fmt.Errorf("handler stages are not executed from receiver fields")
	}
	out[1], out[2] = fa.Name(), fb.Name()
	return out, nil
}

func c14StageFallback(w *World, r *Report, pa *pipelineAnchors, fa *factoryAnchors) {
	ri := r.Rule("C14.1", 4, "each stage of a rule is the rule's own mechanisms if it defines at least one, otherwise the default rule's same stage")
	sf, err := stageFields(w, pa)
	if err != nil {
		r.Undecided(ri, err.Error())
		return
	}
	fn := fa.createRule
	r.Analysed(w.FnName(fn))
	lits := ruleLiteralAllocs(fn, pa.ruleImpl)
	if len(lits) != 1 {
		r.Undecided(ri, "expected one rule literal in CreateRule")
		return
	}
	execCalls := findCalls(fn, func(c *ssa.CallCommon) bool { return c.StaticCallee() == fa.execPipeline })
	errCalls := findCalls(fn, func(c *ssa.CallCommon) bool { return c.StaticCallee() == fa.errPipeline })
	if len(execCalls) != 1 || len(errCalls) != 1 {
		r.Undecided(ri, "expected one call of each pipeline builder in CreateRule")
		return
	}
	own := []func(ssa.Value) bool{isResult(execCalls[0], 0), isResult(execCalls[0], 1), isResult(execCalls[0], 2), isResult(errCalls[0], 0)}
	for i, name := range sf {
		v, st := storedField(lits[0], name)
		key := w.FnName(fn) + "|stage|" + name
		if v == nil {
			r.Ob(ri, key, lits[0].Pos(), false, "stage field is not set in the rule literal")
			continue
		}
		ok, msg := true, ""
		sawOwn, sawDef := false, false
		// walk manually so that the select conditions can be checked
		seen := map[ssa.Value]bool{}
		var walk func(v ssa.Value)
		walk = func(v ssa.Value) {
			if seen[v] {
				return
			}
			seen[v] = true
			switch x := v.(type) {
			case *ssa.Phi:
				for k, e := range x.Edges {
					if _, p := accessPath(e); len(p) == 2 && p[0] == fa.defaultRuleField.Name() {
						// if-form fallback: the default's stage may enter only where the own stage is empty
						pred := x.Block().Preds[k]
						viaEmpty := func(f Fact) bool { l, kd := lenFact(f); return l != nil && kd == "empty" && own[i](l) }
						edgeOK := false
						for si, sb := range pred.Succs {
							if sb == x.Block() {
								for _, f := range edgeFacts(pred, si) {
									if viaEmpty(f) {
										edgeOK = true
									}
								}
							}
						}
						if !edgeOK && !onlyVia(fn, pred, viaEmpty) {
							ok, msg = false, "the stage falls back to the default rule's although the rule's own stage is not known to be empty"
						}
					}
					walk(e)
				}
				return
			case *ssa.Call:
				if ops := selectOperands(x); ops != nil {
					// IfThenElse(len(own) != 0, own, default.X)
					cond := selectCond(x)
					fs := condFacts(cond, true)
					good := false
					for _, f := range fs {
						if l, k := lenFact(f); l != nil && k == "nonempty" && own[i](l) && own[i](ops[0]) {
							good = true
						}
					}
					if !good {
						ok, msg = false, "the stage falls back on something else than 'the rule defines no mechanism of this stage' (expected select(len(own) != 0, own, default))"
					}
					for _, o := range ops {
						walk(o)
					}
					return
				}
			}
			switch {
			case own[i](v):
				sawOwn = true
			default:
				_, p := accessPath(v)
				if len(p) == 2 && p[0] == fa.defaultRuleField.Name() && p[1] == name {
					sawDef = true
				} else {
					ok, msg = false, "stage "+name+" can be taken from "+strings.Join(p, ".")+" ("+v.String()+"): only the rule's own stage or the default rule's same stage are allowed"
				}
			}
		}
		walk(v)
		if !sawOwn {
			ok, msg = false, "the rule's own mechanisms of this stage never reach the rule"
		}
		if !sawDef {
			ok, msg = false, "the default rule's mechanisms of this stage are never inherited"
		}
		r.Ob(ri, key, st.Pos(), ok, msg)
	}
}

// c14Backtracking: the backtracking flag of a rule is the rule's own setting if given, otherwise
// the default rule's, otherwise off (C14.2, shared by C02.2).
func c14Backtracking(w *World, r *Report, pa *pipelineAnchors, fa *factoryAnchors, id string) {
	ri := r.Rule(id, 3, "the backtracking flag is the rule's own setting if given, otherwise the default rule's, otherwise off")
	fn := fa.createRule
	r.Analysed(w.FnName(fn))
	lits := ruleLiteralAllocs(fn, pa.ruleImpl)
	// the flag field: the bool field returned by AllowsBacktracking()
	ab := w.Method(pa.ruleImpl, "AllowsBacktracking")
	if ab == nil || len(lits) != 1 {
		r.Undecided(ri, "AllowsBacktracking / rule literal not found")
		return
	}
	var flag *types.Var
	for _, ret := range returnsOf(ab) {
		if b, f := fieldLoad(ret.Results[0]); f != nil && b == ab.Params[0] {
			flag = f
		}
	}
	r.Ob(ri, w.FnName(ab)+"|returns-flag-field", ab.Pos(), flag != nil && len(returnsOf(ab)) == 1, "AllowsBacktracking must return the rule's flag field")
	if flag == nil {
		return
	}
	v, st := storedField(lits[0], flag.Name())
	key := w.FnName(fn) + "|flag"
	if v == nil {
		r.Ob(ri, key, lits[0].Pos(), false, "the backtracking flag is not set in the rule literal (own setting ignored)")
		return
	}
	isOwn := func(x ssa.Value) bool { return pathEndsWith(x, "Matcher", "BacktrackingEnabled") }
	ok, msg := true, ""
	sawOwn := false
	var defaultFlag *types.Var
	for _, s := range w.Sources(v, st.Block()) {
		x := s.V
		switch {
		case isOwn(x):
			sawOwn = true
		case s.Kind == "nonnil" || s.Kind == "nil":
			if c, isC := x.(*ssa.Const); isC {
				// a constant is allowed only where the rule has no own setting
				if !srcOnlyVia(fn, s, nilOf(isOwn)) && !viaSelectFalse(w, fn, v, x, isOwn) {
					ok, msg = false, "the flag can be the constant "+c.String()+" although the rule has its own backtracking_enabled setting (own setting ignored when no default rule exists)"
				}
				continue
			}
			ok, msg = false, "unexpected origin "+x.String()
		default:
			root, p := accessPath(x)
			isDefault := false
			if len(p) == 1 && root == fn.Params[0] {
				// a factory field: the default rule's setting
				if b, f := fieldLoad(x); f != nil && b == fn.Params[0] {
					defaultFlag = f
					isDefault = true
				}
			}
			// captured receiver inside select closures
			if !isDefault && len(p) == 1 {
				if _, f := fieldLoad(x); f != nil && isBool(f.Type()) {
					defaultFlag = f
					isDefault = true
				}
			}
			if isDefault {
				// the default's setting may be used only where the rule has no own setting
				if !srcOnlyVia(fn, s, nilOf(isOwn)) && !viaSelectFalse(w, fn, v, x, isOwn) {
					ok, msg = false, "the default rule's backtracking setting can be used although the rule has its own backtracking_enabled setting (an explicit 'false' cannot switch off an inherited 'true')"
				}
				continue
			}
			ok, msg = false, "the flag can originate from "+x.String()
		}
	}
	if !sawOwn {
		ok, msg = false, "the rule's own backtracking_enabled setting never reaches the flag"
	}
	r.Ob(ri, key, st.Pos(), ok, msg)
	// the default's setting comes from the default rule configuration
	if defaultFlag != nil {
		n := 0
		for _, g := range w.Funcs {
			if fnPkgPath(g) != modPath+"/internal/rules" || w.isMockFn(g) {
				continue
			}
			eachInstr(g, func(in ssa.Instruction) {
				s, isSt := in.(*ssa.Store)
				if !isSt {
					return
				}
				fad, isFA := s.Addr.(*ssa.FieldAddr)
				if !isFA || fieldOf(fad.X.Type(), fad.Field) != defaultFlag {
					return
				}
				n++
				good := true
				for _, o := range w.Origins(s.Val, nil) {
					if !pathEndsWith(o, "BacktrackingEnabled") {
						if c, isC := o.(*ssa.Const); isC && c.Value != nil && c.Value.String() == "false" {
							continue
						}
						good = false
					}
				}
				r.Ob(ri, w.FnName(g)+"|default-flag-origin", s.Pos(), good, "the default backtracking setting must come from the default rule's backtracking_enabled")
			})
		}
		_ = n
	}
}

// viaSelectFalse: constant c reaches v only as the else-operand of a select combinator whose
// condition is "own setting present".
func viaSelectFalse(w *World, fn *ssa.Function, v, c ssa.Value, isOwn func(ssa.Value) bool) bool {
	found := false
	seen := map[ssa.Value]bool{}
	var walk func(x ssa.Value)
	walk = func(x ssa.Value) {
		if seen[x] {
			return
		}
		seen[x] = true
		switch y := x.(type) {
		case *ssa.Phi:
			for _, e := range y.Edges {
				walk(e)
			}
		case *ssa.Call:
			if ops := selectOperands(y); ops != nil {
				cond := selectCond(y)
				for _, f := range condFacts(cond, false) {
					if f.Kind == FNil && isOwn(f.V) {
						for _, o := range ops[len(ops)/2:] {
							if o == c {
								found = true
							}
						}
					}
				}
				for _, o := range ops {
					walk(o)
				}
			}
		}
	}
	walk(v)
	return found
}

// accumulators returns, for result index k of fn, the set of SSA values that hold the slice being
// built (walking back from the returned value through Phi and append).
func accumulators(w *World, fn *ssa.Function, k int) map[ssa.Value]bool {
	set := map[ssa.Value]bool{}
	var walk func(v ssa.Value)
	walk = func(v ssa.Value) {
		if v == nil || set[v] {
			return
		}
		set[v] = true
		switch x := v.(type) {
		case *ssa.Phi:
			for _, e := range x.Edges {
				walk(e)
			}
		case *ssa.Call:
			if b, ok := x.Call.Value.(*ssa.Builtin); ok && b.Name() == "append" {
				walk(x.Call.Args[0])
			}
		case *ssa.UnOp:
			if a, ok := x.X.(*ssa.Alloc); ok {
				set[a] = true
				w.eachStore(a, func(st *ssa.Store) { walk(st.Val) })
			}
		}
	}
	for _, ret := range returnsOf(fn) {
		if k < len(ret.Results) {
			walk(ret.Results[k])
		}
	}
	return set
}

// inAcc: v is one of the accumulator values or a load of the accumulator variable.
func inAcc(acc map[ssa.Value]bool, v ssa.Value) bool {
	if acc[v] {
		return true
	}
	root, p := accessPath(v)
	return len(p) == 0 && acc[root]
}

// appendsTo lists the append calls whose first operand is in acc.
func appendsTo(fn *ssa.Function, acc map[ssa.Value]bool) []*ssa.Call {
	var out []*ssa.Call
	eachInstr(fn, func(in ssa.Instruction) {
		if c, ok := in.(*ssa.Call); ok {
			if b, ok := c.Call.Value.(*ssa.Builtin); ok && b.Name() == "append" && inAcc(acc, c.Call.Args[0]) {
				out = append(out, c)
			}
		}
	})
	return out
}

func factoryKind(v ssa.Value) string {
	if c, _ := resultOfCall(v); c != nil {
		if c.Common().IsInvoke() {
			return strings.TrimPrefix(c.Common().Method.Name(), "Create")
		}
		if callee := c.Common().StaticCallee(); callee != nil {
			// generic handler builder: the factory is an argument
			for _, a := range c.Common().Args {
				if f := closureFn(a); f != nil && strings.HasPrefix(f.Name(), "Create") {
					return strings.TrimSuffix(strings.TrimPrefix(f.Name(), "Create"), "$bound")
				}
			}
		}
	}
	return ""
}

func c14Ordering(w *World, r *Report, pa *pipelineAnchors, fa *factoryAnchors) {
	ri := r.Rule("C14.3", 8, "the execute list must be ordered authenticators, then authorizers/contextualizers, then finalizers; unknown step kinds are rejected")
	fn := fa.execPipeline
	r.Analysed(w.FnName(fn))
	key := w.FnName(fn)
	acc := []map[ssa.Value]bool{accumulators(w, fn, 0), accumulators(w, fn, 1), accumulators(w, fn, 2)}
	wantKind := []map[string]bool{{"Authenticator": true}, {"Authorizer": true, "Contextualizer": true}, {"Finalizer": true}}
	seenKinds := map[string]bool{}
	var progress []*ssa.BasicBlock
	for k := 0; k < 3; k++ {
		aps := appendsTo(fn, acc[k])
		if len(aps) == 0 {
			r.Ob(ri, fmt.Sprintf("%s|result%d-never-filled", key, k), fn.Pos(), false, "stage list is never appended to")
		}
		for _, ap := range aps {
			progress = append(progress, ap.Block())
			// appended element kind
			var kind string
			if len(ap.Call.Args) > 1 {
				for _, el := range sliceLiteralElems(ap.Call.Args[1]) {
					for _, o := range w.Origins(el, nil) {
						if kd := factoryKind(o); kd != "" {
							kind = kd
						}
					}
				}
			}
			seenKinds[kind] = true
			r.Ob(ri, fmt.Sprintf("%s|append-kind|%s->%d", key, kind, k), ap.Pos(), wantKind[k][kind], fmt.Sprintf("a mechanism created by the %q factory is appended to stage list %d", kind, k))
			if k == 0 {
				for j := 1; j <= 2; j++ {
					ok := onlyVia(fn, ap.Block(), func(f Fact) bool {
						l, kd := lenFact(f)
						return l != nil && kd == "empty" && inAcc(acc[j], l)
					})
					r.Ob(ri, fmt.Sprintf("%s|authenticator-before-stage%d", key, j), ap.Pos(), ok, "an authenticator may be added only while no authorizer/contextualizer/finalizer has been added")
				}
			}
		}
	}
	for _, kd := range []string{"Authenticator", "Authorizer", "Contextualizer", "Finalizer"} {
		if !seenKinds[kd] {
			r.Ob(ri, key+"|kind-missing|"+kd, fn.Pos(), false, "no step of kind "+kd+" is ever added to a stage list")
		}
	}
	// authorizers and contextualizers are created only after a check that fails when a finalizer exists
	for _, c := range findCalls(fn, func(c *ssa.CallCommon) bool {
		callee := c.StaticCallee()
		if callee == nil {
			return false
		}
		for _, h := range fa.createHandlers {
			if h == callee {
				return true
			}
		}
		return false
	}) {
		kind := factoryKind(c)
		if kind != "Authorizer" && kind != "Contextualizer" {
			continue
		}
		var check *ssa.Function
		for _, a := range c.Common().Args {
			if f := closureFn(a); f != nil && f.Signature.Params().Len() == 0 && lastResultIsError(f.Signature) && f.Signature.Results().Len() == 1 {
				check = f
			}
		}
		ok, msg := check != nil, "no order check is handed to the handler builder"
		if check != nil {
			r.Analysed(w.FnName(check))
			isFin := func(v ssa.Value) bool {
				root, p := accessPath(v)
				return len(p) == 0 && acc[2][root]
			}
			sawErr := false
			for _, ret := range returnsOf(check) {
				for _, s := range w.Sources(ret.Results[0], ret.Block()) {
					if s.Kind == "nil" {
						if !srcOnlyVia(check, s, func(f Fact) bool { l, kd := lenFact(f); return l != nil && kd == "empty" && isFin(l) }) {
							ok, msg = false, "the order check passes although a finalizer has already been added"
						}
					} else {
						sawErr = true
					}
				}
			}
			if !sawErr {
				ok, msg = false, "the order check never fails"
			}
		}
		r.Ob(ri, key+"|order-check|"+kind, c.Pos(), ok, msg)
	}
	// the generic handler builder runs the check before the factory and returns its error
	for _, h := range fa.createHandlers {
		r.Analysed(w.FnName(h))
		var checkP, factP *ssa.Parameter
		for _, p := range h.Params {
			if sig, ok := p.Type().Underlying().(*types.Signature); ok {
				if sig.Params().Len() == 0 && sig.Results().Len() == 1 && lastResultIsError(sig) {
					checkP = p
				} else if sig.Results().Len() == 2 && lastResultIsError(sig) {
					factP = p
				}
			}
		}
		ok := false
		if checkP != nil && factP != nil {
			cc := findCalls(h, func(c *ssa.CallCommon) bool { return c.Value == checkP })
			fc := findCalls(h, func(c *ssa.CallCommon) bool { return c.Value == factP })
			if len(cc) == 1 && len(fc) == 1 {
				ok = onlyVia(h, fc[0].Block(), nilOf(isResult(cc[0], 0)))
			}
		}
		r.Ob(ri, w.FnName(h)+"|check-before-factory", h.Pos(), ok, "the mechanism factory may be called only through the == nil edge of the order check")
	}
	// a step that adds nothing must be rejected: no loop iteration completes without an append
	prog := map[*ssa.BasicBlock]bool{}
	for _, b := range progress {
		prog[b] = true
	}
	okLoop, nBack := true, 0
	for _, b := range fn.Blocks {
		for _, s := range b.Succs {
			if !s.Dominates(b) {
				continue
			}
			nBack++
			// can b be reached from s without passing a progress block?
			seen := map[*ssa.BasicBlock]bool{s: true}
			work := []*ssa.BasicBlock{s}
			for len(work) > 0 {
				x := work[len(work)-1]
				work = work[:len(work)-1]
				if prog[x] {
					continue
				}
				if x == b {
					okLoop = false
				}
				for _, y := range x.Succs {
					if !seen[y] && s.Dominates(y) {
						seen[y] = true
						work = append(work, y)
					}
				}
			}
		}
	}
	r.Ob(ri, key+"|unknown-step-rejected", fn.Pos(), okLoop && nBack > 0, "every iteration over the execute list must either add a mechanism to a stage or reject the rule")
}

func c14Mandatory(w *World, r *Report, pa *pipelineAnchors, fa *factoryAnchors) {
	ri := r.Rule("C14.4", 8, "proxy mode requires forward_to; factory and builder errors reject the rule")
	fn := fa.createRule
	lits := ruleLiteralAllocs(fn, pa.ruleImpl)
	if len(lits) == 1 {
		proxyMode := w.Obj("internal/config", "ProxyMode")
		ok := onlyVia(fn, lits[0].Block(), func(f Fact) bool {
			if f.Kind == FNonNil && pathEndsWith(f.V, "Backend") {
				return true
			}
			if f.Kind == FCmp && f.Op.String() == "!=" {
				for _, pair := range [][2]ssa.Value{{f.X, f.Y}, {f.Y, f.X}} {
					if c, isC := pair[1].(*ssa.Const); isC && proxyMode != nil {
						if pc, ok := proxyMode.(*types.Const); ok && c.Value != nil && c.Value.ExactString() == pc.Val().ExactString() && isFieldOfType(pair[0], pc.Type()) {
							return true
						}
					}
				}
			}
			return false
		})
		r.Ob(ri, w.FnName(fn)+"|proxy-requires-backend", lits[0].Pos(), ok, "in proxy mode a rule without forward_to must be rejected before the rule object is created")
	} else {
		r.Undecided(ri, "rule literal not found")
	}
	// every fallible call: on its error edge the function returns a non-nil error
	fns := []*ssa.Function{fa.createRule, fa.execPipeline, fa.errPipeline, fa.initDefault}
	fns = append(fns, fa.createHandlers...)
	for _, g := range fns {
		r.Analysed(w.FnName(g))
		nth := map[string]int{}
		for _, c := range findCalls(g, func(c *ssa.CallCommon) bool {
			if !lastResultIsError(c.Signature()) {
				return false
			}
			if _, isB := c.Value.(*ssa.Builtin); isB {
				return false
			}
			return true
		}) {
			name := callName(c.Common())
			if name == "" {
				name = "dynamic:" + c.Common().Value.Name()
			}
			nth[name]++
			key := fmt.Sprintf("%s|error-propagated|%s#%d", w.FnName(g), strings.TrimPrefix(name, modPath+"/"), nth[name])
			ei := errIdx(c)
			cut := factCut(func(f Fact) bool {
				if f.Kind != FTrue {
					return false
				}
				ic, _ := resultOfCall(f.V)
				return ic != nil && callName(ic.Common()) == "errors.Is" && sameErrValue(w, ic.Common().Args[0], c, ei)
			})
			ok, msg := true, ""
			n := 0
			for _, b := range g.Blocks {
				for i := range b.Succs {
					isNN := false
					for _, f := range edgeFacts(b, i) {
						if f.Kind == FNonNil && sameErrValue(w, f.V, c, ei) {
							isNN = true
						}
					}
					if !isNN {
						continue
					}
					n++
					seen := reachFromEdge(b, i, cut)
					for _, ret := range returnsOf(g) {
						if !seen[ret.Block()] {
							continue
						}
						last := ret.Results[len(ret.Results)-1]
						for _, s := range w.Sources(last, ret.Block()) {
							if s.Kind == "nil" && (s.At == nil || seen[s.At]) {
								ok, msg = false, "after this call failed the function can still return a nil error at "+w.Pos(ret.Pos())
							}
						}
					}
				}
			}
			if n == 0 {
				// error returned directly (return f()) is fine; an untested error is not
				direct := false
				for _, ret := range returnsOf(g) {
					if isResult(c, ei)(ret.Results[len(ret.Results)-1]) {
						direct = true
					}
				}
				if !direct {
					ok, msg = false, "the error of this call is neither tested nor returned"
				}
			}
			r.Ob(ri, key, c.Pos(), ok, msg)
		}
	}
}

// sameErrValue: v is the error result ei of call c, or a Phi one of whose operands is.
func sameErrValue(w *World, v ssa.Value, c *ssa.Call, ei int) bool {
	if isResult(c, ei)(v) {
		return true
	}
	if p, ok := v.(*ssa.Phi); ok {
		for _, e := range p.Edges {
			if isResult(c, ei)(e) {
				return true
			}
		}
	}
	return false
}

func c14DefaultRule(w *World, r *Report, pa *pipelineAnchors, fa *factoryAnchors) {
	ri := r.Rule("C14.5", 6, "the default rule is built by the same pipeline builders, is marked as default and rejects encoded slashes")
	sf, err := stageFields(w, pa)
	if err != nil {
		r.Undecided(ri, err.Error())
		return
	}
	fn := fa.initDefault
	r.Analysed(w.FnName(fn))
	lits := ruleLiteralAllocs(fn, pa.ruleImpl)
	execCalls := findCalls(fn, func(c *ssa.CallCommon) bool { return c.StaticCallee() == fa.execPipeline })
	errCalls := findCalls(fn, func(c *ssa.CallCommon) bool { return c.StaticCallee() == fa.errPipeline })
	if len(lits) != 1 || len(execCalls) != 1 || len(errCalls) != 1 {
		r.Undecided(ri, "default rule literal / builder calls not found")
		return
	}
	own := []func(ssa.Value) bool{isResult(execCalls[0], 0), isResult(execCalls[0], 1), isResult(execCalls[0], 2), isResult(errCalls[0], 0)}
	for i, name := range sf {
		v, _ := storedField(lits[0], name)
		ok := v != nil
		if v != nil {
			for _, o := range w.Origins(v, nil) {
				if !own[i](o) {
					ok = false
				}
			}
		}
		r.Ob(ri, w.FnName(fn)+"|stage|"+name, lits[0].Pos(), ok, "the default rule's stage must be the matching result of the pipeline builders")
	}
	// isDefault: the bool field tested by Execute for logging; identify as a bool field set to true here
	st := pa.ruleImpl.Underlying().(*types.Struct)
	sawTrue := false
	for i := 0; i < st.NumFields(); i++ {
		if !isBool(st.Field(i).Type()) {
			continue
		}
		if v, _ := storedField(lits[0], st.Field(i).Name()); v != nil {
			if c, ok := v.(*ssa.Const); ok && c.Value != nil && c.Value.String() == "true" && strings.Contains(strings.ToLower(st.Field(i).Name()), "default") {
				sawTrue = true
			}
		}
	}
	r.Ob(ri, w.FnName(fn)+"|marked-default", lits[0].Pos(), sawTrue, "the default rule must be marked as default")
	c08DefaultSlashes(w, r, ri, pa, fn, lits[0])
	// the literal is stored into the factory's default-rule field
	stored := false
	if refs := lits[0].Referrers(); refs != nil {
		for _, rf := range *refs {
			if s, ok := rf.(*ssa.Store); ok && s.Val == lits[0] {
				if fad, ok := s.Addr.(*ssa.FieldAddr); ok && fieldOf(fad.X.Type(), fad.Field) == fa.defaultRuleField {
					stored = true
				}
			}
		}
	}
	r.Ob(ri, w.FnName(fn)+"|published", lits[0].Pos(), stored, "the default rule literal must be stored into the factory's default-rule field")
}

// c08DefaultSlashes: the slash-handling field of the default rule literal is the constant "off".
func c08DefaultSlashes(w *World, r *Report, ri *RuleInfo, pa *pipelineAnchors, fn *ssa.Function, lit *ssa.Alloc) {
	off, _ := w.Obj("internal/rules/config", "EncodedSlashesOff").(*types.Const)
	esh := w.Named("internal/rules/config", "EncodedSlashesHandling")
	if off == nil || esh == nil {
		r.Undecided(ri, "EncodedSlashesOff not found")
		return
	}
	names := fieldsOfType(pa.ruleImpl, esh)
	if len(names) != 1 {
		r.Undecided(ri, "slash-handling field of the rule implementation not found")
		return
	}
	v, _ := storedField(lit, names[0])
	ok := false
	if c, isC := v.(*ssa.Const); isC && c.Value != nil && c.Value.ExactString() == off.Val().ExactString() {
		ok = true
	}
	r.Ob(ri, w.FnName(fn)+"|default-rule-slashes-off", lit.Pos(), ok, "the default rule must use the encoded-slash setting 'off'")
}
