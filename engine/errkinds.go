package main

import (
	"go/token"
	"go/types"
	"strings"

	"golang.org/x/tools/go/ssa"
)

// Error-kind analysis (DESIGN C04.2): which package-level sentinel errors of the module may occur
// in the chain of an error value. Constructors of internal/x/errorchain and fmt.Errorf/errors.Join
// are modelled by table; module callees are summarised (kinds + which parameters pass through);
// interface calls are joined over the non-mock module implementations; calls into other modules
// contribute nothing.

type ekSummary struct {
	kinds  map[*types.Var]bool
	params map[int]bool
}

func newEK() *ekSummary { return &ekSummary{kinds: map[*types.Var]bool{}, params: map[int]bool{}} }

func (s *ekSummary) add(o *ekSummary) bool {
	ch := false
	for k := range o.kinds {
		if !s.kinds[k] {
			s.kinds[k] = true
			ch = true
		}
	}
	for p := range o.params {
		if !s.params[p] {
			s.params[p] = true
			ch = true
		}
	}
	return ch
}

type ekState struct {
	w    *World
	memo map[*ssa.Function]*ekSummary
	busy map[*ssa.Function]bool
}

func (w *World) EK() *ekState {
	return &ekState{w: w, memo: map[*ssa.Function]*ekSummary{}, busy: map[*ssa.Function]bool{}}
}

const errorchainPkg = modPath + "/internal/x/errorchain"

// FuncKinds summarises the error results of fn.
func (e *ekState) FuncKinds(fn *ssa.Function) *ekSummary {
	if s, ok := e.memo[fn]; ok {
		return s
	}
	if e.busy[fn] || fn.Blocks == nil {
		return newEK()
	}
	e.busy[fn] = true
	s := newEK()
	for _, ret := range returnsOf(fn) {
		for _, rv := range ret.Results {
			if isErrorLike(rv.Type()) {
				s.add(e.ValueKinds(rv, nil))
			}
		}
	}
	delete(e.busy, fn)
	e.memo[fn] = s
	return s
}

func isErrorLike(t types.Type) bool {
	if isErrorType(t) {
		return true
	}
	if n := derefNamed(t); n != nil && n.Obj().Pkg() != nil && n.Obj().Pkg().Path() == errorchainPkg && n.Obj().Name() == "ErrorChain" {
		return true
	}
	return false
}

// ValueKinds computes the kinds of an error value; visit (optional) is called for every SSA value
// of the current function that contributes to it.
func (e *ekState) ValueKinds(v ssa.Value, visit func(ssa.Value)) *ekSummary {
	out := newEK()
	seen := map[ssa.Value]bool{}
	var walk func(v ssa.Value)
	var elems func(v ssa.Value)
	applyCall := func(c *ssa.Call) {
		cc := c.Common()
		name := callName(cc)
		switch {
		case strings.HasPrefix(name, errorchainPkg+".New"):
			if len(cc.Args) > 0 {
				walk(cc.Args[0])
			}
			return
		case name == errorchainPkg+".ErrorChain.CausedBy":
			walk(cc.Args[0])
			walk(cc.Args[1])
			return
		case name == errorchainPkg+".ErrorChain.WithErrorContext":
			walk(cc.Args[0])
			return
		case name == "fmt.Errorf" || name == "errors.Join":
			for _, a := range cc.Args {
				if isErrorLike(a.Type()) {
					walk(a)
				} else if _, ok := a.Type().Underlying().(*types.Slice); ok {
					for _, el := range sliceLiteralElems(a) {
						if el != nil && isErrorLike(stripConv(el).Type()) {
							walk(el)
						}
					}
				}
			}
			return
		}
		var callees []*ssa.Function
		if cc.IsInvoke() {
			callees = e.w.resolveInvoke(cc)
		} else if f := cc.StaticCallee(); f != nil && f.Blocks != nil {
			callees = []*ssa.Function{f}
		} else if f := closureFn(cc.Value); f != nil {
			callees = []*ssa.Function{f}
		}
		for _, f := range callees {
			s := e.FuncKinds(f)
			for k := range s.kinds {
				out.kinds[k] = true
			}
			for p := range s.params {
				// map parameter index to argument
				args := cc.Args
				if cc.IsInvoke() {
					if p == 0 {
						continue
					}
					p--
				}
				if p < len(args) {
					walk(args[p])
				}
			}
		}
	}
	walk = func(v ssa.Value) {
		if v == nil || seen[v] {
			return
		}
		seen[v] = true
		if visit != nil {
			visit(v)
		}
		switch x := v.(type) {
		case *ssa.Phi:
			for _, ed := range x.Edges {
				walk(ed)
			}
		case *ssa.ChangeInterface:
			walk(x.X)
		case *ssa.MakeInterface:
			walk(x.X)
		case *ssa.ChangeType:
			walk(x.X)
		case *ssa.Convert:
			walk(x.X)
		case *ssa.Parameter:
			fn := x.Parent()
			for i, p := range fn.Params {
				if p == x {
					out.params[i] = true
				}
			}
		case *ssa.Call:
			if sel := selectOperands(x); sel != nil {
				for _, s := range sel {
					walk(s)
				}
				return
			}
			applyCall(x)
		case *ssa.Extract:
			if c, ok := x.Tuple.(*ssa.Call); ok {
				applyCall(c)
			}
		case *ssa.UnOp:
			if x.Op != token.MUL {
				return
			}
			switch a := x.X.(type) {
			case *ssa.Global:
				if gv, ok := a.Object().(*types.Var); ok && isErrorType(gv.Type()) && strings.HasPrefix(gv.Pkg().Path(), modPath) {
					out.kinds[gv] = true
				}
			case *ssa.Alloc:
				e.w.eachStore(a, func(st *ssa.Store) { walk(st.Val) })
			case *ssa.FreeVar:
				if b, ok := freeVarBinding(a).(*ssa.Alloc); ok {
					e.w.eachStore(b, func(st *ssa.Store) { walk(st.Val) })
				}
			case *ssa.IndexAddr:
				elems(a.X)
			}
		}
	}
	// elems walks the possible elements of a slice value
	seenS := map[ssa.Value]bool{}
	elems = func(v ssa.Value) {
		if v == nil || seenS[v] {
			return
		}
		seenS[v] = true
		switch x := v.(type) {
		case *ssa.Phi:
			for _, ed := range x.Edges {
				elems(ed)
			}
		case *ssa.Call:
			if b, ok := x.Call.Value.(*ssa.Builtin); ok && b.Name() == "append" {
				elems(x.Call.Args[0])
				if len(x.Call.Args) > 1 {
					elems(x.Call.Args[1])
				}
			}
		case *ssa.Slice:
			if _, ok := x.X.(*ssa.Alloc); ok {
				for _, el := range sliceLiteralElems(x) {
					walk(el)
				}
				return
			}
			elems(x.X)
		case *ssa.UnOp:
			if a, ok := x.X.(*ssa.Alloc); ok && x.Op == token.MUL {
				e.w.eachStore(a, func(st *ssa.Store) { elems(st.Val) })
			}
		}
	}
	walk(v)
	return out
}
