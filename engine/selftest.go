package main

import (
	"encoding/json"
	"fmt"
	"os"
	"os/exec"
	"path/filepath"
	"sort"
	"strings"
	"sync"
)

// Mutant is one overlay of the checker self-test corpus (DESIGN Appendix A).
type Mutant struct {
	Name   string `json:"name"`
	Kind   string `json:"kind"` // M = defect that must be reported, R = behaviour-preserving rewrite (silent)
	File   string `json:"file"` // repo-relative
	Old    string `json:"old"`
	New    string `json:"new"`
	Expect string `json:"expect"` // rule id (prefix match) or "silent"
	Desc   string `json:"desc"`
	// additional edits in the same or other files
	More []struct {
		File string `json:"file"`
		Old  string `json:"old"`
		New  string `json:"new"`
	} `json:"more,omitempty"`
}

type mutantResult struct {
	Name     string   `json:"name"`
	Kind     string   `json:"kind"`
	Expect   string   `json:"expect"`
	Outcome  string   `json:"outcome"` // detected | missed | silent | noisy | skipped | error
	Reported []string `json:"reported,omitempty"`
	Desc     string   `json:"desc,omitempty"`
}

func mutantsDir() string {
	exe, err := os.Executable()
	if err == nil {
		d := filepath.Join(filepath.Dir(filepath.Dir(exe)), "mutants")
		if st, err := os.Stat(d); err == nil && st.IsDir() {
			return d
		}
	}
	return "/verif/mutants"
}

func loadMutants(prop string) ([]Mutant, error) {
	files, _ := filepath.Glob(filepath.Join(mutantsDir(), prop, "*.json"))
	sort.Strings(files)
	var out []Mutant
	for _, f := range files {
		b, err := os.ReadFile(f)
		if err != nil {
			return nil, err
		}
		var ms []Mutant
		if err := json.Unmarshal(b, &ms); err != nil {
			var m Mutant
			if err2 := json.Unmarshal(b, &m); err2 != nil {
				return nil, fmt.Errorf("%s: %v", f, err)
			}
			ms = []Mutant{m}
		}
		for i := range ms {
			if ms[i].Name == "" {
				ms[i].Name = fmt.Sprintf("%s#%d", strings.TrimSuffix(filepath.Base(f), ".json"), i)
			}
		}
		out = append(out, ms...)
	}
	txt, _ := filepath.Glob(filepath.Join(mutantsDir(), prop, "*.mut"))
	sort.Strings(txt)
	for _, f := range txt {
		b, err := os.ReadFile(f)
		if err != nil {
			return nil, err
		}
		ms, err := parseMut(string(b))
		if err != nil {
			return nil, fmt.Errorf("%s: %v", f, err)
		}
		out = append(out, ms...)
	}
	return out, nil
}

// parseMut reads the text corpus format:
//
//	### name | M|R | expected-rule|silent | file
//	description (one line)
//	--- old
//	<fragment>
//	--- new
//	<fragment>
//	--- more <file>      (optional, followed by another old/new pair)
//
// An old fragment whose first line is "@@all" replaces every occurrence of the rest (renames).
func parseMut(s string) ([]Mutant, error) {
	var out []Mutant
	var cur *Mutant
	var buf []string
	mode := ""
	moreFile := ""
	var moreOld string
	flush := func() {
		txt := strings.Join(buf, "\n")
		buf = nil
		if cur == nil {
			return
		}
		switch mode {
		case "old":
			if moreFile != "" {
				moreOld = txt
			} else {
				cur.Old = txt
			}
		case "new":
			if moreFile != "" {
				cur.More = append(cur.More, struct {
					File string `json:"file"`
					Old  string `json:"old"`
					New  string `json:"new"`
				}{moreFile, moreOld, txt})
			} else {
				cur.New = txt
			}
		case "desc":
			cur.Desc = strings.TrimSpace(txt)
		}
	}
	for _, l := range strings.Split(s, "\n") {
		switch {
		case strings.HasPrefix(l, "### "):
			flush()
			if cur != nil {
				out = append(out, *cur)
			}
			p := strings.Split(strings.TrimPrefix(l, "### "), "|")
			if len(p) != 4 {
				return nil, fmt.Errorf("bad header %q", l)
			}
			cur = &Mutant{Name: strings.TrimSpace(p[0]), Kind: strings.TrimSpace(p[1]), Expect: strings.TrimSpace(p[2]), File: strings.TrimSpace(p[3])}
			mode, moreFile = "desc", ""
		case l == "--- old":
			flush()
			mode = "old"
		case l == "--- new":
			flush()
			mode = "new"
		case strings.HasPrefix(l, "--- more "):
			flush()
			moreFile = strings.TrimSpace(strings.TrimPrefix(l, "--- more "))
			mode = ""
		default:
			buf = append(buf, l)
		}
	}
	flush()
	if cur != nil {
		out = append(out, *cur)
	}
	for i := range out {
		// fragments end without the trailing newline introduced by the section layout
		out[i].Old = strings.TrimSuffix(out[i].Old, "\n")
		out[i].New = strings.TrimSuffix(out[i].New, "\n")
	}
	return out, nil
}

// runSelfTest applies every overlay of the property's corpus to the current tree (in memory, one
// hvet subprocess per overlay) and records whether the expected rule reported it. It measures
// the checker, not the tree: it never prints VIOLATION and never changes the exit status.
func runSelfTest(o *Options, w *World, r *Report, extra map[string]any) {
	ms, err := loadMutants(o.Prop)
	if err != nil {
		extra["selftest_error"] = err.Error()
		return
	}
	if len(ms) == 0 {
		return
	}
	res := runMutants(o, ms, 4)
	det, appM, sil, appR, skipped := 0, 0, 0, 0, 0
	for _, x := range res {
		switch x.Outcome {
		case "skipped":
			skipped++
		case "detected":
			det++
			appM++
		case "missed", "error":
			if x.Kind == "R" {
				appR++
			} else {
				appM++
			}
		case "silent":
			sil++
			appR++
		case "noisy":
			appR++
		}
	}
	extra["selftest"] = map[string]any{
		"mutants_detected": det, "mutants_applied": appM,
		"refactorings_silent": sil, "refactorings_applied": appR,
		"skipped_fragment_gone": skipped, "results": res,
		"note": "overlay corpus applied in memory to the current tree; measures the checker only",
	}
	fmt.Printf("selftest %s: mutants detected %d/%d, refactorings silent %d/%d, skipped %d\n", o.Prop, det, appM, sil, appR, skipped)
	for _, x := range res {
		if x.Outcome == "missed" || x.Outcome == "noisy" || x.Outcome == "error" {
			fmt.Printf("  selftest %s %s: %s (expected %s, reported %v)\n", x.Outcome, x.Name, x.Desc, x.Expect, x.Reported)
		}
	}
}

func runMutants(o *Options, ms []Mutant, par int) []mutantResult {
	res := make([]mutantResult, len(ms))
	tmp, err := os.MkdirTemp("", "hvet-selftest-")
	if err != nil {
		return nil
	}
	defer os.RemoveAll(tmp)
	exe, _ := os.Executable()
	sem := make(chan struct{}, par)
	var wg sync.WaitGroup
	for i := range ms {
		wg.Add(1)
		go func(i int) {
			defer wg.Done()
			sem <- struct{}{}
			defer func() { <-sem }()
			m := ms[i]
			out := mutantResult{Name: m.Name, Kind: m.Kind, Expect: m.Expect, Desc: m.Desc}
			defer func() { res[i] = out }()
			if strings.HasPrefix(m.File, "@rename ") || strings.HasPrefix(m.File, "@transform ") {
				// type-resolved rename / whole-module rewrite: delegated to the sub-process
				args := []string{"-prop", o.Prop, "-tier", "quick", "-repo", o.Repo, "-known", o.Known}
				if strings.HasPrefix(m.File, "@transform ") {
					args = append(args, "-transform", strings.TrimSpace(strings.TrimPrefix(m.File, "@transform ")))
				} else {
					for _, spec := range strings.Fields(strings.TrimPrefix(m.File, "@rename ")) {
						args = append(args, "-rename", spec)
					}
				}
				ev := filepath.Join(tmp, fmt.Sprintf("ev%d", i), o.Prop+".json")
				args = append(args, "-evidence", ev)
				cmd := exec.Command(exe, args...)
				cmd.Env = os.Environ()
				b, _ := cmd.CombinedOutput()
				var evd struct {
					Coverage struct {
						Rules     []ruleStat `json:"rules"`
						Undecided []string   `json:"undecided"`
					} `json:"coverage"`
				}
				eb, err := os.ReadFile(ev)
				if err != nil || json.Unmarshal(eb, &evd) != nil {
					out.Outcome = "error"
					out.Reported = []string{firstLines(string(b), 5)}
					return
				}
				for _, rs := range evd.Coverage.Rules {
					if rs.Violated > 0 {
						out.Reported = append(out.Reported, rs.ID)
					}
				}
				for _, u := range evd.Coverage.Undecided {
					out.Reported = append(out.Reported, "UNDECIDED "+u)
				}
				if len(out.Reported) == 0 {
					out.Outcome = "silent"
				} else {
					out.Outcome = "noisy"
				}
				return
			}
			type edit struct{ file, old, new string }
			edits := []edit{{m.File, m.Old, m.New}}
			for _, e := range m.More {
				edits = append(edits, edit{e.File, e.Old, e.New})
			}
			contents := map[string]string{}
			for _, e := range edits {
				abs := filepath.Join(o.Repo, e.file)
				src, ok := contents[abs]
				if !ok {
					b, err := os.ReadFile(abs)
					if err != nil {
						out.Outcome = "skipped"
						return
					}
					src = string(b)
				}
				if strings.HasPrefix(e.old, "@@all\n") {
					// rename-style edit: every occurrence of the literal is replaced
					lit := strings.TrimPrefix(e.old, "@@all\n")
					if lit == "" || strings.Count(src, lit) == 0 {
						out.Outcome = "skipped"
						return
					}
					contents[abs] = strings.ReplaceAll(src, lit, e.new)
					continue
				}
				if strings.Count(src, e.old) != 1 {
					out.Outcome = "skipped"
					return
				}
				contents[abs] = strings.Replace(src, e.old, e.new, 1)
			}
			args := []string{"-prop", o.Prop, "-tier", "quick", "-repo", o.Repo, "-known", o.Known}
			n := 0
			for abs, c := range contents {
				f := filepath.Join(tmp, fmt.Sprintf("m%d_%d.src", i, n))
				n++
				_ = os.WriteFile(f, []byte(c), 0o644)
				args = append(args, "-overlay", abs+"="+f)
			}
			ev := filepath.Join(tmp, fmt.Sprintf("ev%d", i), o.Prop+".json")
			args = append(args, "-evidence", ev)
			cmd := exec.Command(exe, args...)
			cmd.Env = os.Environ()
			b, _ := cmd.CombinedOutput()
			var evd struct {
				Coverage struct {
					Rules     []ruleStat `json:"rules"`
					Undecided []string   `json:"undecided"`
				} `json:"coverage"`
			}
			eb, err := os.ReadFile(ev)
			if err != nil || json.Unmarshal(eb, &evd) != nil {
				out.Outcome = "error"
				out.Reported = []string{firstLines(string(b), 5)}
				return
			}
			for _, rs := range evd.Coverage.Rules {
				if rs.Violated > 0 {
					out.Reported = append(out.Reported, rs.ID)
				}
			}
			for _, u := range evd.Coverage.Undecided {
				out.Reported = append(out.Reported, "UNDECIDED "+u)
			}
			if m.Kind == "R" || m.Expect == "silent" {
				if len(out.Reported) == 0 {
					out.Outcome = "silent"
				} else {
					out.Outcome = "noisy"
				}
				return
			}
			out.Outcome = "missed"
			for _, rep := range out.Reported {
				if strings.HasPrefix(rep, m.Expect) {
					out.Outcome = "detected"
				}
			}
			// a mutant that breaks the build is not a valid mutant
			for _, rep := range out.Reported {
				if strings.Contains(rep, "load failed") {
					out.Outcome = "error"
				}
			}
		}(i)
	}
	wg.Wait()
	return res
}

// selfTestOnly runs just the corpus (developer loop): hvet -mutants C01
func selfTestOnly(o *Options) int {
	ms, err := loadMutants(o.Prop)
	if err != nil {
		fmt.Println(err)
		return 2
	}
	res := runMutants(o, ms, 6)
	bad := 0
	for _, x := range res {
		fmt.Printf("%-8s %-1s %-40s expect=%-8s reported=%v\n", x.Outcome, x.Kind, x.Name, x.Expect, x.Reported)
		if x.Outcome != "detected" && x.Outcome != "silent" {
			bad++
		}
	}
	fmt.Printf("%d overlays, %d not as expected\n", len(res), bad)
	if bad > 0 {
		return 1
	}
	return 0
}
