package main

import (
	"go/constant"
	"go/token"
	"go/types"

	"golang.org/x/tools/go/ssa"
)

// ---------------------------------------------------------------------------------------------
// P1: edge facts and reachability with edge cuts
// ---------------------------------------------------------------------------------------------

type FactKind int

const (
	FNil FactKind = iota
	FNonNil
	FTrue
	FFalse
	FCmp
)

// Fact is a condition known to hold on one CFG edge.
type Fact struct {
	Kind FactKind
	V    ssa.Value   // Nil/NonNil: tested value; True/False: the boolean value
	Op   token.Token // Cmp: X Op Y holds
	X, Y ssa.Value
}

func isNilConst(v ssa.Value) bool {
	c, ok := v.(*ssa.Const)
	return ok && c.Value == nil && !isBasic(c.Type())
}

func isBasic(t types.Type) bool {
	_, ok := t.Underlying().(*types.Basic)
	return ok
}

func negate(op token.Token) token.Token {
	switch op {
	case token.EQL:
		return token.NEQ
	case token.NEQ:
		return token.EQL
	case token.LSS:
		return token.GEQ
	case token.GEQ:
		return token.LSS
	case token.GTR:
		return token.LEQ
	case token.LEQ:
		return token.GTR
	}
	return token.ILLEGAL
}

// condFacts lists the facts implied by cond having the given truth value.
func condFacts(cond ssa.Value, truth bool) []Fact { return condFactsD(cond, truth, 0) }

func condFactsD(cond ssa.Value, truth bool, depth int) []Fact {
	switch c := cond.(type) {
	case *ssa.Call:
		// predicate helper: a module function whose single return is a boolean expression
		// (DESIGN 1.2 helper summaries, depth 3). The facts are stated over the callee's values;
		// rules that identify values by field / callee identity see through the helper.
		if callee := c.Call.StaticCallee(); callee != nil && callee.Blocks != nil && depth < 3 {
			rets := returnsOf(callee)
			if len(rets) == 1 && len(rets[0].Results) == 1 && isBoolT(rets[0].Results[0].Type()) {
				k := FTrue
				if !truth {
					k = FFalse
				}
				return append([]Fact{{Kind: k, V: cond}}, condFactsD(rets[0].Results[0], truth, depth+1)...)
			}
		}
	case *ssa.Phi:
		// materialised && / ||: phi [false, rhs] being true means the rhs block was entered
		// (lhs true) and rhs is true; phi [true, rhs] being false symmetrically.
		if isBoolT(c.Type()) && depth < 6 {
			var src ssa.Value
			var pred *ssa.BasicBlock
			n := 0
			for i, e := range c.Edges {
				if k, ok := e.(*ssa.Const); ok && k.Value != nil && k.Value.Kind() == constant.Bool && constant.BoolVal(k.Value) != truth {
					continue // this operand cannot produce the observed truth value
				}
				n++
				src, pred = e, c.Block().Preds[i]
			}
			k := FTrue
			if !truth {
				k = FFalse
			}
			out := []Fact{{Kind: k, V: cond}}
			if n == 1 {
				if _, isC := src.(*ssa.Const); !isC {
					out = append(out, condFactsD(src, truth, depth+1)...)
				}
				if len(pred.Preds) == 1 {
					q := pred.Preds[0]
					for si, sb := range q.Succs {
						if sb == pred && len(q.Instrs) > 0 {
							if iff, ok := q.Instrs[len(q.Instrs)-1].(*ssa.If); ok && q.Succs[0] != q.Succs[1] {
								out = append(out, condFactsD(iff.Cond, si == 0, depth+1)...)
							}
						}
					}
				}
			}
			return out
		}
	case *ssa.UnOp:
		if c.Op == token.NOT {
			return condFactsD(c.X, !truth, depth)
		}
	case *ssa.BinOp:
		switch c.Op {
		case token.EQL, token.NEQ, token.LSS, token.LEQ, token.GTR, token.GEQ:
			op := c.Op
			if !truth {
				op = negate(op)
			}
			var out []Fact
			if op == token.EQL || op == token.NEQ {
				var other ssa.Value
				if isNilConst(c.X) {
					other = c.Y
				} else if isNilConst(c.Y) {
					other = c.X
				}
				if other != nil {
					k := FNil
					if op == token.NEQ {
						k = FNonNil
					}
					return []Fact{{Kind: k, V: other}}
				}
				// comparison of a bool with a bool constant
				if bc, ok := c.Y.(*ssa.Const); ok && bc.Value != nil && bc.Value.Kind() == constant.Bool {
					t := constant.BoolVal(bc.Value)
					if op == token.NEQ {
						t = !t
					}
					out = append(out, condFactsD(c.X, t, depth)...)
				}
			}
			out = append(out, Fact{Kind: FCmp, Op: op, X: c.X, Y: c.Y})
			return out
		}
	}
	k := FTrue
	if !truth {
		k = FFalse
	}
	return []Fact{{Kind: k, V: cond}}
}

func isBoolT(t types.Type) bool {
	b, ok := t.Underlying().(*types.Basic)
	return ok && b.Kind() == types.Bool
}

// rawEdgeFacts: the facts read off the branch condition of the edge b -> b.Succs[i].
func rawEdgeFacts(b *ssa.BasicBlock, i int) []Fact {
	if len(b.Instrs) == 0 {
		return nil
	}
	iff, ok := b.Instrs[len(b.Instrs)-1].(*ssa.If)
	if !ok {
		return nil
	}
	if b.Succs[0] == b.Succs[1] {
		return nil
	}
	return condFacts(iff.Cond, i == 0)
}

// edgeFacts returns the facts that hold on the edge b -> b.Succs[i] (raw + derived).
func edgeFacts(b *ssa.BasicBlock, i int) []Fact {
	fs := rawEdgeFacts(b, i)
	// derived: P == nil for a Phi whose only operand that can be nil there is X implies X == nil
	for _, f := range fs {
		if f.Kind != FNil {
			continue
		}
		p, ok := f.V.(*ssa.Phi)
		if !ok {
			continue
		}
		var cand []ssa.Value
		for k, e := range p.Edges {
			if knownNonNilOnEdge(b.Parent(), e, p.Block().Preds[k], p.Block()) {
				continue
			}
			cand = append(cand, e)
		}
		if len(cand) == 1 {
			fs = append(fs, Fact{Kind: FNil, V: cand[0]})
		}
	}
	return fs
}

type edgePred func(b *ssa.BasicBlock, succ int) bool

// factCut builds an edge predicate: the edge is cut if any of its facts satisfies p.
// factCutProbe: a cut built by factCut hands out its fact predicate when called with a nil block,
// so that reachFromEdge can use the Phi-aware traversal (reachFromEdgeP) for it.
var factCutProbe func(Fact) bool

func factCut(p func(Fact) bool) edgePred {
	return func(b *ssa.BasicBlock, i int) bool {
		if b == nil {
			factCutProbe = p
			return false
		}
		for _, f := range edgeFacts(b, i) {
			if p(f) {
				return true
			}
		}
		return false
	}
}

// reach computes the blocks reachable from start without traversing cut edges.
func reach(start *ssa.BasicBlock, cut edgePred) map[*ssa.BasicBlock]bool {
	seen := map[*ssa.BasicBlock]bool{start: true}
	work := []*ssa.BasicBlock{start}
	for len(work) > 0 {
		b := work[len(work)-1]
		work = work[:len(work)-1]
		for i, s := range b.Succs {
			if cut != nil && cut(b, i) {
				continue
			}
			if !seen[s] {
				seen[s] = true
				work = append(work, s)
			}
		}
	}
	return seen
}

// reachEntry: blocks reachable from the function entry avoiding cut edges. Edges that test a
// Phi for nil are traversable only if an operand of the Phi that can be nil there enters from a
// block that is itself reachable (least fixpoint) - this makes "shared error exit" idioms
// (err = a(); if err == nil { err = b() }; if err != nil {...}) as precise as the nested form.
func reachEntry(fn *ssa.Function, cut edgePred) map[*ssa.BasicBlock]bool {
	if len(fn.Blocks) == 0 {
		return nil
	}
	type cond struct {
		b    *ssa.BasicBlock
		i    int
		srcs []*ssa.BasicBlock
	}
	var conds []cond
	blocked := map[[2]int]bool{}
	for _, b := range fn.Blocks {
		for i := range b.Succs {
			if cut != nil && cut(b, i) {
				continue
			}
			for _, f := range edgeFacts(b, i) {
				if f.Kind != FNil {
					continue
				}
				p, ok := f.V.(*ssa.Phi)
				if !ok {
					continue
				}
				var srcs []*ssa.BasicBlock
				all := true
				for k, e := range p.Edges {
					pred := p.Block().Preds[k]
					if _, isPhi := e.(*ssa.Phi); isPhi {
						all = false
						break
					}
					// operand known non-nil when it enters: its entering block is dominated by a != nil test
					if knownNonNilOnEdge(fn, e, pred, p.Block()) {
						continue
					}
					srcs = append(srcs, pred)
				}
				if all {
					conds = append(conds, cond{b, i, srcs})
					blocked[[2]int{b.Index, i}] = true
				}
			}
		}
	}
	if len(conds) == 0 {
		return reach(fn.Blocks[0], cut)
	}
	for {
		seen := reach(fn.Blocks[0], func(b *ssa.BasicBlock, i int) bool {
			return (cut != nil && cut(b, i)) || blocked[[2]int{b.Index, i}]
		})
		changed := false
		for _, c := range conds {
			if !blocked[[2]int{c.b.Index, c.i}] {
				continue
			}
			for _, s := range c.srcs {
				if seen[s] {
					delete(blocked, [2]int{c.b.Index, c.i})
					changed = true
					break
				}
			}
		}
		if !changed {
			return seen
		}
	}
}

// knownNonNilAt: value v is non-nil whenever control is in block at (every path from the entry
// to at passes an edge testing v != nil), or v can never be nil.
func knownNonNilAt(fn *ssa.Function, v ssa.Value, at *ssa.BasicBlock) bool {
	return knownNonNilOnEdge(fn, v, at, nil)
}

// knownNonNilOnEdge: as knownNonNilAt, additionally using the facts of the edge at -> to.
func knownNonNilOnEdge(fn *ssa.Function, v ssa.Value, at, to *ssa.BasicBlock) bool {
	if to != nil {
		all, any := true, false
		for i, s := range at.Succs {
			if s != to {
				continue
			}
			any = true
			has := false
			for _, f := range rawEdgeFacts(at, i) {
				if f.Kind == FNonNil && f.V == v {
					has = true
				}
			}
			if !has {
				all = false
			}
		}
		if any && all {
			return true
		}
	}
	switch v.(type) {
	case *ssa.MakeInterface, *ssa.Alloc, *ssa.MakeClosure, *ssa.Function:
		return true
	}
	if isNilConst(v) {
		return false
	}
	seen := reach(fn.Blocks[0], func(b *ssa.BasicBlock, i int) bool {
		for _, f := range rawEdgeFacts(b, i) {
			if f.Kind == FNonNil && f.V == v {
				return true
			}
		}
		return false
	})
	return !seen[at]
}

// reachFromEdge: blocks reachable starting with the edge b->succ[i].
func reachFromEdge(b *ssa.BasicBlock, i int, cut edgePred) map[*ssa.BasicBlock]bool {
	if cut != nil {
		factCutProbe = nil
		cut(nil, -1)
		if p := factCutProbe; p != nil {
			factCutProbe = nil
			return reachFromEdgeP(b, i, p)
		}
	}
	return reach(b.Succs[i], cut)
}

// onlyVia reports whether instruction target is reachable from fn's entry only through edges
// for which p holds for one of the facts (i.e. unreachable once they are cut).
func onlyVia(fn *ssa.Function, target *ssa.BasicBlock, p func(Fact) bool) bool {
	// a block of a helper (a literal moved into a constructor): judged in the helper, then at its calls
	if target != nil && target.Parent() != nil && target.Parent() != fn {
		fn = target.Parent()
	}
	if !reachEntry(fn, factCut(p))[target] {
		return true
	}
	// both traversals over-approximate the feasible paths; the second one understands conditions
	// that were first stored in a boolean local (materialised && / ||)
	if !reachEntryP(fn, p)[target] {
		return true
	}
	// an extracted helper: the guard may sit in front of its (only) call
	return onlyViaCallers(fn, p, 0)
}

// onlyViaCallers: fn is a helper with static callers of the same package only, and every call of
// it is reachable only through edges carrying p (facts about the caller's values; rules that
// compare values by access path see the helper's parameters as the arguments, bindParam).
func onlyViaCallers(fn *ssa.Function, p func(Fact) bool, depth int) bool {
	if gWorld == nil || depth > 1 || fn.Parent() != nil {
		return false
	}
	edges := gWorld.CG().In[fn]
	if len(edges) == 0 {
		return false
	}
	for _, e := range edges {
		site, ok := e.Site.(ssa.CallInstruction)
		if !ok || e.Kind != "static" || e.Caller == fn || fnPkgPath(e.Caller) != fnPkgPath(fn) {
			return false
		}
		if !reachEntry(e.Caller, factCut(p))[site.Block()] || !reachEntryP(e.Caller, p)[site.Block()] {
			continue
		}
		if !onlyViaCallers(e.Caller, p, depth+1) {
			return false
		}
	}
	return true
}

// returnsOf lists the Return instructions of fn.
func returnsOf(fn *ssa.Function) []*ssa.Return {
	var out []*ssa.Return
	for _, b := range fn.Blocks {
		if len(b.Instrs) == 0 || b == fn.Recover {
			// the recover block is reached only after a recovered panic; functions with a defer but
			// without recover() never take it
			continue
		}
		if r, ok := b.Instrs[len(b.Instrs)-1].(*ssa.Return); ok {
			out = append(out, r)
		}
	}
	return out
}

// ---------------------------------------------------------------------------------------------
// Calls
// ---------------------------------------------------------------------------------------------

// calleeObj returns the *types.Func called by a call instruction (static callee, generic origin,
// or interface method), or nil for dynamic calls through function values and builtins.
func calleeObj(c *ssa.CallCommon) *types.Func {
	if c.IsInvoke() {
		return c.Method
	}
	if fn := c.StaticCallee(); fn != nil {
		if o, ok := fn.Object().(*types.Func); ok && o != nil {
			return o
		}
		if org := fn.Origin(); org != nil {
			if o, ok := org.Object().(*types.Func); ok {
				return o
			}
		}
	}
	return nil
}

// callName returns "pkgpath.Func" or "pkgpath.Type.Method" for the callee ("" if unknown).
func callName(c *ssa.CallCommon) string {
	o := calleeObj(c)
	if o == nil {
		if b, ok := c.Value.(*ssa.Builtin); ok {
			return "builtin." + b.Name()
		}
		return ""
	}
	return funcObjName(o)
}

func funcObjName(o *types.Func) string {
	o = o.Origin()
	sig := o.Type().(*types.Signature)
	pkg := ""
	if o.Pkg() != nil {
		pkg = o.Pkg().Path()
	}
	if r := sig.Recv(); r != nil {
		t := r.Type()
		if p, ok := t.(*types.Pointer); ok {
			t = p.Elem()
		}
		if n, ok := t.(*types.Named); ok {
			return pkg + "." + n.Obj().Name() + "." + o.Name()
		}
		return pkg + ".?." + o.Name()
	}
	return pkg + "." + o.Name()
}

// resultOfCall: if v is (a component of) the result of a call, return the call and component index.
// gWorld is the loaded program (set by Load); used by primitives that need the call graph.
var gWorld *World

// bindParam: a parameter of a helper that is called from exactly one place (a static call in the
// module) denotes, for the purposes of the checks, the argument passed there. Used to look
// through small extracted helpers (predicates, "store"/"fail" methods). Anything else is
// returned unchanged.
func bindParam(v ssa.Value) ssa.Value {
	for i := 0; i < 3; i++ {
		p, ok := v.(*ssa.Parameter)
		if !ok || gWorld == nil || p.Parent() == nil {
			return v
		}
		fn := p.Parent()
		edges := gWorld.CG().In[fn]
		if len(edges) != 1 || edges[0].Kind != "static" || edges[0].Caller == fn || fnPkgPath(edges[0].Caller) != fnPkgPath(fn) {
			return v
		}
		ci, ok := edges[0].Site.(ssa.CallInstruction)
		if !ok {
			return v
		}
		idx := -1
		for k, q := range fn.Params {
			if q == p {
				idx = k
			}
		}
		if idx < 0 || idx >= len(ci.Common().Args) {
			return v
		}
		v = stripConv(ci.Common().Args[idx])
	}
	return v
}

func resultOfCall(v ssa.Value) (*ssa.Call, int) {
	if _, isParam := v.(*ssa.Parameter); isParam {
		v = bindParam(v)
	}
	switch x := v.(type) {
	case *ssa.Call:
		return x, 0
	case *ssa.Extract:
		if c, ok := x.Tuple.(*ssa.Call); ok {
			return c, x.Index
		}
	}
	return nil, -1
}

// callArgs returns the arguments without the receiver for method calls (static or invoke).
func callArgs(c *ssa.CallCommon) []ssa.Value {
	if c.IsInvoke() {
		return c.Args
	}
	if fn := c.StaticCallee(); fn != nil && fn.Signature.Recv() != nil && len(c.Args) > 0 {
		return c.Args[1:]
	}
	return c.Args
}

// callRecv returns the receiver value of a method call, or nil.
func callRecv(c *ssa.CallCommon) ssa.Value {
	if c.IsInvoke() {
		return c.Value
	}
	if fn := c.StaticCallee(); fn != nil && fn.Signature.Recv() != nil && len(c.Args) > 0 {
		return c.Args[0]
	}
	return nil
}

// callsIn lists call instructions (Call, Go, Defer) of fn in block order.
func callsIn(fn *ssa.Function) []ssa.CallInstruction {
	var out []ssa.CallInstruction
	eachInstr(fn, func(in ssa.Instruction) {
		if c, ok := in.(ssa.CallInstruction); ok {
			out = append(out, c)
		}
	})
	return out
}

// findCalls lists the *ssa.Call instructions of fn whose callee name satisfies pred.
func findCalls(fn *ssa.Function, pred func(c *ssa.CallCommon) bool) []*ssa.Call {
	var out []*ssa.Call
	eachInstr(fn, func(in ssa.Instruction) {
		if c, ok := in.(*ssa.Call); ok && pred(c.Common()) {
			out = append(out, c)
		}
	})
	return out
}

func named(names ...string) func(c *ssa.CallCommon) bool {
	return func(c *ssa.CallCommon) bool {
		n := callName(c)
		for _, x := range names {
			if n == x {
				return true
			}
		}
		return false
	}
}

// ---------------------------------------------------------------------------------------------
// P2: value origins
// ---------------------------------------------------------------------------------------------

// Origins walks backwards from v to its roots. It sees through Phi, conversions, interface
// construction, loads of local variables (all stores to the Alloc, flow-insensitively), captured
// variables (bindings of the enclosing MakeClosure), the repo's select combinators
// x.IfThenElse / x.IfThenElseExec, and – when through is non-nil – calls for which through
// returns the indices of arguments whose origins stand for the result.
type OriginOpts struct {
	// Through: for a call, return argument values that the result is derived from (nil = opaque).
	Through func(c *ssa.Call, idx int) []ssa.Value
	// KeepExtract: do not see through tuple extraction of non-call tuples.
	NoLoads bool
}

func (w *World) Origins(v ssa.Value, opt *OriginOpts) []ssa.Value {
	seen := map[ssa.Value]bool{}
	var out []ssa.Value
	var walk func(v ssa.Value)
	add := func(v ssa.Value) {
		out = append(out, v)
	}
	walk = func(v ssa.Value) {
		if v == nil || seen[v] {
			return
		}
		seen[v] = true
		switch x := v.(type) {
		case *ssa.Phi:
			for _, e := range x.Edges {
				walk(e)
			}
		case *ssa.ChangeInterface:
			walk(x.X)
		case *ssa.MakeInterface:
			walk(x.X)
		case *ssa.ChangeType:
			walk(x.X)
		case *ssa.Convert:
			walk(x.X)
		case *ssa.UnOp:
			if x.Op == token.MUL && (opt == nil || !opt.NoLoads) {
				// load
				switch a := x.X.(type) {
				case *ssa.Alloc:
					if ls := lastStoreBefore(x, a); ls != nil {
						walk(ls.Val)
						return
					}
					st := w.storesTo(a)
					if len(st) == 0 {
						add(v)
						return
					}
					for _, s := range st {
						walk(s)
					}
					return
				case *ssa.FreeVar:
					vals := w.freeVarStores(a)
					if len(vals) == 0 {
						add(v)
						return
					}
					for _, s := range vals {
						walk(s)
					}
					return
				}
			}
			add(v)
		case *ssa.Call:
			if sel := selectOperands(x); sel != nil {
				for _, s := range sel {
					walk(s)
				}
				return
			}
			if opt != nil && opt.Through != nil {
				if args := opt.Through(x, 0); args != nil {
					for _, a := range args {
						walk(a)
					}
					return
				}
			}
			add(v)
		case *ssa.Extract:
			if c, ok := x.Tuple.(*ssa.Call); ok && opt != nil && opt.Through != nil {
				if args := opt.Through(c, x.Index); args != nil {
					for _, a := range args {
						walk(a)
					}
					return
				}
			}
			add(v)
		default:
			add(v)
		}
	}
	walk(v)
	return out
}

// storesTo returns the values stored to a local Alloc anywhere in its function and the closures
// that capture it.
func (w *World) storesTo(a *ssa.Alloc) []ssa.Value {
	var out []ssa.Value
	var scan func(fn *ssa.Function, addr ssa.Value)
	scan = func(fn *ssa.Function, addr ssa.Value) {
		refs := addr.Referrers()
		if refs == nil {
			return
		}
		for _, r := range *refs {
			switch in := r.(type) {
			case *ssa.Store:
				if in.Addr == addr {
					out = append(out, in.Val)
				}
			case *ssa.MakeClosure:
				cl := in.Fn.(*ssa.Function)
				for i, b := range in.Bindings {
					if b == addr && i < len(cl.FreeVars) {
						scan(cl, cl.FreeVars[i])
					}
				}
			}
		}
	}
	scan(a.Parent(), a)
	return out
}

// freeVarStores: values stored into the variable a captured free variable refers to.
func (w *World) freeVarStores(fv *ssa.FreeVar) []ssa.Value {
	fn := fv.Parent()
	idx := -1
	for i, f := range fn.FreeVars {
		if f == fv {
			idx = i
		}
	}
	par := fn.Parent()
	if idx < 0 || par == nil {
		return nil
	}
	var out []ssa.Value
	for _, b := range par.Blocks {
		for _, in := range b.Instrs {
			mc, ok := in.(*ssa.MakeClosure)
			if !ok || mc.Fn != fn || idx >= len(mc.Bindings) {
				continue
			}
			switch bnd := mc.Bindings[idx].(type) {
			case *ssa.Alloc:
				out = append(out, w.storesTo(bnd)...)
			case *ssa.FreeVar:
				out = append(out, w.freeVarStores(bnd)...)
			}
		}
	}
	return out
}

// freeVarBinding resolves a free variable to the value bound in the enclosing function
// (pointer to the captured variable).
func freeVarBinding(fv *ssa.FreeVar) ssa.Value {
	fn := fv.Parent()
	par := fn.Parent()
	if par == nil {
		return nil
	}
	for i, f := range fn.FreeVars {
		if f != fv {
			continue
		}
		for _, b := range par.Blocks {
			for _, in := range b.Instrs {
				if mc, ok := in.(*ssa.MakeClosure); ok && mc.Fn == fn && i < len(mc.Bindings) {
					return mc.Bindings[i]
				}
			}
		}
	}
	return nil
}

// selectOperands recognises the repo's combinators: x.IfThenElse(c, a, b) -> {a, b};
// x.IfThenElseExec(c, f, g) -> the return values of closures f and g.
func selectOperands(c *ssa.Call) []ssa.Value {
	n := callName(c.Common())
	switch n {
	case modPath + "/internal/x.IfThenElse":
		if len(c.Call.Args) == 3 {
			return []ssa.Value{c.Call.Args[1], c.Call.Args[2]}
		}
	case modPath + "/internal/x.IfThenElseExec":
		if len(c.Call.Args) == 3 {
			var out []ssa.Value
			for _, a := range c.Call.Args[1:] {
				fn := closureFn(a)
				if fn == nil {
					return nil
				}
				for _, r := range returnsOf(fn) {
					if len(r.Results) == 1 {
						out = append(out, r.Results[0])
					}
				}
			}
			return out
		}
	}
	return nil
}

// selectCond returns the condition of a select combinator call.
func selectCond(c *ssa.Call) ssa.Value {
	n := callName(c.Common())
	if n == modPath+"/internal/x.IfThenElse" || n == modPath+"/internal/x.IfThenElseExec" {
		return c.Call.Args[0]
	}
	return nil
}

// closureFn returns the function behind a function value (closure, function reference).
func closureFn(v ssa.Value) *ssa.Function {
	switch x := v.(type) {
	case *ssa.MakeClosure:
		f, _ := x.Fn.(*ssa.Function)
		return f
	case *ssa.Function:
		return x
	case *ssa.ChangeType:
		return closureFn(x.X)
	}
	return nil
}

// fieldLoad: if v is a load of a struct field (x.f), returns the base pointer/struct and the field.
func fieldLoad(v ssa.Value) (ssa.Value, *types.Var) {
	switch x := v.(type) {
	case *ssa.UnOp:
		if x.Op == token.MUL {
			if fa, ok := x.X.(*ssa.FieldAddr); ok {
				return fa.X, fieldOf(fa.X.Type(), fa.Field)
			}
		}
	case *ssa.Field:
		return x.X, fieldOf(x.X.Type(), x.Field)
	}
	return nil, nil
}

func fieldOf(t types.Type, idx int) *types.Var {
	if p, ok := t.Underlying().(*types.Pointer); ok {
		t = p.Elem()
	}
	st, ok := t.Underlying().(*types.Struct)
	if !ok || idx >= st.NumFields() {
		return nil
	}
	return st.Field(idx)
}

// fieldPath describes v as a chain of field loads starting from a root value, e.g. "r.index".
// ok is false if v is not such a chain.
func fieldPath(v ssa.Value) (root ssa.Value, path []*types.Var) {
	for {
		b, f := fieldLoad(v)
		if f == nil {
			// look through loads of spilled receivers
			return v, path
		}
		path = append([]*types.Var{f}, path...)
		v = b
	}
}

func constString(v ssa.Value) (string, bool) {
	c, ok := v.(*ssa.Const)
	if !ok || c.Value == nil || c.Value.Kind() != constant.String {
		return "", false
	}
	return constant.StringVal(c.Value), true
}

func constInt(v ssa.Value) (int64, bool) {
	c, ok := v.(*ssa.Const)
	if !ok || c.Value == nil || c.Value.Kind() != constant.Int {
		return 0, false
	}
	return c.Int64(), true
}

// isParam reports whether v is the i-th parameter of its function (receiver = 0 for methods).
func isParam(v ssa.Value, fn *ssa.Function, i int) bool {
	p, ok := v.(*ssa.Parameter)
	return ok && i < len(fn.Params) && fn.Params[i] == p
}

// dominatesInstr: a strictly precedes b on every path (a dominates b).
func dominatesInstr(a, b ssa.Instruction) bool {
	ba, bb := a.Block(), b.Block()
	if ba == bb {
		for _, in := range ba.Instrs {
			if in == a {
				return true
			}
			if in == b {
				return false
			}
		}
		return false
	}
	return ba.Dominates(bb)
}

// reachableInstrAfter: can control flow from instruction a reach instruction b (a before b)?
func reachableAfter(a, b ssa.Instruction) bool {
	ba, bb := a.Block(), b.Block()
	if ba == bb {
		ia, ib := -1, -1
		for i, in := range ba.Instrs {
			if in == a {
				ia = i
			}
			if in == b {
				ib = i
			}
		}
		if ia < ib {
			return true
		}
		// through a loop back to the same block
		for _, s := range ba.Succs {
			if reach(s, nil)[bb] {
				return true
			}
		}
		return false
	}
	for _, s := range ba.Succs {
		if s == bb || reach(s, nil)[bb] {
			return true
		}
	}
	return false
}

// accessPath resolves a loaded value or an address to its root object and the chain of field
// names leading to it ("[]" marks an element access). Pointer dereferences are transparent.
// A spilled parameter (Alloc initialised once from a Parameter) resolves to the Parameter;
// captured variables resolve to the variable of the enclosing function.
func accessPath(v ssa.Value) (ssa.Value, []string) {
	for depth := 0; depth < 32; depth++ {
		switch x := v.(type) {
		case *ssa.UnOp:
			if x.Op != token.MUL {
				return v, nil
			}
			return accessPath(x.X)
		case *ssa.FieldAddr:
			r, p := accessPath(x.X)
			f := fieldOf(x.X.Type(), x.Field)
			if f == nil {
				return v, nil
			}
			return r, append(p, f.Name())
		case *ssa.Field:
			r, p := accessPath(x.X)
			f := fieldOf(x.X.Type(), x.Field)
			if f == nil {
				return v, nil
			}
			return r, append(p, f.Name())
		case *ssa.IndexAddr:
			r, p := accessPath(x.X)
			return r, append(p, "[]")
		case *ssa.Slice:
			v = x.X
		case *ssa.FreeVar:
			if b := freeVarBinding(x); b != nil {
				v = b
				continue
			}
			return v, nil
		case *ssa.Alloc:
			// spilled parameter?
			var stored []ssa.Value
			if refs := x.Referrers(); refs != nil {
				for _, rf := range *refs {
					if st, ok := rf.(*ssa.Store); ok && st.Addr == x {
						stored = append(stored, st.Val)
					}
				}
			}
			if len(stored) == 1 {
				if p, ok := stored[0].(*ssa.Parameter); ok {
					return p, nil
				}
			}
			return v, nil
		case *ssa.ChangeType:
			v = x.X
		case *ssa.MakeInterface:
			v = x.X
		case *ssa.ChangeInterface:
			v = x.X
		default:
			return v, nil
		}
	}
	return v, nil
}

func pathIs(v ssa.Value, names ...string) bool {
	_, p := accessPath(v)
	if len(p) != len(names) {
		return false
	}
	for i := range p {
		if p[i] != names[i] {
			return false
		}
	}
	return true
}

func pathEndsWith(v ssa.Value, names ...string) bool {
	root, p := accessPath(v)
	// the parameter of a single-call helper continues with the path of the argument
	for i := 0; i < 2 && len(p) < len(names); i++ {
		b := bindParam(root)
		if b == root {
			break
		}
		r2, p2 := accessPath(b)
		root, p = r2, append(append([]string{}, p2...), p...)
	}
	if len(p) < len(names) {
		return false
	}
	p = p[len(p)-len(names):]
	for i := range p {
		if p[i] != names[i] {
			return false
		}
	}
	return true
}

// lenOf: v is len(x); returns x.
func lenOf(v ssa.Value) ssa.Value {
	c, ok := v.(*ssa.Call)
	if !ok {
		return nil
	}
	b, ok := c.Call.Value.(*ssa.Builtin)
	if !ok || b.Name() != "len" {
		return nil
	}
	return c.Call.Args[0]
}

// lenFact classifies a comparison fact about len(x): returns x and "empty" / "nonempty", or nil.
func lenFact(f Fact) (ssa.Value, string) {
	if f.Kind != FCmp {
		return nil, ""
	}
	x, y, op := f.X, f.Y, f.Op
	if lenOf(y) != nil && lenOf(x) == nil {
		// c OP len(v)  ->  len(v) OP' c
		x, y = y, x
		switch op {
		case token.LSS:
			op = token.GTR
		case token.GTR:
			op = token.LSS
		case token.LEQ:
			op = token.GEQ
		case token.GEQ:
			op = token.LEQ
		}
	}
	l := lenOf(x)
	if l == nil {
		return nil, ""
	}
	c, ok := constInt(y)
	if !ok {
		return nil, ""
	}
	switch {
	case (op == token.EQL && c == 0) || (op == token.LEQ && c == 0) || (op == token.LSS && c == 1):
		return l, "empty"
	case (op == token.NEQ && c == 0) || (op == token.GTR && c == 0) || (op == token.GEQ && c == 1):
		return l, "nonempty"
	}
	return nil, ""
}

// reachFromEdgeP: blocks reachable from edge b->Succs[i] without traversing an edge that carries
// a fact satisfying p - like reachFromEdge(b, i, factCut(p)), but aware of materialised boolean
// conditions: for `t := A || B; if t && C {...}` the block testing t is entered both from "A true"
// and from "B evaluated". If the "A true" edge is itself cut, t can only be B there, and the true
// edge of t carries B's facts. Operands are considered only for predecessor edges that were
// actually traversed (least fix-point).
func reachFromEdgeP(b *ssa.BasicBlock, i int, p func(Fact) bool) map[*ssa.BasicBlock]bool {
	return phiAwareReach(b, i, nil, p)
}

// reachEntryP: the same traversal from the function entry.
func reachEntryP(fn *ssa.Function, p func(Fact) bool) map[*ssa.BasicBlock]bool {
	if len(fn.Blocks) == 0 {
		return nil
	}
	return phiAwareReach(nil, 0, fn.Blocks[0], p)
}

func phiAwareReach(b *ssa.BasicBlock, i int, entry *ssa.BasicBlock, p func(Fact) bool) map[*ssa.BasicBlock]bool {
	seen, _ := phiAwareReachT(b, i, entry, p, 0)
	return seen
}

type cfgEdge struct {
	from *ssa.BasicBlock
	idx  int
}

// predicateCut: every way for the boolean helper `callee` to return `truth` passes a fact
// satisfying p (or there is no such way): a call of it evaluating to `truth` is then as good as
// an edge carrying p. The helper's single return value is examined like a branch condition.
func predicateCut(callee *ssa.Function, truth bool, p func(Fact) bool, depth int) bool {
	if callee == nil || callee.Blocks == nil || depth > 2 {
		return false
	}
	rets := returnsOf(callee)
	if len(rets) != 1 || len(rets[0].Results) != 1 || !isBoolT(rets[0].Results[0].Type()) {
		return false
	}
	seen, trav := phiAwareReachT(nil, 0, callee.Blocks[0], p, depth+1)
	rb := rets[0].Block()
	if !seen[rb] {
		return true
	}
	rv := rets[0].Results[0]
	for {
		u, isNot := rv.(*ssa.UnOp)
		if !isNot || u.Op != token.NOT {
			break
		}
		rv, truth = u.X, !truth
	}
	accepts := func(v ssa.Value) bool {
		for _, f := range condFacts(v, truth) {
			if p(f) {
				return true
			}
		}
		return false
	}
	phi, isPhi := rv.(*ssa.Phi)
	if !isPhi || phi.Block() != rb {
		if k, isConst := rv.(*ssa.Const); isConst && k.Value != nil && k.Value.Kind() == constant.Bool {
			return constant.BoolVal(k.Value) != truth
		}
		return accepts(rv)
	}
	nCand := 0
	for j, pred := range rb.Preds {
		traversed := false
		for k, sb := range pred.Succs {
			if sb == rb && trav[cfgEdge{pred, k}] {
				traversed = true
			}
		}
		if !traversed {
			continue
		}
		e := phi.Edges[j]
		if k, isConst := e.(*ssa.Const); isConst && k.Value != nil && k.Value.Kind() == constant.Bool {
			if constant.BoolVal(k.Value) == truth {
				return false
			}
			continue
		}
		nCand++
		if !accepts(e) {
			return false
		}
	}
	return true
}

func phiAwareReachT(b *ssa.BasicBlock, i int, entry *ssa.BasicBlock, p func(Fact) bool, depth int) (map[*ssa.BasicBlock]bool, map[cfgEdge]bool) {
	type edge = cfgEdge
	trav := map[edge]bool{}
	seen := map[*ssa.BasicBlock]bool{}
	if b != nil {
		trav[edge{b, i}] = true
	}
	if entry != nil {
		seen[entry] = true
	}
	cutEdge := func(blk *ssa.BasicBlock, si int) bool {
		for _, f := range edgeFacts(blk, si) {
			if p(f) {
				return true
			}
			// a boolean helper all of whose ways to this outcome carry p
			if f.Kind == FTrue || f.Kind == FFalse {
				if c, isCall := f.V.(*ssa.Call); isCall && gWorld != nil {
					if callee := c.Common().StaticCallee(); callee != nil && callee.Blocks != nil && gWorld.inModule(callee) && predicateCut(callee, f.Kind == FTrue, p, depth) {
						return true
					}
				}
			}
		}
		if len(blk.Instrs) == 0 {
			return false
		}
		iff, ok := blk.Instrs[len(blk.Instrs)-1].(*ssa.If)
		if !ok || len(blk.Succs) != 2 || blk.Succs[0] == blk.Succs[1] {
			return false
		}
		truth := si == 0
		cond := iff.Cond
		for {
			u, isNot := cond.(*ssa.UnOp)
			if !isNot || u.Op != token.NOT {
				break
			}
			cond, truth = u.X, !truth
		}
		phi, ok := cond.(*ssa.Phi)
		if !ok || phi.Block() != blk || !isBoolT(phi.Type()) {
			return false
		}
		nTrav, nCand := 0, 0
		allAccepted := true
		for j, pred := range blk.Preds {
			traversed := false
			for k, sb := range pred.Succs {
				if sb == blk && trav[edge{pred, k}] {
					traversed = true
				}
			}
			if !traversed {
				continue
			}
			nTrav++
			e := phi.Edges[j]
			if k, isConst := e.(*ssa.Const); isConst && k.Value != nil && k.Value.Kind() == constant.Bool {
				if constant.BoolVal(k.Value) == truth {
					nCand++
					allAccepted = false // the constant alone yields this truth value
				}
				continue
			}
			nCand++
			accepted := false
			for _, f := range condFacts(e, truth) {
				if p(f) {
					accepted = true
				}
			}
			if !accepted {
				allAccepted = false
			}
		}
		if nTrav == 0 {
			return false
		}
		if nCand == 0 {
			return true // no traversed way to make the condition take this value
		}
		return allAccepted
	}
	for changed := true; changed; {
		changed = false
		for e := range trav {
			if t := e.from.Succs[e.idx]; !seen[t] {
				seen[t] = true
				changed = true
			}
		}
		for blk := range seen {
			for si := range blk.Succs {
				if trav[edge{blk, si}] || cutEdge(blk, si) {
					continue
				}
				trav[edge{blk, si}] = true
				changed = true
			}
		}
	}
	return seen, trav
}

// instrAt: an instruction that takes effect within fn, and where: the instruction itself, or - for
// the body of a same-package helper that fn calls at exactly one place - the call of that helper.
type instrAt struct {
	In ssa.Instruction
	At ssa.Instruction
}

// withHelperBodies lists fn's instructions plus those of its single-call helpers (depth 1).
func withHelperBodies(fn *ssa.Function) []instrAt {
	var out []instrAt
	eachInstr(fn, func(in ssa.Instruction) { out = append(out, instrAt{in, in}) })
	if gWorld == nil {
		return out
	}
	for _, ci := range callsIn(fn) {
		callee := ci.Common().StaticCallee()
		if callee == nil || callee.Blocks == nil || callee == fn || fnPkgPath(callee) != fnPkgPath(fn) {
			continue
		}
		edges := gWorld.CG().In[callee]
		if len(edges) != 1 || edges[0].Kind != "static" {
			continue
		}
		at := ci.(ssa.Instruction)
		eachInstr(callee, func(in ssa.Instruction) { out = append(out, instrAt{in, at}) })
	}
	return out
}

// isFieldOfType: v is a load of a struct field whose type is t (a configuration value kept in a field,
// whatever the field is called).
func isFieldOfType(v ssa.Value, t types.Type) bool {
	_, f := fieldLoad(v)
	return f != nil && types.Identical(f.Type(), t)
}

// isBoolFuncField: v is a load of a struct field holding a predicate (a function returning bool).
func isBoolFuncField(v ssa.Value) bool {
	_, f := fieldLoad(v)
	if f == nil {
		return false
	}
	sg, ok := f.Type().Underlying().(*types.Signature)
	return ok && sg.Results().Len() == 1 && isBool(sg.Results().At(0).Type())
}

func isString(t types.Type) bool {
	b, ok := t.Underlying().(*types.Basic)
	return ok && b.Info()&types.IsString != 0
}
