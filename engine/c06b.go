package main

import (
	"fmt"
	"go/token"
	"go/types"

	"golang.org/x/tools/go/ssa"
)

// ---- C06.10: adding and deleting read a path expression alike -------------------------------------------
//
// The tree stores a path expression node by node; a static token may be split at any byte when a sibling
// shares a prefix with it ("/v1/items" next to "/v1/items:get" leaves a node ":get"). The functions that
// walk an *expression* through the tree (adding, deleting) decide at each node whether the next byte is a
// wildcard marker (':' '*') or the escape character. That decision is right only at the start of a
// token: the rest of a split static token is literal. A walker that takes the decision inside a static
// token looks for a wildcard child that does not exist: the expression can be added and never deleted,
// and the rule set holding it can neither be removed nor updated.
//
// Per walker (the recursive functions behind Tree.Add and Tree.Delete):
//   - it has a boolean parameter (the "inside a static token" flag);
//   - every comparison of a byte of the expression with ':' '*' or '\\' is reachable only through the
//     false edge of that flag;
//   - at least one recursive call hands over a flag that is computed (not a constant): the recursion
//     into a static child has to say whether it stays inside the token.
func c06WalkersAgree(w *World, r *Report, ra *repoAnchors) {
	ri := r.Rule("C06.10", 4, "the functions that walk a path expression through the tree (add, delete) read ':' '*' and the escape character as markers only at the start of a token, never in the rest of a split static token")
	for _, name := range []string{"Add", "Delete"} {
		fn := treeRecursive(w, ra, name)
		if fn == nil {
			r.Undecided(ri, "the recursive function behind Tree."+name+" was not found")
			continue
		}
		r.Analysed(w.FnName(fn))
		key := w.FnName(fn)
		var flags []*ssa.Parameter
		var strs []*ssa.Parameter
		for _, p := range fn.Params {
			if b, ok := p.Type().Underlying().(*types.Basic); ok {
				if b.Kind() == types.Bool {
					flags = append(flags, p)
				}
				if b.Info()&types.IsString != 0 {
					strs = append(strs, p)
				}
			}
		}
		// marker comparisons: <byte of a string derived from a string parameter> == ':' | '*' | '\\'
		type cmp struct {
			in ssa.Instruction
			ch rune
		}
		var cmps []cmp
		eachInstr(fn, func(in ssa.Instruction) {
			b, ok := in.(*ssa.BinOp)
			if !ok || (b.Op != token.EQL && b.Op != token.NEQ) {
				return
			}
			for _, pr := range [][2]ssa.Value{{b.X, b.Y}, {b.Y, b.X}} {
				k, isC := constInt(pr[1])
				if !isC || (k != ':' && k != '*' && k != '\\') {
					continue
				}
				if bt, isB := pr[0].Type().Underlying().(*types.Basic); !isB || (bt.Kind() != types.Uint8 && bt.Kind() != types.Byte) {
					continue
				}
				fromExpr := dependsOn(w, pr[0], func(x ssa.Value) bool {
					for _, s := range strs {
						if x == ssa.Value(s) {
							return true
						}
					}
					return false
				})
				if fromExpr {
					cmps = append(cmps, cmp{in, rune(k)})
				}
			}
		})
		if len(cmps) == 0 {
			// a walker that never looks for markers has nothing to get wrong
			r.Ob(ri, key+"|no-marker-tests", fn.Pos(), true, "")
			continue
		}
		r.Ob(ri, key+"|has-flag", fn.Pos(), len(flags) > 0, "the walker tests bytes of the expression for ':' '*' or the escape character, but has no flag telling it whether it is inside a static token: the rest of a split static token (\":get\" of \"/v1/items:get\") is taken for a wildcard")
		if len(flags) == 0 {
			continue
		}
		for i, c := range cmps {
			guarded := false
			for _, fl := range flags {
				fl := fl
				if onlyVia(fn, c.in.Block(), func(f Fact) bool { return f.Kind == FFalse && f.V == ssa.Value(fl) }) {
					guarded = true
				}
			}
			r.Ob(ri, fmt.Sprintf("%s|marker-test#%d", key, i+1), c.in.Pos(), guarded, fmt.Sprintf("the test for %q is reached also inside a static token: the rest of a split static token is taken for a wildcard / an escape sequence, such an expression can be added but not found again by this walker", string(c.ch)))
		}
		// the flag is computed for at least one recursive call
		computed, nrec := false, 0
		for _, ci := range callsIn(fn) {
			g := ci.Common().StaticCallee()
			if g == nil || !(g == fn || (g.Origin() != nil && g.Origin() == fn.Origin())) {
				continue
			}
			nrec++
			args := ci.Common().Args
			for i, p := range fn.Params {
				if i >= len(args) {
					break
				}
				for _, fl := range flags {
					if p == fl {
						if _, isC := args[i].(*ssa.Const); !isC {
							computed = true
						}
					}
				}
			}
		}
		r.Ob(ri, key+"|flag-computed-for-recursion", fn.Pos(), computed && nrec > 0, "every recursive call hands over a constant flag: the walker is never told that it continues inside a static token")
	}
}
