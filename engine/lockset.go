package main

import (
	"fmt"
	"sort"
	"strings"

	"golang.org/x/tools/go/ssa"
)

// P4: lock sets. Forward must-analysis of the sync.Mutex / sync.RWMutex objects held at each
// instruction of a function. A lock is identified by the access path of the mutex (root value +
// field names), e.g. "p0.mut". `defer mu.Unlock()` keeps the lock to every exit.

type heldLock struct {
	Mode string          // "W" or "R"
	Acq  ssa.Instruction // the acquiring call (nil if several)
}

type lockState map[string]heldLock

func (s lockState) clone() lockState {
	o := lockState{}
	for k, v := range s {
		o[k] = v
	}
	return o
}

func meet(a, b lockState) lockState {
	o := lockState{}
	for k, va := range a {
		if vb, ok := b[k]; ok {
			m := va.Mode
			if vb.Mode == "R" {
				m = "R"
			}
			acq := va.Acq
			if vb.Acq != va.Acq {
				acq = nil
			}
			o[k] = heldLock{m, acq}
		}
	}
	return o
}

func equalState(a, b lockState) bool {
	if len(a) != len(b) {
		return false
	}
	for k, va := range a {
		vb, ok := b[k]
		if !ok || va != vb {
			return false
		}
	}
	return true
}

// lockKey renders the identity of the mutex operated on by a Lock/Unlock call.
func lockKey(fn *ssa.Function, recv ssa.Value) string {
	root, p := accessPath(recv)
	name := ""
	switch r := root.(type) {
	case *ssa.Parameter:
		for i, q := range r.Parent().Params {
			if q == r {
				name = fmt.Sprintf("p%d", i)
			}
		}
	case *ssa.FreeVar:
		// a closure's captured receiver resolves to the enclosing function's parameter
		if pr := capturedParam(r); pr != nil {
			for i, q := range pr.Parent().Params {
				if q == pr {
					name = fmt.Sprintf("p%d", i)
				}
			}
		}
		if name == "" {
			name = "v:" + root.Name()
		}
	case *ssa.Global:
		name = "g:" + r.Name()
	default:
		name = "v:" + root.Name()
	}
	return name + "." + strings.Join(p, ".")
}

type lockOp struct {
	Key  string
	Op   string // lock | rlock | unlock | runlock
	Call ssa.CallInstruction
}

func lockOpOf(fn *ssa.Function, ci ssa.CallInstruction) *lockOp {
	n := callName(ci.Common())
	var op string
	switch n {
	case "sync.Mutex.Lock", "sync.RWMutex.Lock":
		op = "lock"
	case "sync.RWMutex.RLock":
		op = "rlock"
	case "sync.Mutex.Unlock", "sync.RWMutex.Unlock":
		op = "unlock"
	case "sync.RWMutex.RUnlock":
		op = "runlock"
	default:
		return nil
	}
	return &lockOp{Key: lockKey(fn, ci.Common().Args[0]), Op: op, Call: ci}
}

// capturedParam: the parameter of the enclosing function that a free variable of a closure stands
// for (the variable is captured by reference: the binding is the alloc the parameter was spilled to).
func capturedParam(fv *ssa.FreeVar) *ssa.Parameter {
	cl := fv.Parent()
	par := cl.Parent()
	if par == nil {
		return nil
	}
	idx := -1
	for i, f := range cl.FreeVars {
		if f == fv {
			idx = i
		}
	}
	var out *ssa.Parameter
	n := 0
	eachInstr(par, func(in ssa.Instruction) {
		mc, ok := in.(*ssa.MakeClosure)
		if !ok || mc.Fn != ssa.Value(cl) || idx < 0 || idx >= len(mc.Bindings) {
			return
		}
		switch b := mc.Bindings[idx].(type) {
		case *ssa.Parameter:
			out = b
			n++
		case *ssa.Alloc:
			// exactly one store, of a parameter
			var stored []ssa.Value
			for _, ref := range *b.Referrers() {
				if st, ok := ref.(*ssa.Store); ok && st.Addr == ssa.Value(b) {
					stored = append(stored, st.Val)
				}
			}
			if len(stored) == 1 {
				if p, ok := stored[0].(*ssa.Parameter); ok {
					out = p
					n++
				}
			}
		case *ssa.FreeVar:
			if p := capturedParam(b); p != nil {
				out = p
				n++
			}
		}
	})
	if n != 1 {
		return nil
	}
	return out
}

// deferredClosureUnlocks: the unlock operations a deferred function literal performs on every run
// (calls in its entry block), keyed in terms of the enclosing function.
func deferredClosureUnlocks(d *ssa.Defer) []string {
	mc, ok := d.Call.Value.(*ssa.MakeClosure)
	if !ok {
		return nil
	}
	cf, ok := mc.Fn.(*ssa.Function)
	if !ok || len(cf.Blocks) == 0 {
		return nil
	}
	var out []string
	for _, ins := range cf.Blocks[0].Instrs {
		ci, ok := ins.(*ssa.Call)
		if !ok {
			continue
		}
		if op := lockOpOf(cf, ci); op != nil && (op.Op == "unlock" || op.Op == "runlock") && !strings.HasPrefix(op.Key, "v:") {
			out = append(out, op.Key)
		}
	}
	return out
}

// LockInfo holds the result of the analysis for one function.
type LockInfo struct {
	Fn       *ssa.Function
	At       map[ssa.Instruction]lockState // state before the instruction
	Ops      []*lockOp
	Deferred map[string]bool // locks released by a deferred unlock
	Unpaired []string        // diagnostics: lock held at a return without deferred unlock
	Double   []string        // diagnostics: lock acquired while already held
}

func lockSets(fn *ssa.Function) *LockInfo {
	li := &LockInfo{Fn: fn, At: map[ssa.Instruction]lockState{}, Deferred: map[string]bool{}}
	if len(fn.Blocks) == 0 {
		return li
	}
	in := map[*ssa.BasicBlock]lockState{fn.Blocks[0]: {}}
	visited := map[*ssa.BasicBlock]bool{}
	work := []*ssa.BasicBlock{fn.Blocks[0]}
	transfer := func(b *ssa.BasicBlock, st lockState, record bool) lockState {
		st = st.clone()
		for _, ins := range b.Instrs {
			if record {
				li.At[ins] = st.clone()
			}
			ci, ok := ins.(ssa.CallInstruction)
			if !ok {
				continue
			}
			if d, isDefer := ins.(*ssa.Defer); isDefer {
				for _, k := range deferredClosureUnlocks(d) {
					li.Deferred[k] = true
				}
			}
			op := lockOpOf(fn, ci)
			if op == nil {
				continue
			}
			if _, isDefer := ins.(*ssa.Defer); isDefer {
				if op.Op == "unlock" || op.Op == "runlock" {
					li.Deferred[op.Key] = true
				}
				continue
			}
			if _, isGo := ins.(*ssa.Go); isGo {
				continue
			}
			switch op.Op {
			case "lock":
				if _, held := st[op.Key]; held && record {
					li.Double = append(li.Double, op.Key)
				}
				st[op.Key] = heldLock{"W", ins}
			case "rlock":
				st[op.Key] = heldLock{"R", ins}
			case "unlock", "runlock":
				delete(st, op.Key)
			}
		}
		return st
	}
	for len(work) > 0 {
		b := work[0]
		work = work[1:]
		out := transfer(b, in[b], false)
		visited[b] = true
		for _, s := range b.Succs {
			old, ok := in[s]
			var nw lockState
			if !ok {
				nw = out.clone()
			} else {
				nw = meet(old, out)
			}
			if !ok || !equalState(old, nw) {
				in[s] = nw
				work = append(work, s)
			}
		}
	}
	for _, b := range fn.Blocks {
		if !visited[b] {
			continue
		}
		out := transfer(b, in[b], true)
		if len(b.Instrs) > 0 {
			if _, isRet := b.Instrs[len(b.Instrs)-1].(*ssa.Return); isRet {
				for k := range out {
					if !li.Deferred[k] {
						li.Unpaired = append(li.Unpaired, k)
					}
				}
			}
		}
	}
	eachInstr(fn, func(ins ssa.Instruction) {
		if ci, ok := ins.(ssa.CallInstruction); ok {
			if op := lockOpOf(fn, ci); op != nil {
				li.Ops = append(li.Ops, op)
			}
		}
	})
	sort.Strings(li.Unpaired)
	return li
}

// heldAt returns the lock (if any) whose key ends with the given field name held before ins.
func (li *LockInfo) heldAt(ins ssa.Instruction, field string) (heldLock, bool) {
	st := li.At[ins]
	for k, v := range st {
		if strings.HasSuffix(k, "."+field) {
			return v, true
		}
	}
	return heldLock{}, false
}

// mayHeldAtReturn: locks that are held on *some* path at a return of fn and whose release is not
// deferred (union at joins; used for leak detection, where one leaking path is enough).
func mayHeldAtReturn(fn *ssa.Function) []string {
	if len(fn.Blocks) == 0 {
		return nil
	}
	deferred := map[string]bool{}
	in := map[*ssa.BasicBlock]map[string]bool{fn.Blocks[0]: {}}
	transfer := func(b *ssa.BasicBlock, st map[string]bool) map[string]bool {
		o := map[string]bool{}
		for k := range st {
			o[k] = true
		}
		for _, ins := range b.Instrs {
			ci, ok := ins.(ssa.CallInstruction)
			if !ok {
				continue
			}
			if d, isDefer := ins.(*ssa.Defer); isDefer {
				for _, k := range deferredClosureUnlocks(d) {
					deferred[k] = true
				}
			}
			op := lockOpOf(fn, ci)
			if op == nil {
				continue
			}
			if _, isDefer := ins.(*ssa.Defer); isDefer {
				if op.Op == "unlock" || op.Op == "runlock" {
					deferred[op.Key] = true
				}
				continue
			}
			if _, isGo := ins.(*ssa.Go); isGo {
				continue
			}
			switch op.Op {
			case "lock", "rlock":
				o[op.Key] = true
			case "unlock", "runlock":
				delete(o, op.Key)
			}
		}
		return o
	}
	work := []*ssa.BasicBlock{fn.Blocks[0]}
	for len(work) > 0 {
		b := work[0]
		work = work[1:]
		out := transfer(b, in[b])
		for _, s := range b.Succs {
			old, seen := in[s]
			nw := map[string]bool{}
			for k := range old {
				nw[k] = true
			}
			grew := !seen
			for k := range out {
				if !nw[k] {
					nw[k] = true
					grew = true
				}
			}
			if grew {
				in[s] = nw
				work = append(work, s)
			}
		}
	}
	res := map[string]bool{}
	for b, st := range in {
		if len(b.Instrs) == 0 {
			continue
		}
		if _, isRet := b.Instrs[len(b.Instrs)-1].(*ssa.Return); !isRet {
			continue
		}
		for k := range transfer(b, st) {
			if !deferred[k] {
				res[k] = true
			}
		}
	}
	var out []string
	for k := range res {
		out = append(out, k)
	}
	sort.Strings(out)
	return out
}
