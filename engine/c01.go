package main

import (
	"fmt"
	"go/types"
	"strings"

	"golang.org/x/tools/go/ssa"
)

func init() { register("C01", checkC01) }

// ---- role-based anchors shared by C01/C04/C14 ------------------------------------------------

type pipelineAnchors struct {
	ctxIface      *types.Interface // heimdall.Context
	ehIface       *types.Named     // rules.errorHandler (package private): Execute(Context, error) error
	shIface       *types.Named     // rules.subjectHandler
	scIface       *types.Named     // rules.subjectCreator
	compEH        *types.Named     // slice of errorHandler
	compSH        *types.Named
	compSC        *types.Named
	condEH        *types.Named // struct wrapping an errorHandler
	condSH        *types.Named
	ruleImpl      *types.Named // implementation of rule.Rule
	notApplicable *ssa.Global  // sentinel returned by the conditional error handler
}

func isCtxType(w *World, t types.Type) bool {
	n := w.Named("internal/heimdall", "Context")
	return n != nil && types.Identical(t, n)
}

// findPipelineAnchors resolves the package-private roles in internal/rules by structure.
func findPipelineAnchors(w *World) (*pipelineAnchors, error) {
	a := &pipelineAnchors{ctxIface: w.Iface("internal/heimdall", "Context")}
	if a.ctxIface == nil {
		return nil, fmt.Errorf("heimdall.Context not found")
	}
	p := w.P("internal/rules")
	if p == nil {
		return nil, fmt.Errorf("package internal/rules not found")
	}
	sc := p.Types.Scope()
	execShape := func(it *types.Interface) string {
		for i := 0; i < it.NumMethods(); i++ {
			m := it.Method(i)
			if m.Name() != "Execute" {
				continue
			}
			sig := m.Type().(*types.Signature)
			if sig.Params().Len() == 0 || !isCtxType(w, sig.Params().At(0).Type()) || !lastResultIsError(sig) {
				return ""
			}
			switch {
			case sig.Params().Len() == 2 && isErrorType(sig.Params().At(1).Type()) && sig.Results().Len() == 1:
				return "eh"
			case sig.Params().Len() == 2 && sig.Results().Len() == 1:
				return "sh"
			case sig.Params().Len() == 1 && sig.Results().Len() == 2:
				return "sc"
			}
		}
		return ""
	}
	for _, n := range sc.Names() {
		tn, ok := sc.Lookup(n).(*types.TypeName)
		if !ok {
			continue
		}
		nt, ok := tn.Type().(*types.Named)
		if !ok {
			continue
		}
		if it, ok := nt.Underlying().(*types.Interface); ok {
			switch execShape(it) {
			case "eh":
				a.ehIface = nt
			case "sh":
				a.shIface = nt
			case "sc":
				a.scIface = nt
			}
		}
	}
	if a.ehIface == nil || a.shIface == nil || a.scIface == nil {
		return nil, fmt.Errorf("pipeline stage interfaces (error handler / subject handler / subject creator) not found in internal/rules")
	}
	for _, n := range sc.Names() {
		tn, ok := sc.Lookup(n).(*types.TypeName)
		if !ok {
			continue
		}
		nt, ok := tn.Type().(*types.Named)
		if !ok {
			continue
		}
		switch u := nt.Underlying().(type) {
		case *types.Slice:
			switch {
			case types.Identical(u.Elem(), a.ehIface):
				a.compEH = nt
			case types.Identical(u.Elem(), a.shIface):
				a.compSH = nt
			case types.Identical(u.Elem(), a.scIface):
				a.compSC = nt
			}
		case *types.Struct:
			for i := 0; i < u.NumFields(); i++ {
				ft := u.Field(i).Type()
				if types.Identical(ft, a.ehIface) && types.Implements(types.NewPointer(nt), a.ehIface.Underlying().(*types.Interface)) {
					a.condEH = nt
				}
				if types.Identical(ft, a.shIface) && types.Implements(types.NewPointer(nt), a.shIface.Underlying().(*types.Interface)) {
					a.condSH = nt
				}
			}
		}
	}
	if ri := w.Iface("internal/rules/rule", "Rule"); ri != nil {
		for _, t := range w.Implementors(ri) {
			if t.Obj().Pkg().Path() == p.PkgPath {
				a.ruleImpl = t
			}
		}
	}
	if a.compEH == nil || a.compSH == nil || a.compSC == nil || a.condEH == nil || a.condSH == nil || a.ruleImpl == nil {
		return nil, fmt.Errorf("composite/conditional pipeline types not resolved: %+v", *a)
	}
	return a, nil
}

// invokeOf: call is an interface invocation of method `name` declared by named interface it.
func invokeOf(c *ssa.CallCommon, it *types.Named, name string) bool {
	if !c.IsInvoke() || c.Method.Name() != name {
		return false
	}
	return types.Identical(c.Value.Type(), it)
}

// methodCallNamed: call (static or invoke) of a method with this name.
func methodCallNamed(c *ssa.CallCommon, name string) bool {
	o := calleeObj(c)
	if o == nil || o.Name() != name {
		return false
	}
	return o.Type().(*types.Signature).Recv() != nil
}

func nilOf(pred func(ssa.Value) bool) func(Fact) bool {
	return func(f Fact) bool { return f.Kind == FNil && pred(f.V) }
}
func nonNilOf(pred func(ssa.Value) bool) func(Fact) bool {
	return func(f Fact) bool { return f.Kind == FNonNil && pred(f.V) }
}
func isResult(call *ssa.Call, idx int) func(ssa.Value) bool {
	return func(v ssa.Value) bool {
		c, i := resultOfCall(v)
		return c == call && i == idx
	}
}

// errIdx returns the index of the error (last) result of a call.
func errIdx(c *ssa.Call) int {
	return c.Common().Signature().Results().Len() - 1
}

func checkC01(w *World, r *Report) {
	pa, err := findPipelineAnchors(w)
	if err != nil {
		r.Undecided(nil, err.Error())
		return
	}
	c01EntryPoints(w, r, pa)
	c01Finalize(w, r, pa)
	c01ErrorHandlerMechanisms(w, r, pa)
	c01CompositeEH(w, r, pa)
	c01StageComposites(w, r, pa, true)
	c01RuleExecute(w, r, pa)
	c01HasAuthenticator(w, r, pa, "C01.7")
	c01Recovery(w, r)
	c01EvalErrorClass(w, r)
	c12ExplicitStatus(w, r, "C01.9")
}

// ---- C01.1 -----------------------------------------------------------------------------------

func c01EntryPoints(w *World, r *Report, pa *pipelineAnchors) {
	ri := r.Rule("C01.1", 2, "entry points finalise only after error-free rule execution, on the same context")
	execI := w.Named("internal/rules/rule", "Executor")
	if execI == nil {
		r.Undecided(ri, "rule.Executor not found")
		return
	}
	for _, fn := range w.Funcs {
		if w.isMockFn(fn) {
			continue
		}
		calls := findCalls(fn, func(c *ssa.CallCommon) bool { return invokeOf(c, execI, "Execute") })
		if len(calls) == 0 {
			continue
		}
		r.Analysed(w.FnName(fn))
		for _, ex := range calls {
			key := w.FnName(fn) + "|Execute"
			ei := errIdx(ex)
			nilEdge := nilOf(isResult(ex, ei))
			fins := findCalls(fn, func(c *ssa.CallCommon) bool {
				if !methodCallNamed(c, "Finalize") {
					return false
				}
				rv := callRecv(c)
				return rv != nil && (types.Implements(rv.Type(), pa.ctxIface) || types.Implements(types.NewPointer(rv.Type()), pa.ctxIface))
			})
			if len(fins) == 0 {
				r.Ob(ri, key+"|finalize", ex.Pos(), false, "entry point executes the rule but never finalises the context (anchor lost)")
				continue
			}
			for _, fc := range fins {
				ok := onlyVia(fn, fc.Block(), nilEdge)
				r.Ob(ri, key+"|finalize-only-on-success", fc.Pos(), ok, "Finalize must be reachable only through the err == nil edge of Executor.Execute")
				same := sameValue(callRecv(fc.Common()), ex.Common().Args[0])
				r.Ob(ri, key+"|same-context", fc.Pos(), same, "the context handed to Execute and the one finalised must be the same value")
			}
			// every return that does not forward Finalize's results sits on the error edge and returns that error
			for _, ret := range returnsOf(fn) {
				if len(ret.Results) == 0 {
					continue
				}
				last := ret.Results[len(ret.Results)-1]
				if !isErrorType(last.Type()) {
					continue
				}
				fromFinalize := false
				for _, fc := range fins {
					if c, _ := resultOfCall(last); c == fc {
						fromFinalize = true
					}
				}
				if fromFinalize {
					continue
				}
				ok := true
				for _, s := range w.Sources(last, ret.Block()) {
					if !(s.Kind == "call" && isResult(ex, ei)(s.V)) {
						ok = false
					}
				}
				ok = ok && onlyVia(fn, ret.Block(), nonNilOf(isResult(ex, ei)))
				r.Ob(ri, key+"|error-return", ret.Pos(), ok, "a return that bypasses Finalize must return Execute's error on its != nil edge")
			}
			// no direct positive effect in the entry point itself
			for _, c := range callsIn(fn) {
				n := callName(c.Common())
				if n == "net/http.ResponseWriter.WriteHeader" || n == "net/http.ResponseWriter.Write" {
					r.Ob(ri, key+"|direct-write", c.Pos(), false, "entry point writes the response itself")
				}
			}
		}
	}
}

// ---- C01.2 -----------------------------------------------------------------------------------

// pipelineErrField finds, for a context type, the field that its SetPipelineError stores into.
func pipelineErrField(w *World, t *types.Named) *types.Var {
	fn := w.Method(t, "SetPipelineError")
	if fn == nil || fn.Blocks == nil {
		return nil
	}
	var f *types.Var
	eachInstr(fn, func(in ssa.Instruction) {
		if st, ok := in.(*ssa.Store); ok {
			if fa, ok := st.Addr.(*ssa.FieldAddr); ok && isErrorType(st.Val.Type()) {
				f = fieldOf(fa.X.Type(), fa.Field)
			}
		}
	})
	return f
}

// isGetterOf: fn (no params besides receiver) returns the load of field f of its receiver.
func isGetterOf(fn *ssa.Function, f *types.Var) bool {
	if fn == nil || fn.Blocks == nil {
		return false
	}
	rets := returnsOf(fn)
	if len(rets) != 1 || len(rets[0].Results) != 1 {
		return false
	}
	_, fld := fieldLoad(rets[0].Results[0])
	return fld == f
}

func c01Finalize(w *World, r *Report, pa *pipelineAnchors) {
	ri := r.Rule("C01.2", 3, "finalisation produces a positive effect only when the recorded pipeline error is nil")
	for _, t := range w.Implementors(pa.ctxIface) {
		fin := w.Method(t, "Finalize")
		if fin == nil || fin.Blocks == nil || w.isMockFn(fin) {
			continue
		}
		// the method must be declared by t itself (not promoted)
		if derefNamed(fin.Signature.Recv().Type()) != t {
			continue
		}
		r.Analysed(w.FnName(fin))
		key := w.FnName(fin)
		pf := pipelineErrField(w, t)
		if pf == nil {
			r.Ob(ri, key+"|state", fin.Pos(), false, "cannot find the field written by SetPipelineError")
			continue
		}
		isPE := func(v ssa.Value) bool {
			if _, f := fieldLoad(v); f == pf {
				return true
			}
			if c, _ := resultOfCall(v); c != nil {
				if callee := c.Common().StaticCallee(); callee != nil && isGetterOf(callee, pf) {
					return true
				}
			}
			return false
		}
		peNil := nilOf(isPE)
		found := false
		eachInstr(fin, func(in ssa.Instruction) {
			if iff, ok := in.(*ssa.If); ok {
				for _, f := range append(condFacts(iff.Cond, true), condFacts(iff.Cond, false)...) {
					if (f.Kind == FNil || f.Kind == FNonNil) && isPE(f.V) {
						found = true
					}
				}
			}
		})
		r.Ob(ri, key+"|checks-pipeline-error", fin.Pos(), found, "Finalize must branch on the pipeline error state (field "+pf.Name()+")")
		// positive effects: response writes, proxying, returns that can carry a nil error
		for _, c := range callsIn(fin) {
			n := callName(c.Common())
			if n == "net/http.ResponseWriter.WriteHeader" || n == "net/http.ResponseWriter.Write" || n == "net/http/httputil.ReverseProxy.ServeHTTP" {
				ok := onlyVia(fin, c.Block(), peNil)
				r.Ob(ri, key+"|effect|"+n, c.Pos(), ok, "positive effect must be reachable only through pipelineError == nil")
				if n == "net/http/httputil.ReverseProxy.ServeHTTP" {
					up := func(v ssa.Value) bool {
						p, ok := v.(*ssa.Parameter)
						return ok && len(fin.Params) > 1 && p == fin.Params[1]
					}
					ok := onlyVia(fin, c.Block(), nonNilOf(up))
					r.Ob(ri, key+"|effect|upstream-present", c.Pos(), ok, "proxying must be reachable only through upstream != nil")
				}
			}
		}
		for _, ret := range returnsOf(fin) {
			last := ret.Results[len(ret.Results)-1]
			mayNil := false
			for _, s := range w.Sources(last, ret.Block()) {
				if s.Kind == "nonnil" {
					continue
				}
				if isPE(s.V) && onlyVia(fin, ret.Block(), nonNilOf(isPE)) {
					continue
				}
				mayNil = true
			}
			if mayNil {
				ok := onlyVia(fin, ret.Block(), peNil)
				r.Ob(ri, key+"|return-possibly-nil", ret.Pos(), ok, "a return that may carry a nil error must be reachable only through pipelineError == nil")
			} else {
				// returns the pipeline error: must be that error
				r.Ob(ri, key+"|return-error", ret.Pos(), true, "")
			}
		}
	}
}

// ---- C01.3 -----------------------------------------------------------------------------------

func c01ErrorHandlerMechanisms(w *World, r *Report, pa *pipelineAnchors) {
	ri := r.Rule("C01.3", 3, "every error-handler mechanism records a non-nil pipeline error before reporting success")
	ehI := w.Iface("internal/rules/mechanisms/errorhandlers", "ErrorHandler")
	if ehI == nil {
		r.Undecided(ri, "errorhandlers.ErrorHandler not found")
		return
	}
	for _, t := range w.Implementors(ehI) {
		if t.Obj().Pkg().Path() == modPath+"/internal/rules" {
			continue // wrappers are C01.4
		}
		fn := w.Method(t, "Execute")
		if fn == nil || fn.Blocks == nil {
			continue
		}
		r.Analysed(w.FnName(fn))
		key := w.FnName(fn)
		ctxP := fn.Params[1]
		var sets []*ssa.Call
		for _, c := range findCalls(fn, func(c *ssa.CallCommon) bool {
			return c.IsInvoke() && c.Method.Name() == "SetPipelineError" && c.Value == ctxP
		}) {
			sets = append(sets, c)
		}
		good := []*ssa.Call{}
		for _, c := range sets {
			ok := true
			var why []string
			for _, s := range w.Sources(c.Common().Args[0], c.Block()) {
				switch s.Kind {
				case "nonnil":
				case "global":
					// package-level error sentinel
				case "param":
					if !(len(fn.Params) > 2 && s.V == fn.Params[2]) {
						ok = false
						why = append(why, "argument is a parameter other than the cause error")
					}
				default:
					ok = false
					why = append(why, "argument may be nil ("+s.Kind+": "+s.V.String()+")")
				}
			}
			r.Ob(ri, key+"|SetPipelineError-arg", c.Pos(), ok, "SetPipelineError must receive a provably non-nil error "+strings.Join(why, "; "))
			if ok {
				good = append(good, c)
			}
		}
		for _, ret := range returnsOf(fn) {
			needs := false
			for _, s := range w.Sources(ret.Results[0], ret.Block()) {
				if s.Kind != "nonnil" {
					needs = true
				}
			}
			if !needs {
				r.Ob(ri, key+"|return-error", ret.Pos(), true, "")
				continue
			}
			dom := false
			for _, c := range good {
				if dominatesInstr(c, ret) {
					dom = true
				}
			}
			r.Ob(ri, key+"|return-nil-after-set", ret.Pos(), dom, "a return that may be nil must be dominated by ctx.SetPipelineError(non-nil) on the ctx parameter")
		}
	}
}

// ---- C01.4 -----------------------------------------------------------------------------------

func c01CompositeEH(w *World, r *Report, pa *pipelineAnchors) {
	ri := r.Rule("C01.4", 6, "the error pipeline never converts 'no applicable handler' or a failing handler into success")
	// conditional wrapper first: it defines the not-applicable sentinel
	cw := w.Method(pa.condEH, "Execute")
	ce := w.Method(pa.compEH, "Execute")
	if cw == nil || ce == nil {
		r.Undecided(ri, "Execute of the composite / conditional error handler not found")
		return
	}
	r.Analysed(w.FnName(cw), w.FnName(ce))
	var sentinel *ssa.Global
	{
		key := w.FnName(cw)
		inner := findCalls(cw, func(c *ssa.CallCommon) bool { return invokeOf(c, pa.ehIface, "Execute") })
		conds := findCalls(cw, func(c *ssa.CallCommon) bool {
			return c.IsInvoke() && c.Signature().Results().Len() == 2 && lastResultIsError(c.Signature()) &&
				isBool(c.Signature().Results().At(0).Type())
		})
		if len(inner) != 1 || len(conds) != 1 {
			r.Ob(ri, key+"|shape", cw.Pos(), false, fmt.Sprintf("expected one inner Execute and one condition call, found %d/%d", len(inner), len(conds)))
		} else {
			in, cd := inner[0], conds[0]
			ok := onlyVia(cw, in.Block(), nilOf(isResult(cd, 1))) && onlyVia(cw, in.Block(), func(f Fact) bool { return f.Kind == FTrue && isResult(cd, 0)(f.V) })
			r.Ob(ri, key+"|inner-only-when-applicable", in.Pos(), ok, "the wrapped handler runs only when the condition evaluated without error to true")
			okArgs := len(in.Common().Args) == 2 && in.Common().Args[0] == cw.Params[1] && in.Common().Args[1] == cw.Params[2] &&
				cd.Common().Args[0] == cw.Params[1]
			r.Ob(ri, key+"|forwards-ctx-and-cause", in.Pos(), okArgs, "context and cause error are forwarded unchanged")
			for _, ret := range returnsOf(cw) {
				okRet := true
				msg := ""
				for _, s := range w.Sources(ret.Results[0], ret.Block()) {
					switch {
					case s.Kind == "call" && isResult(in, 0)(s.V):
					case s.Kind == "call" && isResult(cd, 1)(s.V):
						if !srcOnlyVia(cw, s, nonNilOf(isResult(cd, 1))) {
							okRet, msg = false, "condition error returned outside its != nil edge"
						}
					case s.Kind == "global":
						g := s.V.(*ssa.Global)
						sentinel = g
						// must be on the canExecute == false edge
						if !srcOnlyVia(cw, s, func(f Fact) bool { return f.Kind == FFalse && isResult(cd, 0)(f.V) }) {
							okRet, msg = false, "sentinel returned although the condition held"
						}
					case s.Kind == "nonnil":
					default:
						okRet, msg = false, "returns "+s.Kind+" ("+s.V.String()+"): only the wrapped handler's result, the condition error or the not-applicable sentinel are allowed"
					}
				}
				r.Ob(ri, key+"|return", ret.Pos(), okRet, msg)
			}
		}
	}
	pa.notApplicable = sentinel
	{
		key := w.FnName(ce)
		elems := findCalls(ce, func(c *ssa.CallCommon) bool { return invokeOf(c, pa.ehIface, "Execute") })
		if len(elems) == 0 {
			r.Ob(ri, key+"|shape", ce.Pos(), false, "no element Execute call found")
			return
		}
		isElemErr := func(v ssa.Value) bool {
			for _, k := range elems {
				if isResult(k, 0)(v) {
					return true
				}
			}
			return false
		}
		for _, k := range elems {
			okArgs := len(k.Common().Args) == 2 && k.Common().Args[0] == ce.Params[1] && k.Common().Args[1] == ce.Params[2]
			r.Ob(ri, key+"|forwards-ctx-and-cause", k.Pos(), okArgs, "context and pipeline error are forwarded unchanged to every handler")
		}
		for _, ret := range returnsOf(ce) {
			ok := true
			msg := ""
			for _, s := range w.Sources(ret.Results[0], ret.Block()) {
				switch {
				case s.Kind == "nil":
					if !srcOnlyVia(ce, s, nilOf(isElemErr)) {
						ok, msg = false, "nil is returned on a path that does not pass the == nil edge of a handler's Execute"
					}
				case s.Kind == "param" && s.V == ce.Params[2]:
				case s.Kind == "call" && isElemErr(s.V):
				case s.Kind == "nonnil":
				default:
					ok, msg = false, "returns "+s.Kind+" ("+s.V.String()+")"
				}
			}
			r.Ob(ri, key+"|return", ret.Pos(), ok, msg)
		}
		// a failing handler ends the pipeline with its error unless it reported 'not applicable'
		for _, k := range elems {
			cut := factCut(func(f Fact) bool {
				if f.Kind != FTrue {
					return false
				}
				c, _ := resultOfCall(f.V)
				if c == nil || callName(c.Common()) != "errors.Is" {
					return false
				}
				if !isResult(k, 0)(c.Common().Args[0]) {
					return false
				}
				for _, s := range w.Sources(c.Common().Args[1], c.Block()) {
					if s.Kind != "global" || (sentinel != nil && s.V != sentinel) {
						return false
					}
				}
				return true
			})
			ok := true
			msg := ""
			nEdges := 0
			for _, b := range ce.Blocks {
				for i := range b.Succs {
					isNN := false
					for _, f := range edgeFacts(b, i) {
						if f.Kind == FNonNil && isResult(k, 0)(f.V) {
							isNN = true
						}
					}
					if !isNN {
						continue
					}
					nEdges++
					seen := reachFromEdge(b, i, cut)
					for _, ret := range returnsOf(ce) {
						if !seen[ret.Block()] {
							continue
						}
						for _, s := range w.Sources(ret.Results[0], ret.Block()) {
							if !(s.Kind == "call" && isResult(k, 0)(s.V)) {
								ok, msg = false, "after a handler failed with an error other than 'not applicable', "+w.Pos(ret.Pos())+" can return something else than that error"
							}
						}
					}
				}
			}
			if nEdges == 0 {
				ok, msg = false, "handler error is never tested"
			}
			r.Ob(ri, key+"|failing-handler-ends-pipeline", k.Pos(), ok, msg)
		}
	}
}

func isBool(t types.Type) bool {
	b, ok := t.Underlying().(*types.Basic)
	return ok && b.Kind() == types.Bool
}

// ---- C01.5 / C04.1 ----------------------------------------------------------------------------

// c01StageComposites checks the subject-creator and subject-handler composites, the conditional
// subject handler and the CEL condition. With forC01 == false only the creator's fallback
// decision point (C04.1) is reported.
func c01StageComposites(w *World, r *Report, pa *pipelineAnchors, forC01 bool) {
	var ri *RuleInfo
	if forC01 {
		ri = r.Rule("C01.5", 10, "stage composites succeed only if every step succeeded (or was skipped / allowed to fail as configured)")
	} else {
		ri = r.Rule("C04.1", 3, "the creator composite consults a later authenticator only on a missing-credentials error or explicit opt-in of the failed one")
	}
	// --- subject creator composite
	sc := w.Method(pa.compSC, "Execute")
	if sc == nil {
		r.Undecided(ri, "subject creator composite Execute not found")
		return
	}
	r.Analysed(w.FnName(sc))
	key := w.FnName(sc)
	elems := findCalls(sc, func(c *ssa.CallCommon) bool { return invokeOf(c, pa.scIface, "Execute") })
	if len(elems) == 0 {
		r.Ob(ri, key+"|shape", sc.Pos(), false, "no element Execute call")
		return
	}
	isElemErr := func(v ssa.Value) bool {
		for _, k := range elems {
			if isResult(k, 1)(v) {
				return true
			}
		}
		return false
	}
	if forC01 {
		for _, k := range elems {
			r.Ob(ri, key+"|forwards-ctx", k.Pos(), k.Common().Args[0] == sc.Params[1], "the context is forwarded unchanged")
		}
		for _, ret := range returnsOf(sc) {
			ok, msg := true, ""
			subSrc := w.Sources(ret.Results[0], ret.Block())
			failureShaped := true
			for _, s := range subSrc {
				if s.Kind != "nil" {
					failureShaped = false
				}
			}
			for _, s := range w.Sources(ret.Results[1], ret.Block()) {
				switch {
				case s.Kind == "nil" && !failureShaped:
					if !srcOnlyVia(sc, s, nilOf(isElemErr)) {
						ok, msg = false, "a subject is returned with nil error on a path that does not pass the == nil edge of an authenticator's Execute"
					}
				case s.Kind == "nil" && failureShaped:
					// allowed only for the "loop never ran" initial value (empty composites are excluded by C01.7)
					for _, k := range elems {
						if reach(k.Block(), nil)[s.At] || k.Block() == s.At {
							ok, msg = false, "(nil subject, nil error) can be returned after an authenticator ran"
						}
					}
				case s.Kind == "call" && isElemErr(s.V):
				case s.Kind == "nonnil":
				default:
					ok, msg = false, "error result is "+s.Kind+" ("+s.V.String()+")"
				}
			}
			if !failureShaped {
				for _, s := range subSrc {
					good := false
					for _, k := range elems {
						if s.Kind == "call" && isResult(k, 0)(s.V) {
							good = true
						}
					}
					if !good {
						ok, msg = false, "the returned subject does not originate from an authenticator's result"
					}
				}
			}
			r.Ob(ri, key+"|return", ret.Pos(), ok, msg)
		}
	} else {
		errArg := w.Obj("internal/heimdall", "ErrArgument")
		for _, k := range elems {
			permitted := func(f Fact) bool {
				if f.Kind != FTrue {
					return false
				}
				c, _ := resultOfCall(f.V)
				if c == nil {
					return false
				}
				if callName(c.Common()) == "errors.Is" {
					if !isResult(k, 1)(c.Common().Args[0]) {
						return false
					}
					for _, s := range w.Sources(c.Common().Args[1], c.Block()) {
						g, ok := s.V.(*ssa.Global)
						if s.Kind != "global" || !ok || g.Object() != errArg {
							return false
						}
					}
					return true
				}
				if invokeOf(c.Common(), pa.scIface, "IsFallbackOnErrorAllowed") && bindParam(c.Common().Value) == k.Common().Value {
					return true
				}
				return false
			}
			ok, msg := true, ""
			n := 0
			for _, b := range sc.Blocks {
				for i := range b.Succs {
					isNN := false
					for _, f := range edgeFacts(b, i) {
						if f.Kind == FNonNil && isResult(k, 1)(f.V) {
							isNN = true
						}
					}
					if !isNN {
						continue
					}
					n++
					seen := reachFromEdgeP(b, i, permitted)
					for _, k2 := range elems {
						if seen[k2.Block()] {
							ok, msg = false, "after an authenticator failed, another one can run without errors.Is(err, ErrArgument) or IsFallbackOnErrorAllowed() of the failed one being true"
						}
					}
					for _, ret := range returnsOf(sc) {
						if !seen[ret.Block()] {
							continue
						}
						for _, s := range w.Sources(ret.Results[1], ret.Block()) {
							if s.At != nil && seen[s.At] && s.Kind == "nil" {
								ok, msg = false, "a rejected credential can end in a nil error"
							}
						}
					}
				}
			}
			if n == 0 {
				ok, msg = false, "the authenticator's error is never tested"
			}
			r.Ob(ri, key+"|fallback-decision", k.Pos(), ok, msg)
			// success returns immediately: from the == nil edge no further authenticator runs
			ok2 := true
			for _, b := range sc.Blocks {
				for i := range b.Succs {
					for _, f := range edgeFacts(b, i) {
						if f.Kind == FNil && isResult(k, 1)(f.V) {
							seen := reachFromEdge(b, i, nil)
							for _, k2 := range elems {
								if seen[k2.Block()] {
									ok2 = false
								}
							}
						}
					}
				}
			}
			r.Ob(ri, key+"|first-success-wins", k.Pos(), ok2, "after an authenticator succeeded no further authenticator may run")
			// ascending order: the element is taken from a range / ascending index over the receiver
			r.Ob(ri, key+"|ascending-order", k.Pos(), ascendingElem(k.Common().Value, sc.Params[0]), "authenticators are tried in slice order")
		}
		return
	}
	// --- subject handler composite
	sh := w.Method(pa.compSH, "Execute")
	if sh == nil {
		r.Undecided(ri, "subject handler composite Execute not found")
		return
	}
	r.Analysed(w.FnName(sh))
	key = w.FnName(sh)
	hel := findCalls(sh, func(c *ssa.CallCommon) bool { return invokeOf(c, pa.shIface, "Execute") })
	if len(hel) == 0 {
		r.Ob(ri, key+"|shape", sh.Pos(), false, "no element Execute call")
		return
	}
	for _, k := range hel {
		okArgs := k.Common().Args[0] == sh.Params[1] && k.Common().Args[1] == sh.Params[2]
		r.Ob(ri, key+"|forwards-ctx-and-subject", k.Pos(), okArgs, "context and subject are forwarded unchanged")
		cut := factCut(func(f Fact) bool {
			if f.Kind != FTrue {
				return false
			}
			c, _ := resultOfCall(f.V)
			return c != nil && invokeOf(c.Common(), pa.shIface, "ContinueOnError") && c.Common().Value == k.Common().Value
		})
		ok, msg := true, ""
		n := 0
		for _, b := range sh.Blocks {
			for i := range b.Succs {
				isNN := false
				for _, f := range edgeFacts(b, i) {
					if f.Kind == FNonNil && isResult(k, 0)(f.V) {
						isNN = true
					}
				}
				if !isNN {
					continue
				}
				n++
				seen := reachFromEdge(b, i, cut)
				for _, ret := range returnsOf(sh) {
					if !seen[ret.Block()] {
						continue
					}
					for _, s := range w.Sources(ret.Results[0], ret.Block()) {
						if !(s.Kind == "call" && isResult(k, 0)(s.V)) && s.Kind != "nonnil" {
							ok, msg = false, "after a step failed (and ContinueOnError() of that step is not true) "+w.Pos(ret.Pos())+" can return "+s.Kind
						}
					}
				}
				for _, k2 := range hel {
					if seen[k2.Block()] {
						ok, msg = false, "after a step failed without continue-on-error the next step can still run"
					}
				}
			}
		}
		if n == 0 {
			ok, msg = false, "step error is never tested"
		}
		r.Ob(ri, key+"|failing-step-ends-stage", k.Pos(), ok, msg)
	}
	for _, ret := range returnsOf(sh) {
		ok, msg := true, ""
		for _, s := range w.Sources(ret.Results[0], ret.Block()) {
			switch {
			case s.Kind == "nil", s.Kind == "nonnil":
			case s.Kind == "call":
				good := false
				for _, k := range hel {
					if isResult(k, 0)(s.V) {
						good = true
					}
				}
				if !good {
					ok, msg = false, "returns the result of an unrelated call"
				}
			default:
				ok, msg = false, "returns "+s.Kind
			}
		}
		r.Ob(ri, key+"|return", ret.Pos(), ok, msg)
	}
	// --- conditional subject handler
	ch := w.Method(pa.condSH, "Execute")
	if ch == nil {
		r.Undecided(ri, "conditional subject handler Execute not found")
		return
	}
	r.Analysed(w.FnName(ch))
	key = w.FnName(ch)
	inner := findCalls(ch, func(c *ssa.CallCommon) bool { return invokeOf(c, pa.shIface, "Execute") })
	conds := findCalls(ch, func(c *ssa.CallCommon) bool {
		return c.IsInvoke() && c.Signature().Results().Len() == 2 && lastResultIsError(c.Signature()) &&
			isBool(c.Signature().Results().At(0).Type()) && len(c.Args) > 0 && c.Args[0] == ch.Params[1]
	})
	if len(inner) != 1 || len(conds) != 1 {
		r.Ob(ri, key+"|shape", ch.Pos(), false, fmt.Sprintf("expected one inner Execute and one condition call, found %d/%d", len(inner), len(conds)))
	} else {
		in, cd := inner[0], conds[0]
		okArgs := in.Common().Args[0] == ch.Params[1] && in.Common().Args[1] == ch.Params[2] && len(cd.Common().Args) == 2 && cd.Common().Args[1] == ch.Params[2]
		r.Ob(ri, key+"|forwards-ctx-and-subject", in.Pos(), okArgs, "context and subject are forwarded unchanged to condition and step")
		for _, ret := range returnsOf(ch) {
			ok, msg := true, ""
			for _, s := range w.Sources(ret.Results[0], ret.Block()) {
				switch {
				case s.Kind == "call" && isResult(in, 0)(s.V):
				case s.Kind == "call" && isResult(cd, 1)(s.V):
				case s.Kind == "nonnil":
				case s.Kind == "nil":
					// skipping is allowed only if the condition evaluated without error to false
					if !srcOnlyVia(ch, s, nilOf(isResult(cd, 1))) || !srcOnlyVia(ch, s, func(f Fact) bool { return f.Kind == FFalse && isResult(cd, 0)(f.V) }) {
						ok, msg = false, "the step is skipped (nil returned) although the condition did not evaluate to false without error"
					}
				default:
					ok, msg = false, "returns "+s.Kind
				}
			}
			r.Ob(ri, key+"|return", ret.Pos(), ok, msg)
		}
		// condition error edge must return that error
		okE := true
		for _, b := range ch.Blocks {
			for i := range b.Succs {
				for _, f := range edgeFacts(b, i) {
					if f.Kind == FNonNil && isResult(cd, 1)(f.V) {
						seen := reachFromEdge(b, i, nil)
						if seen[in.Block()] {
							okE = false
						}
						for _, ret := range returnsOf(ch) {
							if seen[ret.Block()] {
								for _, s := range w.Sources(ret.Results[0], ret.Block()) {
									if !(s.Kind == "call" && isResult(cd, 1)(s.V)) && s.Kind != "nonnil" {
										okE = false
									}
								}
							}
						}
					}
				}
			}
		}
		r.Ob(ri, key+"|condition-error-fails-step", cd.Pos(), okE, "a condition that cannot be evaluated must fail the step with its error")
	}
	// --- execution conditions: (true, nil) only if evaluation succeeded
	ecI := w.Iface("internal/rules", "executionCondition")
	if ecI == nil {
		// find by structure: interface with two (bool, error) methods taking heimdall.Context first
		sc := w.P("internal/rules").Types.Scope()
		for _, n := range sc.Names() {
			if tn, ok := sc.Lookup(n).(*types.TypeName); ok {
				if it, ok := tn.Type().Underlying().(*types.Interface); ok && it.NumMethods() == 2 {
					good := true
					for i := 0; i < 2; i++ {
						sg := it.Method(i).Type().(*types.Signature)
						if sg.Results().Len() != 2 || !isBool(sg.Results().At(0).Type()) {
							good = false
						}
					}
					if good {
						ecI = it
					}
				}
			}
		}
	}
	if ecI == nil {
		r.Undecided(ri, "execution condition interface not found")
		return
	}
	for _, t := range w.Implementors(ecI) {
		for i := 0; i < ecI.NumMethods(); i++ {
			fn := w.Method(t, ecI.Method(i).Name())
			if fn == nil || fn.Blocks == nil {
				continue
			}
			r.Analysed(w.FnName(fn))
			key := w.FnName(fn)
			evals := findCalls(fn, func(c *ssa.CallCommon) bool { return lastResultIsError(c.Signature()) && methodCallNamed(c, "Eval") })
			for _, ret := range returnsOf(fn) {
				c, isConst := ret.Results[0].(*ssa.Const)
				canBeTrue := !isConst || (c.Value != nil && c.Value.String() == "true")
				if !canBeTrue {
					r.Ob(ri, key+"|return-false", ret.Pos(), true, "")
					continue
				}
				if len(evals) == 0 {
					// unconditional condition (default): constant true with nil error is its contract
					_, isStructless := t.Underlying().(*types.Struct)
					r.Ob(ri, key+"|return-true-unconditional", ret.Pos(), isStructless && t.Underlying().(*types.Struct).NumFields() == 0, "a condition without expression may be constantly true only if it carries no state")
					continue
				}
				ok := false
				for _, e := range evals {
					if onlyVia(fn, ret.Block(), nilOf(isResult(e, errIdx(e)))) {
						ok = true
					}
				}
				r.Ob(ri, key+"|return-true-only-after-eval", ret.Pos(), ok, "true may be returned only through the == nil edge of the expression evaluation")
			}
		}
	}
}

// ascendingElem: v is the element of a `range` (or ascending index loop) over the slice `over`.
func ascendingElem(v ssa.Value, over ssa.Value) bool {
	u, ok := v.(*ssa.UnOp)
	if !ok {
		return false
	}
	ia, ok := u.X.(*ssa.IndexAddr)
	if !ok {
		// range over a slice value yields Index for arrays; slices use IndexAddr
		return false
	}
	if stripConv(ia.X) != stripConv(over) {
		return false
	}
	// index is a phi: initial -1 / 0 and +1 increments
	return ascendingIndex(ia.Index)
}

func ascendingIndex(idx ssa.Value) bool {
	switch x := idx.(type) {
	case *ssa.BinOp:
		// i + 1 where i is the loop phi
		if x.Op.String() == "+" {
			if c, ok := constInt(x.Y); ok && c == 1 {
				if p, ok := x.X.(*ssa.Phi); ok {
					return phiAscending(p, x)
				}
			}
		}
	case *ssa.Phi:
		for _, e := range x.Edges {
			if b, ok := e.(*ssa.BinOp); ok && b.Op.String() == "+" && b.X == x {
				if c, ok := constInt(b.Y); ok && c == 1 {
					continue
				}
				return false
			}
			if c, ok := constInt(e); ok && c == 0 {
				continue
			}
			return false
		}
		return true
	}
	return false
}

func phiAscending(p *ssa.Phi, inc *ssa.BinOp) bool {
	for _, e := range p.Edges {
		if e == inc {
			continue
		}
		if c, ok := constInt(e); ok && (c == -1 || c == 0) {
			continue
		}
		return false
	}
	return true
}

// ---- C01.6 -----------------------------------------------------------------------------------

func c01RuleExecute(w *World, r *Report, pa *pipelineAnchors) {
	ri := r.Rule("C01.6", 10, "rule execution succeeds only after the creator, handler and finalizer stages succeeded, in that order; failures go through the error pipeline")
	fn := w.Method(pa.ruleImpl, "Execute")
	if fn == nil {
		r.Undecided(ri, "Execute of the rule implementation not found")
		return
	}
	r.Analysed(w.FnName(fn))
	key := w.FnName(fn)
	recv := fn.Params[0]
	ctxP := fn.Params[1]
	fieldCall := func(c *ssa.CallCommon, t *types.Named) bool {
		if !methodCallNamed(c, "Execute") {
			return false
		}
		rv := callRecv(c)
		if rv == nil || !types.Identical(rv.Type(), t) {
			return false
		}
		b, _ := fieldLoad(rv)
		return b == recv
	}
	creators := findCalls(fn, func(c *ssa.CallCommon) bool { return fieldCall(c, pa.compSC) })
	handlers := findCalls(fn, func(c *ssa.CallCommon) bool { return fieldCall(c, pa.compSH) })
	ehs := findCalls(fn, func(c *ssa.CallCommon) bool { return fieldCall(c, pa.compEH) })
	// index of the error result of an error-pipeline call (0 for eh.Execute itself)
	ehRes := map[*ssa.Call]int{}
	// a small helper of the rule ("fail") may stand for the error pipeline: a method of the same
	// receiver that does nothing but return (nil, r.eh.Execute(ctx, err)) for its (ctx, err) parameters
	for _, ci := range callsIn(fn) {
		c, ok := ci.(*ssa.Call)
		if !ok {
			continue
		}
		h := c.Common().StaticCallee()
		if h == nil || h.Blocks == nil || h == fn || h.Signature.Recv() == nil || derefNamed(h.Signature.Recv().Type()) != pa.ruleImpl || len(c.Common().Args) != 3 || c.Common().Args[0] != ssa.Value(recv) || len(h.Params) != 3 {
			continue
		}
		inner := findCalls(h, func(cc *ssa.CallCommon) bool {
			if !methodCallNamed(cc, "Execute") {
				return false
			}
			rv := callRecv(cc)
			if rv == nil || !types.Identical(rv.Type(), pa.compEH) {
				return false
			}
			b, _ := fieldLoad(rv)
			return b == ssa.Value(h.Params[0])
		})
		if len(inner) != 1 || len(callsIn(h)) != 1 || inner[0].Common().Args[1] != ssa.Value(h.Params[1]) || inner[0].Common().Args[2] != ssa.Value(h.Params[2]) {
			continue
		}
		okRet := len(returnsOf(h)) == 1
		for _, ret := range returnsOf(h) {
			n := len(ret.Results)
			if n == 0 || !isResult(inner[0], 0)(ret.Results[n-1]) {
				okRet = false
			}
			for _, rv := range ret.Results[:n-1] {
				if k, isK := rv.(*ssa.Const); !isK || k.Value != nil {
					okRet = false
				}
			}
		}
		if okRet {
			ehs = append(ehs, c)
			ehRes[c] = h.Signature.Results().Len() - 1
			r.Analysed(w.FnName(h))
		}
	}
	if len(creators) != 1 || len(handlers) != 2 || len(ehs) == 0 {
		r.Ob(ri, key+"|shape", fn.Pos(), false, fmt.Sprintf("expected 1 creator, 2 handler-stage and >=1 error-pipeline calls on receiver fields, found %d/%d/%d", len(creators), len(handlers), len(ehs)))
		return
	}
	stages := []*ssa.Call{creators[0], handlers[0], handlers[1]}
	if dominatesInstr(handlers[1], handlers[0]) {
		stages[1], stages[2] = handlers[1], handlers[0]
	}
	_, f1 := fieldLoad(callRecv(stages[1].Common()))
	_, f2 := fieldLoad(callRecv(stages[2].Common()))
	r.Ob(ri, key+"|distinct-stages", stages[2].Pos(), f1 != f2, "the two handler stages must execute two different pipeline fields")
	r.Ob(ri, key+"|order", stages[2].Pos(), dominatesInstr(stages[0], stages[1]) && dominatesInstr(stages[1], stages[2]), "creator, then handlers, then finalizers")
	for i, s := range stages {
		r.Ob(ri, fmt.Sprintf("%s|stage%d-ctx", key, i), s.Pos(), s.Common().Args[1] == ctxP, "the context is forwarded unchanged")
		if i > 0 {
			r.Ob(ri, fmt.Sprintf("%s|stage%d-subject", key, i), s.Pos(), isResult(stages[0], 0)(s.Common().Args[2]), "the subject handed to the stage is the creator's result")
			for j := 0; j < i; j++ {
				ok := onlyVia(fn, s.Block(), nilOf(isResult(stages[j], errIdx(stages[j]))))
				r.Ob(ri, fmt.Sprintf("%s|stage%d-after-stage%d-succeeded", key, i, j), s.Pos(), ok, "a stage runs only through the == nil edge of the previous stage's error")
			}
		}
	}
	isStageErr := func(v ssa.Value) (int, bool) {
		for i, s := range stages {
			if isResult(s, errIdx(s))(v) {
				return i, true
			}
		}
		return -1, false
	}
	for _, e := range ehs {
		ok, msg := e.Common().Args[1] == ctxP, "the context is forwarded unchanged to the error pipeline"
		r.Ob(ri, key+"|error-pipeline-ctx", e.Pos(), ok, msg)
		ok, msg = true, ""
		arg := e.Common().Args[2]
		argNonNil := onlyVia(fn, e.Block(), nonNilOf(func(v ssa.Value) bool { return v == arg }))
		for _, s := range w.Sources(arg, e.Block()) {
			i, is := isStageErr(s.V)
			if s.Kind != "call" || !is {
				ok, msg = false, "the error pipeline receives something else than a stage error"
				continue
			}
			if !argNonNil && !onlyVia(fn, e.Block(), nonNilOf(isResult(stages[i], errIdx(stages[i])))) {
				ok, msg = false, "the error pipeline runs outside the != nil edge of the stage error it receives"
			}
		}
		r.Ob(ri, key+"|error-pipeline-on-stage-error", e.Pos(), ok, msg)
	}
	for _, ret := range returnsOf(fn) {
		ok, msg := true, ""
		successShaped := false
		for _, s := range w.Sources(ret.Results[1], ret.Block()) {
			switch {
			case s.Kind == "nil":
				successShaped = true
				for i, st := range stages {
					if !srcOnlyVia(fn, s, nilOf(isResult(st, errIdx(st)))) {
						ok, msg = false, fmt.Sprintf("nil error returned on a path that does not pass the == nil edge of stage %d", i)
					}
				}
			case s.Kind == "nonnil":
			case s.Kind == "call":
				good := false
				for _, e := range ehs {
					if isResult(e, ehRes[e])(s.V) {
						good = true
					}
				}
				if !good {
					ok, msg = false, "returns an error that is neither fresh nor the error pipeline's result: "+s.V.String()
				}
			default:
				ok, msg = false, "error result is "+s.Kind
			}
		}
		if !successShaped {
			for _, s := range w.Sources(ret.Results[0], ret.Block()) {
				if s.Kind == "call" {
					// the (always nil) first result of the error-pipeline helper
					fromHelper := false
					for _, e := range ehs {
						if ehRes[e] > 0 && isResult(e, 0)(s.V) {
							fromHelper = true
						}
					}
					if fromHelper {
						continue
					}
				}
				if s.Kind != "nil" {
					ok, msg = false, "a backend is returned together with an error"
				}
			}
		}
		r.Ob(ri, key+"|return", ret.Pos(), ok, msg)
	}
	// rule executor(s)
	exI := w.Iface("internal/rules/rule", "Executor")
	repoI := w.Named("internal/rules/rule", "Repository")
	ruleI := w.Named("internal/rules/rule", "Rule")
	if exI == nil || repoI == nil || ruleI == nil {
		r.Undecided(ri, "rule.Executor/Repository/Rule not found")
		return
	}
	for _, t := range w.Implementors(exI) {
		if t == pa.ruleImpl {
			continue
		}
		ex := w.Method(t, "Execute")
		if ex == nil || ex.Blocks == nil {
			continue
		}
		r.Analysed(w.FnName(ex))
		key := w.FnName(ex)
		finds := findCalls(ex, func(c *ssa.CallCommon) bool { return invokeOf(c, repoI, "FindRule") })
		execs := findCalls(ex, func(c *ssa.CallCommon) bool { return invokeOf(c, ruleI, "Execute") })
		if len(finds) != 1 || len(execs) != 1 {
			r.Ob(ri, key+"|shape", ex.Pos(), false, "expected one FindRule and one Rule.Execute call")
			continue
		}
		fd, rx := finds[0], execs[0]
		ok := isResult(fd, 0)(rx.Common().Value) && rx.Common().Args[0] == ex.Params[1] && fd.Common().Args[0] == ex.Params[1] &&
			onlyVia(ex, rx.Block(), nilOf(isResult(fd, 1)))
		r.Ob(ri, key+"|executes-found-rule", rx.Pos(), ok, "the rule found for this context is executed with this context, only if FindRule succeeded")
		for _, ret := range returnsOf(ex) {
			ok, msg := true, ""
			for _, s := range w.Sources(ret.Results[1], ret.Block()) {
				switch {
				case s.Kind == "call" && isResult(rx, 1)(s.V):
					if !isResult(rx, 0)(ret.Results[0]) {
						ok, msg = false, "Rule.Execute's error is paired with a different backend"
					}
				case s.Kind == "call" && isResult(fd, 1)(s.V):
					if !srcOnlyVia(ex, s, nonNilOf(isResult(fd, 1))) {
						ok, msg = false, "FindRule's error is returned outside its != nil edge"
					}
				case s.Kind == "nonnil":
				default:
					ok, msg = false, "error result is "+s.Kind
				}
			}
			r.Ob(ri, key+"|return", ret.Pos(), ok, msg)
		}
	}
}

// ---- C01.7 / C14.4 ----------------------------------------------------------------------------

// ruleLiteralAllocs finds the allocations of the rule implementation struct in fn.
func ruleLiteralAllocs(fn *ssa.Function, t *types.Named) []*ssa.Alloc {
	var out []*ssa.Alloc
	collect := func(g *ssa.Function) {
		eachInstr(g, func(in ssa.Instruction) {
			if a, ok := in.(*ssa.Alloc); ok {
				if p, ok := a.Type().(*types.Pointer); ok && types.Identical(p.Elem(), t) {
					out = append(out, a)
				}
			}
		})
	}
	collect(fn)
	if len(out) > 0 || gWorld == nil {
		return out
	}
	// the literal moved into a constructor helper of the same package that only fn calls: the values
	// stored into it are the helper's parameters, which stand for the arguments (storedField, bindParam)
	for _, ci := range callsIn(fn) {
		callee := ci.Common().StaticCallee()
		if callee == nil || callee.Blocks == nil || callee == fn || fnPkgPath(callee) != fnPkgPath(fn) {
			continue
		}
		if edges := gWorld.CG().In[callee]; len(edges) != 1 || edges[0].Kind != "static" {
			continue
		}
		collect(callee)
	}
	return out
}

// storedField returns the value stored into field name of the struct allocated by a.
func storedField(a *ssa.Alloc, name string) (ssa.Value, *ssa.Store) {
	refs := a.Referrers()
	if refs == nil {
		return nil, nil
	}
	for _, rf := range *refs {
		fa, ok := rf.(*ssa.FieldAddr)
		if !ok {
			continue
		}
		f := fieldOf(fa.X.Type(), fa.Field)
		if f == nil || f.Name() != name {
			continue
		}
		if fr := fa.Referrers(); fr != nil {
			for _, u := range *fr {
				if st, ok := u.(*ssa.Store); ok && st.Addr == fa {
					return bindParam(st.Val), st
				}
			}
		}
	}
	return nil, nil
}

// fieldOfType returns the names of the fields of struct t whose type is ft.
func fieldsOfType(t *types.Named, ft types.Type) []string {
	st, ok := t.Underlying().(*types.Struct)
	if !ok {
		return nil
	}
	var out []string
	for i := 0; i < st.NumFields(); i++ {
		if types.Identical(st.Field(i).Type(), ft) {
			out = append(out, st.Field(i).Name())
		}
	}
	return out
}

func c01HasAuthenticator(w *World, r *Report, pa *pipelineAnchors, id string) {
	ri := r.Rule(id, 2, "a rule object is created only with a non-empty authenticator stage")
	scFields := fieldsOfType(pa.ruleImpl, pa.compSC)
	if len(scFields) != 1 {
		r.Undecided(ri, "the rule implementation must have exactly one subject-creator field")
		return
	}
	n := 0
	for _, fn := range w.Funcs {
		if fnPkgPath(fn) != modPath+"/internal/rules" || w.isMockFn(fn) {
			continue
		}
		for _, a := range ruleLiteralAllocs(fn, pa.ruleImpl) {
			n++
			r.Analysed(w.FnName(fn))
			key := w.FnName(fn) + "|rule-literal"
			v, st := storedField(a, scFields[0])
			if v == nil {
				r.Ob(ri, key, a.Pos(), false, "the authenticator stage of the rule literal is never set")
				continue
			}
			// guard: len(v) == 0 false edge / len(v) != 0 true edge, on the same value
			ok := onlyVia(fn, st.Block(), func(f Fact) bool {
				if f.Kind != FCmp {
					return false
				}
				lenOf := func(x ssa.Value) bool {
					c, ok := x.(*ssa.Call)
					if !ok {
						return false
					}
					b, ok := c.Call.Value.(*ssa.Builtin)
					return ok && b.Name() == "len" && sameValue(c.Call.Args[0], v)
				}
				zero := func(x ssa.Value) bool { c, ok := constInt(x); return ok && c == 0 }
				one := func(x ssa.Value) bool { c, ok := constInt(x); return ok && c == 1 }
				switch f.Op.String() {
				case "!=", ">":
					return lenOf(f.X) && zero(f.Y)
				case ">=":
					return lenOf(f.X) && one(f.Y)
				case "<":
					return zero(f.X) && lenOf(f.Y)
				}
				return false
			})
			r.Ob(ri, key, a.Pos(), ok, "the rule literal must be reachable only through len(authenticators) != 0 for the value stored into its authenticator stage")
		}
	}
	if n == 0 {
		r.Undecided(ri, "no rule literal found")
	}
}

// ---- C01.8 -----------------------------------------------------------------------------------

func c01Recovery(w *World, r *Report) {
	ri := r.Rule("C01.8", 4, "panics in the pipeline are recovered and answered as internal error")
	// HTTP: every function that wraps service.NewHandler in an alice chain must include recovery.New
	newHandler := modPath + "/internal/handler/service.NewHandler"
	recNew := modPath + "/internal/handler/middleware/http/recovery.New"
	for _, fn := range w.Funcs {
		if w.isMockFn(fn) {
			continue
		}
		hs := findCalls(fn, named(newHandler))
		if len(hs) == 0 {
			continue
		}
		r.Analysed(w.FnName(fn))
		key := w.FnName(fn)
		for _, h := range hs {
			// the handler value must be the argument of (alice.Chain).Then whose chain comes from alice.New(... recovery.New(eh) ...)
			var then *ssa.Call
			if refs := h.Referrers(); refs != nil {
				for _, u := range *refs {
					if c, ok := u.(*ssa.Call); ok && strings.HasSuffix(callName(c.Common()), "alice.Chain.Then") {
						then = c
					}
				}
			}
			if then == nil {
				r.Ob(ri, key+"|chain", h.Pos(), false, "the service handler is not wrapped by an alice chain")
				continue
			}
			chain, _ := resultOfCall(then.Common().Args[0])
			ok := false
			var recCall *ssa.Call
			if chain != nil && strings.HasSuffix(callName(chain.Common()), "alice.New") {
				for _, el := range sliceLiteralElems(chain.Common().Args[0]) {
					if c, _ := resultOfCall(stripConv(el)); c != nil && callName(c.Common()) == recNew {
						ok = true
						recCall = c
					}
				}
			}
			r.Ob(ri, key+"|recovery-in-chain", h.Pos(), ok, "the chain around the service handler must contain recovery.New(...)")
			if recCall != nil {
				// same error handler instance is fine but not required
				_ = recCall
			}
		}
	}
	// the recovery middleware itself
	if rn := w.Func("internal/handler/middleware/http/recovery", "New"); rn != nil {
		ok := false
		var where *ssa.Function
		for _, f := range withClosures(rn) {
			// a deferred closure that calls recover and HandleError through the != nil edge
			for _, c := range callsIn(f) {
				d, isDefer := c.(*ssa.Defer)
				if !isDefer {
					continue
				}
				df := closureFn(d.Call.Value)
				if df == nil {
					continue
				}
				var rec *ssa.Call
				for _, cc := range findCalls(df, func(c *ssa.CallCommon) bool { return callName(c) == "builtin.recover" }) {
					rec = cc
				}
				if rec == nil {
					continue
				}
				for _, he := range findCalls(df, func(c *ssa.CallCommon) bool { return c.IsInvoke() && c.Method.Name() == "HandleError" }) {
					// every path with a non-nil recover value reaches HandleError: HandleError block is reachable and
					// the nil-edge is the only way around it
					viaNN := onlyVia(df, he.Block(), nonNilOf(func(v ssa.Value) bool { return v == rec }))
					internal := false
					for _, g := range w.Sources(he.Common().Args[2], he.Block()) {
						_ = g
					}
					for _, cc := range findCalls(df, func(c *ssa.CallCommon) bool {
						return strings.HasPrefix(callName(c), modPath+"/internal/x/errorchain.New")
					}) {
						if gl, ok := stripLoad(cc.Common().Args[0]).(*ssa.Global); ok && gl.Object() == w.Obj("internal/heimdall", "ErrInternal") {
							internal = true
						}
					}
					if viaNN && internal {
						ok = true
						where = df
					}
				}
			}
		}
		r.Ob(ri, "recovery.New|recovers-and-reports-internal-error", rn.Pos(), ok, "recovery middleware must defer a function that recovers and hands an ErrInternal chain to HandleError")
		if where != nil {
			r.Analysed(w.FnName(where))
		}
	} else {
		r.Undecided(ri, "recovery.New not found")
	}
	// gRPC: recovery interceptor first in the unary chain
	found := false
	for _, fn := range w.Funcs {
		if w.isMockFn(fn) {
			continue
		}
		for _, c := range findCalls(fn, func(c *ssa.CallCommon) bool { return callName(c) == "google.golang.org/grpc.ChainUnaryInterceptor" }) {
			found = true
			r.Analysed(w.FnName(fn))
			key := w.FnName(fn) + "|ChainUnaryInterceptor"
			first := firstSliceElem(w, c.Common().Args[0])
			ok := false
			if fc, _ := resultOfCall(stripConv(first)); fc != nil && strings.HasSuffix(callName(fc.Common()), "interceptors/recovery.UnaryServerInterceptor") {
				ok = true
			}
			r.Ob(ri, key+"|recovery-first", c.Pos(), ok, "the recovery interceptor must be element 0 of the unary interceptor chain")
		}
	}
	if !found {
		r.Undecided(ri, "grpc.ChainUnaryInterceptor call not found")
	}
}

func stripLoad(v ssa.Value) ssa.Value {
	if u, ok := v.(*ssa.UnOp); ok && u.Op.String() == "*" {
		return u.X
	}
	return v
}

// sliceLiteralElems returns the values stored into the backing array of a slice literal
// (`[]T{a, b, c}` or variadic arguments), in index order; nil if v is not such a literal.
func sliceLiteralElems(v ssa.Value) []ssa.Value {
	sl, ok := v.(*ssa.Slice)
	if !ok {
		return nil
	}
	al, ok := sl.X.(*ssa.Alloc)
	if !ok {
		return nil
	}
	m := map[int64]ssa.Value{}
	max := int64(-1)
	if refs := al.Referrers(); refs != nil {
		for _, u := range *refs {
			ia, ok := u.(*ssa.IndexAddr)
			if !ok {
				continue
			}
			idx, ok := constInt(ia.Index)
			if !ok {
				continue
			}
			if ir := ia.Referrers(); ir != nil {
				for _, s := range *ir {
					if st, ok := s.(*ssa.Store); ok && st.Addr == ia {
						m[idx] = st.Val
						if idx > max {
							max = idx
						}
					}
				}
			}
		}
	}
	out := make([]ssa.Value, max+1)
	for i := range out {
		out[i] = m[int64(i)]
	}
	return out
}

// firstSliceElem follows a slice value back through appends / phis / local variables to its
// literal and returns element 0 (nil if not determinable or ambiguous).
func firstSliceElem(w *World, v ssa.Value) ssa.Value {
	var first ssa.Value
	amb := false
	seen := map[ssa.Value]bool{}
	var walk func(v ssa.Value)
	walk = func(v ssa.Value) {
		if v == nil || seen[v] {
			return
		}
		seen[v] = true
		switch x := v.(type) {
		case *ssa.Phi:
			for _, e := range x.Edges {
				walk(e)
			}
		case *ssa.Call:
			if b, ok := x.Call.Value.(*ssa.Builtin); ok && b.Name() == "append" {
				walk(x.Call.Args[0])
				return
			}
			amb = true
		case *ssa.Slice:
			if _, isAlloc := x.X.(*ssa.Alloc); isAlloc {
				el := sliceLiteralElems(x)
				if len(el) == 0 {
					amb = true
					return
				}
				if first != nil && first != el[0] {
					amb = true
				}
				first = el[0]
				return
			}
			walk(x.X)
		case *ssa.UnOp:
			for _, o := range w.Origins(v, nil) {
				if o != v {
					walk(o)
				} else {
					amb = true
				}
			}
		default:
			amb = true
		}
	}
	walk(v)
	if amb {
		return nil
	}
	return first
}

// ---- C01.5b: "condition evaluated to false" versus "condition cannot be evaluated" -------------------

// c01EvalErrorClass: the execution conditions treat one error class (tested with errors.Is against
// a fresh value of a type) as "evaluated to false => skip the step". The expression evaluator may
// produce that class only after the evaluation itself succeeded; an evaluation failure must keep
// its own error so that the step fails.
func c01EvalErrorClass(w *World, r *Report) {
	ri := r.Rule("C01.5b", 2, "the 'expression evaluated to false' error class is produced only after a successful evaluation; an evaluation failure is never reported as 'false'")
	// the class: the type whose fresh value is the errors.Is target in the condition implementations
	var class types.Type
	for _, fn := range w.Funcs {
		if fnPkgPath(fn) != modPath+"/internal/rules" || w.isMockFn(fn) {
			continue
		}
		for _, c := range findCalls(fn, named("errors.Is")) {
			for _, o := range w.Origins(c.Common().Args[1], nil) {
				if a, ok := o.(*ssa.Alloc); ok {
					if n := derefNamed(a.Type()); n != nil && strings.HasSuffix(n.Obj().Pkg().Path(), "/cellib") {
						class = a.Type()
					}
				}
			}
		}
	}
	if class == nil {
		r.Undecided(ri, "the error class tested by the execution conditions was not found")
		return
	}
	n := 0
	for _, fn := range w.Funcs {
		if !strings.HasSuffix(fnPkgPath(fn), "/cellib") || w.isMockFn(fn) || fn.Parent() != nil {
			continue
		}
		var allocs []*ssa.Alloc
		eachInstr(fn, func(in ssa.Instruction) {
			if a, ok := in.(*ssa.Alloc); ok && a.Heap && types.Identical(a.Type(), class) {
				allocs = append(allocs, a)
			}
		})
		if len(allocs) == 0 || !lastResultIsError(fn.Signature) {
			continue
		}
		r.Analysed(w.FnName(fn))
		// fallible calls of this function (the evaluation)
		var evals []*ssa.Call
		for _, c := range findCalls(fn, func(c *ssa.CallCommon) bool { return lastResultIsError(c.Signature()) }) {
			evals = append(evals, c)
		}
		for _, ret := range returnsOf(fn) {
			last := ret.Results[len(ret.Results)-1]
			for _, s := range w.Sources(last, ret.Block()) {
				isClass := false
				if mi, ok := s.V.(*ssa.MakeInterface); ok {
					if a, ok := mi.X.(*ssa.Alloc); ok && types.Identical(a.Type(), class) {
						isClass = true
					}
				}
				if !isClass && s.Kind != "nil" {
					continue
				}
				n++
				ok := true
				for _, e := range evals {
					if !srcOnlyVia(fn, s, nilOf(isResult(e, errIdx(e)))) {
						ok = false
					}
				}
				what := "'evaluated to false'"
				if s.Kind == "nil" {
					what = "success"
				}
				r.Ob(ri, w.FnName(fn)+"|"+retKey(w, fn, ret)+"|"+s.Kind, ret.Pos(), ok && len(evals) > 0, "the evaluator reports "+what+" on a path where the evaluation itself failed: a condition that cannot be evaluated would silently skip (or run) the step")
			}
		}
	}
	if n == 0 {
		r.Undecided(ri, "no evaluator producing the error class found")
	}
}
