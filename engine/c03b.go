package main

import (
	"fmt"
	"go/token"
	"sort"
	"strings"

	"golang.org/x/tools/go/ssa"
)

// ---- C03.7: glob delimiters ------------------------------------------------------------------------
//
// A glob expression on a host is compiled with '.' as its only delimiter, one on a captured path
// value with '/' as its only delimiter (documented in regular_rule.adoc): with any other set `*`
// stops somewhere else and the condition holds for different requests. Decided by evaluating, per
// constructor of the two matcher lists, which constant delimiters can reach glob.Compile along the
// static call chains that start in it (parameters are bound to the arguments of each call).

type callCtx struct {
	fn     *ssa.Function
	args   []ssa.Value
	parent *callCtx
}

func (c *callCtx) resolve(v ssa.Value) (ssa.Value, *callCtx) {
	for c != nil {
		p, ok := v.(*ssa.Parameter)
		if !ok || p.Parent() != c.fn || c.parent == nil && c.args == nil {
			return v, c
		}
		idx := -1
		for i, q := range c.fn.Params {
			if q == p {
				idx = i
			}
		}
		if idx < 0 || idx >= len(c.args) {
			return v, c
		}
		v = c.args[idx]
		c = c.parent
	}
	return v, c
}

// delimsOf evaluates a delimiter argument (a rune, or the variadic slice of runes) to constants.
func delimsOf(v ssa.Value, ctx *callCtx, out map[int64]bool, depth int) bool {
	if depth > 8 {
		return false
	}
	v, ctx = ctx.resolve(stripConv(v))
	switch x := v.(type) {
	case *ssa.Const:
		if x.Value == nil {
			return true // nil slice: no delimiter
		}
		if k, ok := constInt(x); ok {
			out[k] = true
			return true
		}
		return false
	case *ssa.Slice:
		els := sliceLiteralElems(x)
		if els == nil {
			return delimsOf(x.X, ctx, out, depth+1)
		}
		for _, e := range els {
			if e == nil || !delimsOf(e, ctx, out, depth+1) {
				return false
			}
		}
		return true
	case *ssa.Phi:
		for _, e := range x.Edges {
			if !delimsOf(e, ctx, out, depth+1) {
				return false
			}
		}
		return true
	case *ssa.Convert:
		return delimsOf(x.X, ctx, out, depth+1)
	}
	return false
}

func globDelimiters(w *World, root *ssa.Function) (set []int64, sites int, ok bool) {
	out := map[int64]bool{}
	ok = true
	var walk func(ctx *callCtx, depth int)
	walk = func(ctx *callCtx, depth int) {
		if depth > 5 {
			return
		}
		for _, c := range callsIn(ctx.fn) {
			n := callName(c.Common())
			if strings.HasSuffix(n, "gobwas/glob.Compile") || strings.HasSuffix(n, "gobwas/glob.MustCompile") {
				sites++
				args := c.Common().Args
				if len(args) < 2 || !delimsOf(args[1], ctx, out, 0) {
					ok = false
				}
				continue
			}
			callee := c.Common().StaticCallee()
			if callee == nil || callee.Blocks == nil || !w.inModule(callee) || callee == ctx.fn {
				continue
			}
			rec := false
			for p := ctx; p != nil; p = p.parent {
				if p.fn == callee {
					rec = true
				}
			}
			if rec {
				continue
			}
			walk(&callCtx{fn: callee, args: c.Common().Args, parent: ctx}, depth+1)
		}
	}
	walk(&callCtx{fn: root}, 0)
	for k := range out {
		set = append(set, k)
	}
	sort.Slice(set, func(i, j int) bool { return set[i] < set[j] })
	return
}

func c03GlobDelimiters(w *World, r *Report, hostCtor, ppCtor *ssa.Function) {
	ri := r.Rule("C03.7", 2, "glob conditions use the documented delimiter: '.' and nothing else for hosts, '/' and nothing else for captured path values")
	check := func(what string, fn *ssa.Function, want int64) {
		if fn == nil {
			r.Undecided(ri, "constructor of the "+what+" conditions not found")
			return
		}
		r.Analysed(w.FnName(fn))
		set, sites, ok := globDelimiters(w, fn)
		good := ok && sites > 0 && len(set) == 1 && set[0] == want
		var shown []string
		for _, k := range set {
			shown = append(shown, fmt.Sprintf("%q", rune(k)))
		}
		msg := fmt.Sprintf("glob expressions of the %s conditions are compiled with the delimiters [%s] (%d compile site(s) reached, all constant: %v); documented is %q only", what, strings.Join(shown, " "), sites, ok, rune(want))
		r.Ob(ri, what+"|glob-delimiter", fn.Pos(), good, msg)
	}
	check("hosts", hostCtor, '.')
	check("path_params", ppCtor, '/')
	_ = token.NoPos
}

// ---- C08.6: the raw path the rules see is the received one ------------------------------------------
//
// The encoded-slash policy and the rule lookup work on URL.RawPath of the request handed to the
// pipeline. url.URL.EscapedPath() (String(), RequestURI()) returns RawPath only if it is in
// net/url's canonical form and otherwise *re-encodes the decoded path* - an encoded slash next to
// e.g. a '|' becomes a real separator. So the RawPath of the request URL built by an entry point
// may come from such a call only where the source URL has no RawPath (then the path needed no
// escaping and the result is the received text).
func c08ReceivedRawPath(w *World, r *Report) {
	ri := r.Rule("C08.6", 2, "the raw path handed to the rules is the received text: a re-encoding call (URL.EscapedPath/String/RequestURI) feeds it only where the source URL carries no RawPath")
	isReenc := func(c *ssa.Call) bool {
		switch callName(c.Common()) {
		case "net/url.URL.EscapedPath", "net/url.URL.String", "net/url.URL.RequestURI":
			return true
		}
		return false
	}
	emptyRawPathOf := func(recv ssa.Value) func(Fact) bool {
		rr, rp := accessPath(recv)
		return func(f Fact) bool {
			var fld ssa.Value
			if l, kd := lenFact(f); l != nil && kd == "empty" {
				fld = l
			} else if f.Kind == FCmp && f.Op == token.EQL {
				for _, pr := range [][2]ssa.Value{{f.X, f.Y}, {f.Y, f.X}} {
					if s, ok := constString(pr[1]); ok && s == "" {
						fld = pr[0]
					}
				}
			}
			if fld == nil {
				return false
			}
			fr, fp := accessPath(fld)
			if fr != rr || len(fp) != len(rp)+1 || fp[len(fp)-1] != "RawPath" {
				return false
			}
			for i := range rp {
				if rp[i] != fp[i] {
					return false
				}
			}
			return true
		}
	}
	var valueOK func(fn *ssa.Function, v ssa.Value, at *ssa.BasicBlock, depth int) (bool, token.Pos)
	valueOK = func(fn *ssa.Function, v ssa.Value, at *ssa.BasicBlock, depth int) (bool, token.Pos) {
		for _, s := range w.Sources(v, at) {
			if s.Kind != "call" {
				continue
			}
			c, _ := resultOfCall(s.V)
			if c == nil {
				continue
			}
			if isReenc(c) {
				if len(c.Common().Args) == 0 || !srcOnlyVia(fn, s, emptyRawPathOf(c.Common().Args[0])) {
					return false, c.Pos()
				}
				continue
			}
			// a helper of the module returning the raw path
			if cal := c.Common().StaticCallee(); cal != nil && cal.Blocks != nil && w.inModule(cal) && depth < 3 && isString(c.Type()) {
				for _, ret := range returnsOf(cal) {
					if len(ret.Results) != 1 {
						continue
					}
					if ok, p := valueOK(cal, ret.Results[0], ret.Block(), depth+1); !ok {
						return false, p
					}
				}
			}
		}
		return true, token.NoPos
	}
	n := 0
	for _, fn := range w.Funcs {
		if w.isMockFn(fn) || !strings.HasPrefix(fnPkgPath(fn), modPath+"/internal/handler/") {
			continue
		}
		eachInstr(fn, func(in ssa.Instruction) {
			st, ok := in.(*ssa.Store)
			if !ok {
				return
			}
			fa, ok := st.Addr.(*ssa.FieldAddr)
			if !ok {
				return
			}
			f := fieldOf(fa.X.Type(), fa.Field)
			if f == nil || f.Name() != "RawPath" || f.Pkg() == nil || f.Pkg().Path() != "net/url" {
				return
			}
			n++
			r.Analysed(w.FnName(fn))
			good, pos := valueOK(fn, st.Val, st.Block(), 0)
			if pos == token.NoPos {
				pos = st.Pos()
			}
			r.Ob(ri, w.FnName(fn)+"|raw-path-as-received", pos, good, "the RawPath of the request URL handed to the pipeline is taken from a re-encoding call although the source URL may carry a RawPath: a received path that is not in net/url's canonical form (e.g. /a%2Fb|c) is decoded and encoded again, the encoded slash becomes a separator and escapes the encoded-slash policy")
		})
	}
	if n == 0 {
		r.Undecided(ri, "no entry point builds a request URL with a RawPath")
	}
}

// ---- C03.8: a configured methods list never becomes "any method" -----------------------------------------
//
// The method condition treats an empty list as "not configured" and lets every method pass. The
// constructor must therefore hand out an empty list only for an empty configuration: a list that
// the exclusions ("!GET") reduce to nothing would otherwise match everything - the opposite of what
// was written.
func c03MethodsNeverEmptied(w *World, r *Report, ctor *ssa.Function) {
	ri := r.Rule("C03.8", 1, "the methods condition built from a non-empty configuration is never the empty (match everything) list")
	if ctor == nil || ctor.Blocks == nil || len(ctor.Params) == 0 {
		r.Undecided(ri, "the constructor of the methods condition was not found")
		return
	}
	r.Analysed(w.FnName(ctor))
	in := ctor.Params[0]
	n := 0
	for _, ret := range returnsOf(ctor) {
		if len(ret.Results) != 2 {
			continue
		}
		if !mayBeNilAt(w, ctor, ret.Results[1], ret.Block()) {
			continue
		}
		n++
		v := ret.Results[0]
		emptyInput := func(f Fact) bool {
			l, kd := lenFact(f)
			return l != nil && kd == "empty" && (l == ssa.Value(in) || sameValue(l, in))
		}
		nonEmptyResult := func(f Fact) bool {
			l, kd := lenFact(f)
			if l == nil || kd != "nonempty" {
				return false
			}
			return l == v || sameValue(l, v) || sameValue(stripConv(l), stripConv(v))
		}
		ok := onlyVia(ctor, ret.Block(), emptyInput) || onlyVia(ctor, ret.Block(), nonEmptyResult)
		r.Ob(ri, fmt.Sprintf("%s|%s|not-emptied", w.FnName(ctor), retKey(w, ctor, ret)), ret.Pos(), ok, "the methods condition can be returned empty for a non-empty configuration (e.g. [\"!GET\"], or ALL with every method excluded): an empty list lets every method pass")
	}
	if n == 0 {
		r.Undecided(ri, "the constructor of the methods condition never succeeds")
	}
}
