package main

import (
	"fmt"
	"go/token"
	"go/types"
	"sort"
	"strings"

	"golang.org/x/tools/go/ssa"
)

func init() { register("C19", checkC19) }

// crashRoots: the functions that run on goroutines without a recovering caller and process
// reloadable or remote input.
func crashRoots(w *World) (map[*ssa.Function]string, error) {
	roots := map[*ssa.Function]string{}
	cl := w.Iface("internal/watcher", "ChangeListener")
	if cl == nil {
		return nil, fmt.Errorf("watcher.ChangeListener not found")
	}
	// ChangeListener.OnChanged and rule.SetProcessor implementations run on the goroutines found below
	// (go statements, scheduler and informer callbacks); they are reached through the call graph.
	_ = cl
	for _, fn := range w.Funcs {
		if w.isMockFn(fn) {
			continue
		}
		eachInstr(fn, func(in ssa.Instruction) {
			switch x := in.(type) {
			case *ssa.Go:
				if callee := x.Common().StaticCallee(); callee != nil && w.inModule(callee) && callee.Blocks != nil {
					roots[callee] = "go statement at " + w.Pos(x.Pos())
				} else if f := closureFn(x.Common().Value); f != nil {
					roots[f] = "go statement at " + w.Pos(x.Pos())
				} else if x.Common().IsInvoke() {
					for _, g := range w.resolveInvoke(x.Common()) {
						roots[g] = "go statement at " + w.Pos(x.Pos())
					}
				}
			case *ssa.Call:
				// module function values handed to scheduling / callback APIs of other modules
				callee := x.Common().StaticCallee()
				if callee != nil && !w.inModule(callee) || x.Common().IsInvoke() && x.Common().Method.Pkg() != nil && !strings.HasPrefix(x.Common().Method.Pkg().Path(), modPath) {
					n := callName(x.Common())
					if !(strings.Contains(n, "gocron") || strings.Contains(n, "client-go") || strings.Contains(n, "cache.ResourceEventHandlerFuncs") || strings.Contains(n, "AddEventHandler")) {
						return
					}
					for _, a := range x.Common().Args {
						for _, o := range w.Origins(a, nil) {
							if f := closureFn(o); f != nil && w.inModule(f) && f.Blocks != nil {
								roots[f] = "callback handed to " + n
							}
						}
					}
				}
			case *ssa.Store:
				// informer handler structs: function-valued fields of client-go handler literals
				if fa, ok := x.Addr.(*ssa.FieldAddr); ok && (strings.Contains(fa.X.Type().String(), "ResourceEventHandlerFuncs") || strings.Contains(fa.X.Type().String(), "FilteringResourceEventHandler")) {
					fld := ""
					if fv := fieldOf(fa.X.Type(), fa.Field); fv != nil {
						fld = fv.Name()
					}
					for _, o := range w.Origins(x.Val, nil) {
						if f := closureFn(o); f != nil && w.inModule(f) && f.Blocks != nil {
							roots[f] = "kubernetes informer callback " + fld
						}
					}
				}
			}
		})
	}
	return roots, nil
}

// hasRecover: the function installs a deferred function that calls recover().
func hasRecover(fn *ssa.Function) bool {
	found := false
	for _, c := range callsIn(fn) {
		d, ok := c.(*ssa.Defer)
		if !ok {
			continue
		}
		df := closureFn(d.Call.Value)
		if df == nil {
			df = d.Call.StaticCallee()
		}
		if df == nil || df.Blocks == nil {
			continue
		}
		for _, g := range withClosures(df) {
			for _, cc := range callsIn(g) {
				if callName(cc.Common()) == "builtin.recover" {
					found = true
				}
			}
		}
	}
	return found
}

var gInformerRoles = map[*ssa.Function]string{}

func checkC19(w *World, r *Report) {
	roots, err := crashRoots(w)
	if err != nil {
		r.Undecided(nil, err.Error())
		return
	}
	var rootList []*ssa.Function
	for f, why := range roots {
		rootList = append(rootList, f)
		if strings.HasPrefix(why, "kubernetes informer callback") {
			gInformerRoles[f] = why
			// a method value (p.addRuleSet) is registered through a bound-method wrapper
			if strings.Contains(f.Synthetic, "bound method") {
				for _, c := range callsIn(f) {
					if m := c.Common().StaticCallee(); m != nil {
						gInformerRoles[m] = why
					}
				}
			}
		}
	}
	sort.Slice(rootList, func(i, j int) bool { return rootList[i].String() < rootList[j].String() })
	r.Counts["roots"] = len(rootList)
	riRoots := r.Rule("C19.0", 8, "roots: goroutines that process reloadable or remote input outside a recovering caller")
	for _, f := range rootList {
		r.Ob(riRoots, "root|"+w.FnName(f), f.Pos(), true, roots[f])
	}
	barrier := func(f *ssa.Function) bool { return !w.inModule(f) || hasRecover(f) || w.isMockFn(f) }
	parent, order := w.CG().Reachable(rootList, barrier)
	var reach []*ssa.Function
	for _, f := range order {
		if f.Blocks != nil && w.inModule(f) && !w.isMockFn(f) && !hasRecover(f) {
			reach = append(reach, f)
		}
	}
	r.Counts["functions_reachable_from_roots"] = len(reach)
	if len(reach) < 30 {
		r.Undecided(riRoots, fmt.Sprintf("only %d module functions reachable from the roots (call graph or roots lost)", len(reach)))
	}
	// positive control: the scanners must still recognise the constructs they look for somewhere in the module
	ctl := map[string]int{}
	for _, f := range w.Funcs {
		eachInstr(f, func(in ssa.Instruction) {
			switch x := in.(type) {
			case *ssa.Panic:
				if x.Pos().IsValid() {
					ctl["panic"]++
				}
			case *ssa.TypeAssert:
				if !x.CommaOk {
					ctl["assert"]++
				}
			}
		})
	}
	r.Counts["control_panics_in_module"] = ctl["panic"]
	r.Counts["control_unchecked_assertions_in_module"] = ctl["assert"]
	if ctl["panic"] == 0 || ctl["assert"] == 0 {
		r.Undecided(riRoots, "positive control failed: no panic / unchecked assertion recognised anywhere in the module")
	}
	for _, f := range reach {
		r.Analysed(w.FnName(f))
	}
	c19Panics(w, r, reach, parent)
	c19Asserts(w, r, reach, parent)
	c19Index(w, r, reach, parent)
	c19Discarded(w, r, reach, parent)
	c19Tables(w, r)
	c19Recursion(w, r)
	c19NilCause(w, r)
	c19RecoverIntoResult(w, r, "C19.8")
	c19NoLockLeak(w, r)
	// premise: request goroutines recover (C01.8)
	c01Recovery(w, r)
}

func c19Panics(w *World, r *Report, reach []*ssa.Function, parent map[*ssa.Function]*Edge) {
	ri := r.Rule("C19.1", 0, "no explicit panic is reachable from a reload / provider / remote-input goroutine")
	n := 0
	for _, fn := range reach {
		nth := 0
		eachInstr(fn, func(in ssa.Instruction) {
			p, ok := in.(*ssa.Panic)
			if !ok || !p.Pos().IsValid() {
				// panics without position are generated by the compiler front end (e.g. for a
				// blocking select); they are not reachable
				return
			}
			n++
			nth++
			r.Ob(ri, fmt.Sprintf("%s|panic#%d", w.FnName(fn), nth), p.Pos(), false, "explicit panic reachable from a goroutine without recover: the process terminates", w.Path(parent, fn)...)
		})
	}
	r.Counts["explicit_panics_reachable"] = n
	r.Ob(ri, "scan-complete", token.NoPos, true, fmt.Sprintf("%d functions scanned", len(reach)))
}

// storesAllOfType: every value stored into the sync.Map / map that v was loaded from has type T.
func justifiedAssert(w *World, ta *ssa.TypeAssert) string {
	// asserting an interface value to its own static type: only a nil check of a method value
	if types.Identical(ta.X.Type(), ta.AssertedType) {
		return "identity assertion (method value on an interface)"
	}
	// decode hooks: `data.(T)` after `from.Kind() == K` was established
	if fn := ta.Parent(); fn != nil {
		want := ""
		switch t := ta.AssertedType.Underlying().(type) {
		case *types.Basic:
			if t.Kind() == types.String {
				want = "String"
			}
		case *types.Slice:
			want = "Slice"
		case *types.Map:
			want = "Map"
		}
		if _, isParam := ta.X.(*ssa.Parameter); isParam && want != "" {
			if onlyVia(fn, ta.Block(), func(f Fact) bool {
				if f.Kind != FCmp || f.Op != token.EQL {
					return false
				}
				c, _ := resultOfCall(f.X)
				if c == nil || !strings.HasSuffix(callName(c.Common()), "reflect.Type.Kind") {
					return false
				}
				k, ok := f.Y.(*ssa.Const)
				return ok && k.Value != nil && kindName(k.Int64()) == want
			}) {
				return "guarded by from.Kind() == reflect." + want
			}
		}
	}
	// T is the only non-mock module implementation of the operand's interface
	if it, ok := ta.X.Type().Underlying().(*types.Interface); ok && it.NumMethods() > 0 {
		impl := w.Implementors(it)
		if len(impl) == 1 {
			if n := derefNamed(ta.AssertedType); n != nil && n == impl[0] {
				return "only implementation of the interface"
			}
		}
	}
	// operand loaded from a sync.Map whose stores all have the asserted type
	if c, _ := resultOfCall(ta.X); c != nil {
		n := callName(c.Common())
		if n == "sync.Map.Load" || n == "sync.Map.LoadOrStore" || n == "sync.Map.LoadAndDelete" {
			root, p := accessPath(c.Common().Args[0])
			all, any := true, false
			for _, fn := range w.Funcs {
				for _, sc := range findCalls(fn, named("sync.Map.Store", "sync.Map.LoadOrStore", "sync.Map.Swap")) {
					r2, p2 := accessPath(sc.Common().Args[0])
					if strings.Join(p, ".") != strings.Join(p2, ".") || !sameRootType(root, r2) {
						continue
					}
					any = true
					val := sc.Common().Args[2]
					if mi, ok := val.(*ssa.MakeInterface); !ok || !types.Identical(mi.X.Type(), ta.AssertedType) {
						all = false
					}
				}
			}
			if any && all {
				return "all values stored into that sync.Map have the asserted type"
			}
		}
		// typed third-party API
		if strings.Contains(n, "k8s.io/") || strings.Contains(n, "client-go") {
			return "object produced by the typed Kubernetes client"
		}
	}
	if p, ok := ta.X.(*ssa.Parameter); ok {
		// informer callbacks for additions and updates receive objects of the informer's type; the
		// delete callback and the filter also receive cache.DeletedFinalStateUnknown tombstones (a
		// deletion observed only after a broken watch was re-listed)
		if strings.Contains(p.Parent().String(), "kubernetes") {
			role := gInformerRoles[p.Parent()]
			if strings.HasSuffix(role, " AddFunc") || strings.HasSuffix(role, " UpdateFunc") {
				return "informer callback parameter (typed informer, " + role + ")"
			}
		}
	}
	return ""
}

func kindName(k int64) string {
	switch k {
	case 24:
		return "String"
	case 23:
		return "Slice"
	case 21:
		return "Map"
	}
	return ""
}

func sameRootType(a, b ssa.Value) bool {
	if a == nil || b == nil {
		return false
	}
	return types.Identical(a.Type(), b.Type())
}

func c19Asserts(w *World, r *Report, reach []*ssa.Function, parent map[*ssa.Function]*Edge) {
	ri := r.Rule("C19.2", 0, "no unchecked type assertion on reloadable / remote data is reachable from a goroutine without recover")
	n, j := 0, 0
	for _, fn := range reach {
		nth := 0
		eachInstr(fn, func(in ssa.Instruction) {
			ta, ok := in.(*ssa.TypeAssert)
			if !ok || ta.CommaOk {
				return
			}
			nth++
			if why := justifiedAssert(w, ta); why != "" {
				j++
				r.Ob(ri, fmt.Sprintf("%s|assert#%d|%s", w.FnName(fn), nth, shortType(ta.AssertedType)), ta.Pos(), true, "justified: "+why)
				return
			}
			n++
			r.Ob(ri, fmt.Sprintf("%s|assert#%d|%s", w.FnName(fn), nth, shortType(ta.AssertedType)), ta.Pos(), false, "unchecked type assertion to "+shortType(ta.AssertedType)+" reachable from a goroutine without recover: a type-confused rule set / file crashes the process", w.Path(parent, fn)...)
		})
	}
	r.Counts["unchecked_assertions_reachable"] = n
	r.Counts["assertions_justified"] = j
	r.Ob(ri, "scan-complete", token.NoPos, true, "")
}

func shortType(t types.Type) string {
	return strings.ReplaceAll(t.String(), modPath+"/", "")
}

// guardedIndex: the constant index k into v is protected by a dominating length fact.
func guardedIndex(fn *ssa.Function, blk *ssa.BasicBlock, v ssa.Value, k int64) bool {
	same := func(x ssa.Value) bool { return x == v || sameExpr(x, v) }
	if onlyVia(fn, blk, func(f Fact) bool {
		if f.Kind != FCmp {
			return false
		}
		x, y, op := f.X, f.Y, f.Op
		if lenOf(y) != nil && lenOf(x) == nil {
			x, y = y, x
			switch op {
			case token.LSS:
				op = token.GTR
			case token.GTR:
				op = token.LSS
			case token.LEQ:
				op = token.GEQ
			case token.GEQ:
				op = token.LEQ
			}
		}
		l := lenOf(x)
		if l == nil || !same(l) {
			return false
		}
		c, ok := constInt(y)
		if !ok {
			return false
		}
		switch op {
		case token.GTR:
			return c >= k
		case token.GEQ:
			return c >= k+1
		case token.NEQ:
			return c == 0 && k == 0
		case token.EQL:
			return c > k
		}
		return false
	}) {
		return true
	}
	// produced by an API that never returns an empty slice for index 0
	if c, _ := resultOfCall(v); c != nil && k == 0 {
		n := callName(c.Common())
		if n == "strings.Split" || n == "strings.SplitN" || n == "strings.Fields" && false {
			return true
		}
	}
	return false
}

func c19Index(w *World, r *Report, reach []*ssa.Function, parent map[*ssa.Function]*Edge) {
	ri := r.Rule("C19.3", 0, "no constant index into a slice of reloadable / remote data without a dominating length check is reachable from a goroutine without recover")
	n := 0
	for _, fn := range reach {
		nth := 0
		eachInstr(fn, func(in ssa.Instruction) {
			var base ssa.Value
			var idx ssa.Value
			switch x := in.(type) {
			case *ssa.IndexAddr:
				base, idx = x.X, x.Index
			case *ssa.Index:
				base, idx = x.X, x.Index
			default:
				return
			}
			k, ok := constInt(idx)
			if !ok {
				return
			}
			if _, isSlice := base.Type().Underlying().(*types.Slice); !isSlice {
				if b, isB := base.Type().Underlying().(*types.Basic); !isB || b.Info()&types.IsString == 0 {
					return // arrays have a static length
				}
			}
			// literal slices built in this function
			if sl, isSl := base.(*ssa.Slice); isSl {
				if _, isAlloc := sl.X.(*ssa.Alloc); isAlloc {
					return
				}
			}
			if _, isMk := base.(*ssa.MakeSlice); isMk {
				return
			}
			nth++
			if guardedIndex(fn, in.Block(), base, k) {
				r.Ob(ri, fmt.Sprintf("%s|index#%d", w.FnName(fn), nth), in.Pos(), true, "guarded by a length check")
				return
			}
			n++
			r.Ob(ri, fmt.Sprintf("%s|index#%d", w.FnName(fn), nth), in.Pos(), false, fmt.Sprintf("element [%d] of %s is read without a dominating length check: an empty / short input crashes the goroutine", k, describePath(base, pathOf(base))), w.Path(parent, fn)...)
		})
	}
	r.Counts["unguarded_constant_indices_reachable"] = n
	r.Ob(ri, "scan-complete", token.NoPos, true, "")
}

func pathOf(v ssa.Value) []string { _, p := accessPath(v); return p }

func c19Discarded(w *World, r *Report, reach []*ssa.Function, parent map[*ssa.Function]*Edge) {
	ri := r.Rule("C19.4", 0, "no value is dereferenced after its accompanying error / ok flag was discarded")
	n := 0
	for _, fn := range reach {
		nth := 0
		for _, c := range callsIn(fn) {
			call, ok := c.(*ssa.Call)
			if !ok {
				continue
			}
			sig := call.Common().Signature()
			if sig.Results().Len() == 2 && lastResultIsError(sig) {
				// error component unused, pointer component dereferenced
				var ptr, errV *ssa.Extract
				if refs := call.Referrers(); refs != nil {
					for _, rf := range *refs {
						if ex, isEx := rf.(*ssa.Extract); isEx {
							if ex.Index == 1 {
								errV = ex
							} else {
								ptr = ex
							}
						}
					}
				}
				if errV != nil && errV.Referrers() != nil && len(*errV.Referrers()) > 0 {
					continue
				}
				if ptr == nil {
					continue
				}
				_, isPtr := ptr.Type().Underlying().(*types.Pointer)
				_, isIface := ptr.Type().Underlying().(*types.Interface)
				if !isPtr && !isIface {
					continue
				}
				deref := false
				if refs := ptr.Referrers(); refs != nil {
					for _, rf := range *refs {
						switch y := rf.(type) {
						case *ssa.FieldAddr, *ssa.UnOp:
							deref = true
						case *ssa.Call:
							if y.Common().IsInvoke() && y.Common().Value == ssa.Value(ptr) {
								deref = true
							}
							if callRecv(y.Common()) == ssa.Value(ptr) {
								deref = true
							}
						}
					}
				}
				if !deref {
					continue
				}
				nth++
				n++
				r.Ob(ri, fmt.Sprintf("%s|discarded-error#%d|%s", w.FnName(fn), nth, callName(call.Common())), call.Pos(), false, "the error of "+callName(call.Common())+" is discarded and its result is used: on failure the result is nil and the goroutine crashes", w.Path(parent, fn)...)
			}
			// errors.As whose boolean is unused and whose target is dereferenced
			if callName(call.Common()) == "errors.As" {
				if refs := call.Referrers(); refs == nil || len(*refs) == 0 {
					tgt := stripConv(call.Common().Args[1])
					if a, isA := tgt.(*ssa.Alloc); isA {
						used := false
						if ar := a.Referrers(); ar != nil {
							for _, rf := range *ar {
								if u, isU := rf.(*ssa.UnOp); isU {
									if ur := u.Referrers(); ur != nil {
										for _, x := range *ur {
											if _, isFA := x.(*ssa.FieldAddr); isFA {
												used = true
											}
										}
									}
								}
							}
						}
						if used {
							nth++
							n++
							r.Ob(ri, fmt.Sprintf("%s|unchecked-errors.As#%d", w.FnName(fn), nth), call.Pos(), false, "the result of errors.As is ignored and its target is dereferenced: if the error has another type the target is nil", w.Path(parent, fn)...)
						}
					}
				}
			}
		}
	}
	r.Counts["discarded_error_derefs_reachable"] = n
	r.Ob(ri, "scan-complete", token.NoPos, true, "")
}

// switchConstants collects the integer case constants of the switch on the parameter of fn.
func switchIntCases(fn *ssa.Function) []int64 {
	var out []int64
	eachInstr(fn, func(in ssa.Instruction) {
		if b, ok := in.(*ssa.BinOp); ok && b.Op == token.EQL {
			if _, isP := b.X.(*ssa.Parameter); isP {
				if k, ok := constInt(b.Y); ok {
					out = append(out, k)
				}
			}
		}
	})
	sort.Slice(out, func(i, j int) bool { return out[i] < out[j] })
	return out
}

func c19Tables(w *World, r *Report) {
	ri := r.Rule("C19.5", 2, "the key-size tables of the signers cover the same key sizes")
	// the size tables are found by shape (a package-level function of one int parameter that switches
	// on it and panics otherwise); RSA moduli are >= 1024 bits, curve sizes are below that
	tableOf := func(pkg, kind string) *ssa.Function {
		var out *ssa.Function
		for _, fn := range w.Funcs {
			if fnPkgPath(fn) != modPath+"/"+pkg || w.isMockFn(fn) || fn.Parent() != nil || fn.Signature.Recv() != nil || len(fn.Params) != 1 {
				continue
			}
			if b, ok := fn.Params[0].Type().Underlying().(*types.Basic); !ok || b.Info()&types.IsInteger == 0 {
				continue
			}
			cs := switchIntCases(fn)
			if len(cs) == 0 {
				continue
			}
			hasPanic := false
			eachInstr(fn, func(in ssa.Instruction) {
				if _, ok := in.(*ssa.Panic); ok {
					hasPanic = true
				}
			})
			if !hasPanic {
				continue
			}
			if (kind == "RSA") == (cs[0] >= 1024) {
				if out != nil {
					return nil
				}
				out = fn
			}
		}
		return out
	}
	pairs := [][2]string{{"ECDSA key-size table", "ECDSA"}, {"RSA key-size table", "RSA"}}
	for _, p := range pairs {
		a := tableOf("internal/keystore", p[1])
		b := tableOf("internal/rules/endpoint/authstrategy", p[1])
		if a == nil || b == nil {
			r.Undecided(ri, p[0]+" not found (or ambiguous) in keystore / authstrategy")
			continue
		}
		r.Analysed(w.FnName(a), w.FnName(b))
		ca, cb := switchIntCases(a), switchIntCases(b)
		sub := len(ca) > 0
		set := map[int64]bool{}
		for _, k := range cb {
			set[k] = true
		}
		for _, k := range ca {
			if !set[k] {
				sub = false
			}
		}
		r.Ob(ri, "key-size-tables|"+p[1], b.Pos(), sub, fmt.Sprintf("%s key sizes: key store / JOSE signer %v, HTTP message signatures %v - a key accepted by the key store panics in the signature strategy", p[1], ca, cb))
	}
}
