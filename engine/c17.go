package main

import (
	"fmt"
	"go/token"
	"go/types"
	"sort"
	"strings"

	"golang.org/x/tools/go/ssa"
)

func init() { register("C17", checkC17) }

// ---- P5: effect summaries ---------------------------------------------------------------------------------
//
// For every module function: which parameters' reachable memory may be written (field stores, map
// updates, element stores through a path that starts at the parameter), directly or through
// callees. Interface calls are joined over the non-mock module implementations. Writes to fields
// of a struct that are performed while that struct's own mutex is held are not counted (they are
// the struct's synchronised state).

type paramWrite struct {
	Param int
	Path  string
	Pos   token.Pos
	Via   string // call chain
}

type effState struct {
	w    *World
	memo map[*ssa.Function][]paramWrite
	busy map[*ssa.Function]bool
}

func newEff(w *World) *effState {
	return &effState{w: w, memo: map[*ssa.Function][]paramWrite{}, busy: map[*ssa.Function]bool{}}
}

func paramIndex(fn *ssa.Function, v ssa.Value) int {
	p, ok := v.(*ssa.Parameter)
	if !ok {
		return -1
	}
	top := p.Parent()
	for i, q := range top.Params {
		if q == p {
			if top == fn {
				return i
			}
			// a parameter of an enclosing function seen from a closure
			cur := fn
			for cur != nil {
				if cur == top {
					return i
				}
				cur = cur.Parent()
			}
		}
	}
	return -1
}

func (e *effState) writes(fn *ssa.Function) []paramWrite {
	if ws, ok := e.memo[fn]; ok {
		return ws
	}
	if e.busy[fn] || fn.Blocks == nil {
		return nil
	}
	e.busy[fn] = true
	var out []paramWrite
	li := lockInfo(fn)
	top := fn
	for top.Parent() != nil {
		top = top.Parent()
	}
	addWrite := func(addr ssa.Value, in ssa.Instruction) {
		root, p := accessPath(addr)
		if len(p) == 0 {
			return
		}
		// element of a slice held by a local copy of a struct taken from the parameter's memory
		if r2, p2, ok := structCopySource(root); ok && strings.Contains(strings.Join(p, "."), "[") {
			root, p = r2, append(append([]string{}, p2...), p...)
		}
		idx := paramIndex(top, root)
		if idx < 0 {
			return
		}
		if isValueParam(top, idx) && !strings.Contains(strings.Join(p, "."), "[") {
			// a field of a struct passed by value: the callee's private copy
			return
		}
		// synchronised state: a mutex of the written object is held in write mode
		for k, h := range li.At[in] {
			if h.Mode == "W" && strings.HasPrefix(k, fmt.Sprintf("p%d.", idx)) {
				return
			}
		}
		out = append(out, paramWrite{Param: idx, Path: strings.Join(p, "."), Pos: in.Pos()})
	}
	for _, g := range withClosures(fn) {
		gl := g
		eachInstr(gl, func(in ssa.Instruction) {
			switch x := in.(type) {
			case *ssa.Store:
				addWrite(x.Addr, in)
			case *ssa.MapUpdate:
				for _, mo := range e.w.Origins(x.Map, nil) {
					root, p := accessPath(mo)
					// a local struct that was initialised by copying a struct out of the parameter's
					// memory shares its maps (slices, pointers) with the original
					if r2, p2, ok := structCopySource(root); ok && len(p) > 0 && !fieldFreshlySet(mo, in) {
						root, p = r2, append(append([]string{}, p2...), p...)
					}
					if idx := paramIndex(top, root); idx >= 0 {
						// a map reachable from the parameter (or the parameter itself when it is a map)
						out = append(out, paramWrite{Param: idx, Path: strings.Join(append(p, "[map]"), "."), Pos: in.Pos()})
					}
				}
			}
		})
		for _, c := range callsIn(gl) {
			if _, isGo := c.(*ssa.Go); isGo {
				continue
			}
			cc := c.Common()
			if _, isB := cc.Value.(*ssa.Builtin); isB {
				continue
			}
			// library functions that modify their slice argument in place
			if n := callName(cc); isInPlaceMutator(n) && len(cc.Args) > 0 {
				root, p := accessPath(cc.Args[0])
				if idx := paramIndex(top, root); idx >= 0 && len(p) > 0 {
					out = append(out, paramWrite{Param: idx, Path: strings.Join(append(p, "[in place: "+n+"]"), "."), Pos: c.Pos()})
				}
			}
			var callees []*ssa.Function
			switch {
			case cc.IsInvoke():
				callees = e.w.resolveInvoke(cc)
			case cc.StaticCallee() != nil:
				if cc.StaticCallee().Blocks != nil && e.w.inModule(cc.StaticCallee()) {
					callees = []*ssa.Function{cc.StaticCallee()}
				}
			default:
				if f := closureFn(cc.Value); f != nil {
					callees = []*ssa.Function{f}
				}
			}
			args := cc.Args
			if cc.IsInvoke() {
				args = append([]ssa.Value{cc.Value}, cc.Args...)
			}
			for _, callee := range callees {
				if lockOpOf(gl, c) != nil {
					continue
				}
				for _, cw := range e.writes(callee) {
					if cw.Param >= len(args) {
						continue
					}
					root, p := accessPath(args[cw.Param])
					idx := paramIndex(top, root)
					if idx < 0 {
						continue
					}
					if len(p) == 0 && isValueParam(top, idx) && !strings.Contains(cw.Path, "[map]") && !strings.Contains(cw.Path, ".") {
						// writing a field of a by-value copy does not reach the caller's object
						continue
					}
					held := false
					for k, h := range lockInfo(gl).At[c] {
						if h.Mode == "W" && strings.HasPrefix(k, fmt.Sprintf("p%d.", idx)) {
							held = true
						}
					}
					if held {
						continue
					}
					via := e.w.FnName(callee)
					if cw.Via != "" {
						via += " -> " + cw.Via
					}
					out = append(out, paramWrite{Param: idx, Path: strings.Join(append(append([]string{}, p...), cw.Path), "."), Pos: cw.Pos, Via: via})
				}
			}
		}
	}
	delete(e.busy, fn)
	// de-duplicate
	seen := map[string]bool{}
	var dd []paramWrite
	for _, x := range out {
		k := fmt.Sprintf("%d|%s|%d", x.Param, x.Path, x.Pos)
		if !seen[k] {
			seen[k] = true
			dd = append(dd, x)
		}
	}
	sort.Slice(dd, func(i, j int) bool { return dd[i].Pos < dd[j].Pos })
	e.memo[fn] = dd
	return dd
}

func isInPlaceMutator(n string) bool {
	switch {
	case strings.HasPrefix(n, "slices.Sort"), strings.HasPrefix(n, "sort."), n == "slices.Reverse",
		strings.HasPrefix(n, "slices.Compact"), strings.HasPrefix(n, "slices.Delete"), strings.HasPrefix(n, "slices.Insert") && false,
		n == "builtin.copy", n == "builtin.clear", strings.HasPrefix(n, "maps.Copy"), strings.HasPrefix(n, "maps.DeleteFunc"):
		return true
	}
	return false
}

func isValueParam(fn *ssa.Function, idx int) bool {
	if idx >= len(fn.Params) {
		return false
	}
	_, isStruct := fn.Params[idx].Type().Underlying().(*types.Struct)
	return isStruct
}

// ---- mechanisms ----------------------------------------------------------------------------------------------

type mechKind struct {
	rel, iface string
}

var mechKinds = []mechKind{
	{"internal/rules/mechanisms/authenticators", "Authenticator"},
	{"internal/rules/mechanisms/authorizers", "Authorizer"},
	{"internal/rules/mechanisms/contextualizers", "Contextualizer"},
	{"internal/rules/mechanisms/finalizers", "Finalizer"},
	{"internal/rules/mechanisms/errorhandlers", "ErrorHandler"},
}

func mechanismTypes(w *World) []*types.Named {
	var out []*types.Named
	seen := map[*types.Named]bool{}
	for _, k := range mechKinds {
		it := w.Iface(k.rel, k.iface)
		if it == nil {
			continue
		}
		for _, t := range w.Implementors(it) {
			if !strings.HasPrefix(t.Obj().Pkg().Path(), modPath+"/internal/rules/mechanisms/") || seen[t] {
				continue
			}
			seen[t] = true
			out = append(out, t)
		}
	}
	return out
}

func checkC17(w *World, r *Report) {
	mts := mechanismTypes(w)
	if len(mts) < 15 {
		r.Undecided(nil, fmt.Sprintf("only %d mechanism types found", len(mts)))
		return
	}
	eff := newEff(w)
	c17ReadOnly(w, r, eff, mts, "Execute", "C17.1", "executing a mechanism writes no memory owned by the mechanism (its fields and what is reachable through them)")
	c17ReadOnly(w, r, eff, mts, "WithConfig", "C17.2", "creating a rule-specific variant writes no memory owned by the prototype")
	c17DecodeTarget(w, r, mts)
	c17Complete(w, r, mts)
	c17NoDefaultsInOverride(w, r, mts)
	c17Factory(w, r)
}

func c17ReadOnly(w *World, r *Report, eff *effState, mts []*types.Named, method, id, desc string) {
	ri := r.Rule(id, 15, desc)
	for _, t := range mts {
		fn := w.Method(t, method)
		if fn == nil || fn.Blocks == nil {
			continue
		}
		r.Analysed(w.FnName(fn))
		var bad []paramWrite
		for _, pw := range eff.writes(fn) {
			if pw.Param == 0 {
				bad = append(bad, pw)
			}
		}
		if len(bad) == 0 {
			r.Ob(ri, w.FnName(fn)+"|no-receiver-write", fn.Pos(), true, "")
			continue
		}
		seen := map[string]bool{}
		for _, pw := range bad {
			k := w.FnName(fn) + "|writes|" + pw.Path
			if seen[k] {
				continue
			}
			seen[k] = true
			msg := fmt.Sprintf("%s writes %s of the mechanism at %s", method, pw.Path, w.Pos(pw.Pos))
			if pw.Via != "" {
				msg += " (via " + pw.Via + ")"
			}
			if method == "Execute" {
				msg += ": concurrent executions race, and the catalogue prototype is changed for every rule"
			} else {
				msg += ": the catalogue prototype is changed for every rule using it"
			}
			r.Ob(ri, k, pw.Pos, false, msg)
		}
	}
}

// c17DecodeTarget: the struct a rule-level override is decoded into must not be pre-populated with
// slices / maps / pointers of the prototype: the decoder writes into them in place.
func c17DecodeTarget(w *World, r *Report, mts []*types.Named) {
	ri := r.Rule("C17.2b", 6, "the decode target of a rule-level override holds no reference to the prototype's memory")
	for _, t := range mts {
		fn := w.Method(t, "WithConfig")
		if fn == nil || fn.Blocks == nil {
			continue
		}
		recv := fn.Params[0]
		for _, c := range callsIn(fn) {
			callee := c.Common().StaticCallee()
			if callee == nil || !isStructDecoderCall(w, c) {
				continue
			}
			r.Analysed(w.FnName(fn))
			ok, msg := true, ""
			for _, a := range c.Common().Args {
				al, isAlloc := stripConv(a).(*ssa.Alloc)
				if !isAlloc {
					continue
				}
				if refs := al.Referrers(); refs != nil {
					for _, rf := range *refs {
						fa, isFA := rf.(*ssa.FieldAddr)
						if !isFA {
							continue
						}
						if fr := fa.Referrers(); fr != nil {
							for _, u := range *fr {
								st, isSt := u.(*ssa.Store)
								if !isSt || st.Addr != ssa.Value(fa) || !reachableAfter(st, c) {
									continue
								}
								if holdsReference(st.Val.Type(), 0) {
									if root, p := accessPath(st.Val); root == ssa.Value(recv) && len(p) > 0 {
										ok, msg = false, "the decode target is pre-populated with the prototype's "+strings.Join(p, ".")+": the decoder writes the override into the prototype's memory (slices are decoded element by element into the existing backing array)"
									}
								}
							}
						}
					}
				}
			}
			r.Ob(ri, w.FnName(fn)+"|decode-target-fresh", c.Pos(), ok, msg)
		}
	}
}

func c17Complete(w *World, r *Report, mts []*types.Named) {
	ri := r.Rule("C17.3", 15, "a rule-specific variant is the prototype itself or a complete copy: every field set, from the override or else from the same field of the prototype; derived fields are recomputed")
	for _, t := range mts {
		fn := w.Method(t, "WithConfig")
		if fn == nil || fn.Blocks == nil {
			continue
		}
		r.Analysed(w.FnName(fn))
		st, isStruct := t.Underlying().(*types.Struct)
		recv := fn.Params[0]
		lits := ruleLiteralAllocs(fn, t)
		// what is returned
		okRet, msg := true, ""
		for _, ret := range returnsOf(fn) {
			for _, s := range w.Sources(ret.Results[0], ret.Block()) {
				switch {
				case s.Kind == "nil":
				case s.Kind == "param" && s.V == ssa.Value(recv):
				case s.Kind == "nonnil":
					v := s.V
					if mi, ok := v.(*ssa.MakeInterface); ok {
						v = mi.X
						if os := w.Origins(v, nil); len(os) == 1 {
							v = os[0]
						}
					}
					switch x := v.(type) {
					case *ssa.Parameter:
						if x != recv {
							okRet, msg = false, "returns a foreign parameter"
						}
					case *ssa.Alloc:
						if derefNamed(x.Type()) != t {
							okRet, msg = false, "returns a value of another type"
						}
					case *ssa.Call, *ssa.Extract:
						c, _ := resultOfCall(v)
						if c == nil || !isCtorOf(w, c.Common().StaticCallee(), t) {
							okRet, msg = false, "returns the result of "+v.String()
						}
					default:
						okRet, msg = false, "returns "+v.String()
					}
				case s.Kind == "call":
					c, _ := resultOfCall(s.V)
					if c == nil || !isCtorOf(w, c.Common().StaticCallee(), t) {
						okRet, msg = false, "returns the result of a call that is not the type's constructor"
					}
				default:
					okRet, msg = false, "returns "+s.Kind
				}
			}
		}
		r.Ob(ri, w.FnName(fn)+"|returns-prototype-or-copy", fn.Pos(), okRet, msg)
		if !isStruct {
			continue
		}
		// constructor: the function that allocates t and is not WithConfig
		var ctor *ssa.Function
		var ctorLit *ssa.Alloc
		for _, g := range w.Funcs {
			if fnPkgPath(g) != t.Obj().Pkg().Path() || g == fn || w.isMockFn(g) || g.Parent() != nil {
				continue
			}
			if ls := ruleLiteralAllocs(g, t); len(ls) > 0 && isCtorOf(w, g, t) {
				ctor, ctorLit = g, ls[len(ls)-1]
			}
		}
		for _, lit := range lits {
			overridable := map[string]ssa.Value{}
			for i := 0; i < st.NumFields(); i++ {
				f := st.Field(i)
				if isMutexType(f.Type()) {
					continue
				}
				v, _ := storedField(lit, f.Name())
				key := w.FnName(fn) + "|field|" + f.Name()
				if v == nil {
					r.Ob(ri, key, lit.Pos(), false, "field "+f.Name()+" is not set in the copy: the prototype's setting is silently reset for rules that override anything")
					continue
				}
				ok, m2 := true, ""
				copied := false
				for _, o := range w.Origins(v, nil) {
					if root, p := accessPath(o); root == ssa.Value(recv) && len(p) >= 1 {
						if p[0] != f.Name() {
							ok, m2 = false, "field "+f.Name()+" falls back to the prototype's "+strings.Join(p, ".")+" instead of its own value"
						} else {
							copied = true
						}
					}
				}
				if _, lf := fieldLoad(stripConv(v)); lf == nil || !copied {
					overridable[f.Name()] = v
				} else if len(w.Origins(v, nil)) > 1 {
					overridable[f.Name()] = v
				}
				if ok && !copied {
					// the field never falls back to the prototype's value: then it must not fall back
					// to a built-in constant either (the prototype's configured value would be lost for
					// rules that override something else)
					for _, leaf := range leafOrigins(w, v, 0) {
						if k, isK := leaf.(*ssa.Const); isK && k.Value != nil {
							ok, m2 = false, "field "+f.Name()+" falls back to the constant "+k.String()+" where the override does not set it, instead of the prototype's value"
						}
					}
				}
				r.Ob(ri, key, lit.Pos(), ok, m2)
			}
			// derived fields: copied unchanged although, in the constructor, they are computed from what an
			// overridable field is computed from
			if ctor == nil || ctorLit == nil {
				continue
			}
			for i := 0; i < st.NumFields(); i++ {
				f := st.Field(i)
				if _, isOv := overridable[f.Name()]; isOv || isMutexType(f.Type()) {
					continue
				}
				cv, _ := storedField(ctorLit, f.Name())
				if cv == nil {
					continue
				}
				for on := range overridable {
					ov, _ := storedField(ctorLit, on)
					if ov == nil {
						continue
					}
					// the decoded options feeding the overridable field
					var opts []ssa.Value
					for _, o := range w.Origins(ov, nil) {
						if _, p := accessPath(o); len(p) > 0 {
							opts = append(opts, o)
						}
					}
					dep := dependsOn(w, cv, func(x ssa.Value) bool {
						// reads the overridable field of the object under construction
						root, px := accessPath(x)
						return root == ssa.Value(ctorLit) && len(px) == 1 && px[0] == on
					})
					for _, o := range opts {
						_, po := accessPath(o)
						if dependsOn(w, cv, func(x ssa.Value) bool {
							if x == cv {
								return false
							}
							_, px := accessPath(x)
							return len(px) > 0 && strings.Join(px, ".") == strings.Join(po, ".") && sameRootKind(x, o)
						}) {
							dep = true
						}
					}
					if dep && !sameOriginSet(w, cv, ov) {
						r.Ob(ri, w.FnName(fn)+"|derived|"+f.Name()+"<-"+on, lit.Pos(), false, "field "+f.Name()+" is derived from the same option as the overridable field "+on+" in "+ctor.Name()+", but WithConfig copies it unchanged: the variant keeps the prototype's derived value")
					}
				}
			}
		}
	}
}

func sameRootKind(a, b ssa.Value) bool {
	ra, _ := accessPath(a)
	rb, _ := accessPath(b)
	return ra == rb
}

func c17Factory(w *World, r *Report) {
	ri := r.Rule("C17.4", 5, "the factory hands out the shared prototype only when no override is given, otherwise only WithConfig's result")
	fi := w.Iface("internal/rules/mechanisms", "MechanismFactory")
	if fi == nil {
		r.Undecided(ri, "MechanismFactory not found")
		return
	}
	for _, t := range w.Implementors(fi) {
		for i := 0; i < fi.NumMethods(); i++ {
			fn := w.Method(t, fi.Method(i).Name())
			if fn == nil || fn.Blocks == nil {
				continue
			}
			r.Analysed(w.FnName(fn))
			conf := fn.Params[len(fn.Params)-1]
			var wc *ssa.Call
			for _, c := range findCalls(fn, func(c *ssa.CallCommon) bool { return c.IsInvoke() && c.Method.Name() == "WithConfig" }) {
				wc = c
			}
			ok, msg := wc != nil, "WithConfig is never called"
			if wc != nil {
				if stripConv(wc.Common().Args[0]) != ssa.Value(conf) {
					ok, msg = false, "WithConfig does not receive the rule's override"
				}
				for _, ret := range returnsOf(fn) {
					for _, s := range w.Sources(ret.Results[0], ret.Block()) {
						switch {
						case s.Kind == "nil":
						case s.Kind == "call" && isResult(wc, 0)(s.V):
						case s.Kind == "call":
							// the prototype (result of the repository lookup): only where no override is given
							if !onlyVia(fn, ret.Block(), func(f Fact) bool { return f.Kind == FNil && f.V == ssa.Value(conf) }) {
								ok, msg = false, "the shared prototype is returned although an override was given"
							}
						default:
							ok, msg = false, "returns "+s.Kind
						}
					}
				}
				if !onlyVia(fn, wc.Block(), func(f Fact) bool { return f.Kind == FNonNil && f.V == ssa.Value(conf) }) {
					ok, msg = false, "WithConfig is called without an override"
				}
			}
			r.Ob(ri, w.FnName(fn)+"|prototype-or-variant", fn.Pos(), ok, msg)
		}
	}
}

// leafOrigins: Origins extended through the results of static module callees (parameters replaced
// by the call's arguments), to depth 2.
func leafOrigins(w *World, v ssa.Value, depth int) []ssa.Value {
	var out []ssa.Value
	for _, o := range w.Origins(v, nil) {
		c, idx := resultOfCall(o)
		if c == nil {
			if cc, ok := o.(*ssa.Call); ok {
				c, idx = cc, 0
			}
		}
		if c != nil && depth < 2 {
			if callee := c.Common().StaticCallee(); callee != nil && callee.Blocks != nil && w.inModule(callee) && !c.Common().IsInvoke() {
				descended := false
				for _, ret := range returnsOf(callee) {
					if idx >= len(ret.Results) {
						continue
					}
					for _, l := range leafOrigins(w, ret.Results[idx], depth+1) {
						descended = true
						if pa, ok := l.(*ssa.Parameter); ok && pa.Parent() == callee {
							for i, q := range callee.Params {
								if q == pa && i < len(c.Common().Args) {
									out = append(out, leafOrigins(w, c.Common().Args[i], depth+1)...)
								}
							}
							continue
						}
						out = append(out, l)
					}
				}
				if descended {
					continue
				}
			}
		}
		out = append(out, o)
	}
	return out
}

// structCopySource: root is a local variable of struct type whose only whole-value store copies a
// struct loaded from some address; returns that address's access path (the copy shares every
// reference-typed field - maps, slices, pointers - with it).
func structCopySource(root ssa.Value) (ssa.Value, []string, bool) {
	a, ok := root.(*ssa.Alloc)
	if !ok {
		return nil, nil, false
	}
	if _, isStruct := derefType(a.Type()).Underlying().(*types.Struct); !isStruct {
		return nil, nil, false
	}
	var src ssa.Value
	n := 0
	if refs := a.Referrers(); refs != nil {
		for _, rf := range *refs {
			if st, ok := rf.(*ssa.Store); ok && st.Addr == ssa.Value(a) {
				n++
				if ld, ok := st.Val.(*ssa.UnOp); ok && ld.Op == token.MUL {
					src = ld.X
				}
			}
		}
	}
	if n != 1 || src == nil {
		return nil, nil, false
	}
	r, p := accessPath(src)
	if len(p) == 0 {
		return nil, nil, false
	}
	return r, p, true
}

// fieldFreshlySet: v is a load of a field of a local struct, and a store of a freshly made value
// (make / composite literal) to that very field dominates the use: the local no longer shares
// that field with the struct it was copied from.
func fieldFreshlySet(v ssa.Value, use ssa.Instruction) bool {
	ld, ok := v.(*ssa.UnOp)
	if !ok || ld.Op != token.MUL {
		return false
	}
	fa, ok := ld.X.(*ssa.FieldAddr)
	if !ok {
		return false
	}
	a, ok := fa.X.(*ssa.Alloc)
	if !ok || a.Referrers() == nil {
		return false
	}
	for _, rf := range *a.Referrers() {
		fa2, ok := rf.(*ssa.FieldAddr)
		if !ok || fa2.Field != fa.Field || fa2.Referrers() == nil {
			continue
		}
		for _, u := range *fa2.Referrers() {
			st, ok := u.(*ssa.Store)
			if !ok || st.Addr != ssa.Value(fa2) || !dominatesInstr(st, use) {
				continue
			}
			switch stripConv(st.Val).(type) {
			case *ssa.MakeMap, *ssa.MakeSlice, *ssa.Alloc:
				return true
			}
		}
	}
	return false
}

// c17NoDefaultsInOverride (C17.3b): what a rule-level override leaves unset is inherited from the
// prototype. A built-in default written into the decoded override before it is merged with the
// prototype makes the setting look "given" and hides the prototype's configured value for every
// rule that overrides something else. Decided per WithConfig: after the decode call, a field of the
// decode target is stored to only with values taken from the prototype (a manual merge).
func c17NoDefaultsInOverride(w *World, r *Report, mts []*types.Named) {
	noDefaultsInOverride(w, r, mts, "C17.3b", 6, "a decoded rule-level override is not filled up with built-in defaults: after decoding, its fields are written only with values of the prototype")
}

func noDefaultsInOverride(w *World, r *Report, mts []*types.Named, id string, floor int, text string) {
	ri := r.Rule(id, floor, text)
	for _, t := range mts {
		fn := w.Method(t, "WithConfig")
		if fn == nil || fn.Blocks == nil {
			continue
		}
		recv := fn.Params[0]
		for _, c := range callsIn(fn) {
			callee := c.Common().StaticCallee()
			if callee == nil || !isStructDecoderCall(w, c) {
				continue
			}
			r.Analysed(w.FnName(fn))
			ok, msg := true, ""
			pos := c.Pos()
			for _, a := range c.Common().Args {
				al, isAlloc := stripConv(a).(*ssa.Alloc)
				if !isAlloc {
					continue
				}
				eachInstr(fn, func(in ssa.Instruction) {
					st, isSt := in.(*ssa.Store)
					if !isSt || !reachableAfter(c, st) {
						return
					}
					root, p := accessPath(st.Addr)
					if root != ssa.Value(al) || len(p) == 0 {
						return
					}
					if dependsOn(w, st.Val, func(v ssa.Value) bool { return v == ssa.Value(recv) }) {
						return
					}
					ok, msg, pos = false, "the decoded override's "+strings.Join(p, ".")+" is filled with a value that does not come from the prototype: where the rule does not set it, the prototype's configured value is lost", st.Pos()
				})
			}
			r.Ob(ri, w.FnName(fn)+"|override-not-prefilled", pos, ok, msg)
		}
	}
}

// isStructDecoderCall: a call that decodes a raw configuration map into a struct (the package's
// decode helper: it takes a map[string]any and a pointer to the target).
func isStructDecoderCall(w *World, c ssa.CallInstruction) bool {
	callee := c.Common().StaticCallee()
	if callee == nil || !w.inModule(callee) {
		return false
	}
	hasMap, hasTarget := false, false
	for _, a := range c.Common().Args {
		sa := stripConv(a)
		if _, isMap := sa.Type().Underlying().(*types.Map); isMap {
			hasMap = true
		}
		if _, isAlloc := sa.(*ssa.Alloc); isAlloc {
			hasTarget = true
		}
	}
	return hasMap && hasTarget
}

// isCtorOf: g is a constructor of the mechanism type t - a package-level function (no receiver, not
// a closure) of t's package that builds a t literal; whatever it is called.
func isCtorOf(w *World, g *ssa.Function, t *types.Named) bool {
	if g == nil || g.Blocks == nil || g.Parent() != nil || g.Signature.Recv() != nil || t.Obj().Pkg() == nil {
		return false
	}
	if fnPkgPath(g) != t.Obj().Pkg().Path() {
		return false
	}
	return len(ruleLiteralAllocs(g, t)) > 0
}

// holdsReference: a value of type t shares memory when copied: a slice, map or pointer, or a struct
// / array holding one (to a small depth).
func holdsReference(t types.Type, depth int) bool {
	if depth > 3 {
		return false
	}
	switch u := t.Underlying().(type) {
	case *types.Slice, *types.Map, *types.Pointer:
		return true
	case *types.Struct:
		for i := 0; i < u.NumFields(); i++ {
			if holdsReference(u.Field(i).Type(), depth+1) {
				return true
			}
		}
	case *types.Array:
		return holdsReference(u.Elem(), depth+1)
	}
	return false
}
