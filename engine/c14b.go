package main

import (
	"fmt"
	"go/types"
	"strings"

	"golang.org/x/tools/go/ssa"
)

// C14.6: a step's `config` override that is present but not a map is rejected (not treated as
// absent). C14.7: a rule that cannot be created fails the whole rule set.

func c14ConfigType(w *World, r *Report) {
	ri := r.Rule("C14.6", 1, "a pipeline step's config override of the wrong type is rejected: the conversion yields 'no override' only for an absent (nil) value")
	n := 0
	for _, fn := range w.Funcs {
		if fnPkgPath(fn) != modPath+"/internal/rules" || w.isMockFn(fn) || fn.Parent() != nil || len(fn.Params) != 1 || fn.Signature.Results().Len() != 1 {
			continue
		}
		if _, isIface := fn.Params[0].Type().Underlying().(*types.Interface); !isIface {
			continue
		}
		if !strings.HasSuffix(fn.Signature.Results().At(0).Type().String(), "config.MechanismConfig") {
			continue
		}
		n++
		r.Analysed(w.FnName(fn))
		conf := fn.Params[0]
		ok := true
		for _, ret := range returnsOf(fn) {
			for _, s := range w.Sources(ret.Results[0], ret.Block()) {
				if s.Kind != "nil" {
					continue
				}
				if !srcOnlyVia(fn, s, func(f Fact) bool { return f.Kind == FNil && f.V == ssa.Value(conf) }) {
					ok = false
				}
			}
		}
		r.Ob(ri, w.FnName(fn)+"|nil-only-for-absent", fn.Pos(), ok,
			"the conversion returns 'no override' although a config value is present (wrong type): a malformed override is silently ignored and the rule is accepted with the catalogue configuration")
	}
	if n == 0 {
		r.Undecided(ri, "no conversion from a raw step config to MechanismConfig found in internal/rules")
	}
}

func c14RuleFailureFailsSet(w *World, r *Report, fa *factoryAnchors) {
	ri := r.Rule("C14.7", 1, "a rule that cannot be created fails the whole rule set: after a failed CreateRule every return reports an error (or is reachable only where the collected failures were found empty)")
	n := 0
	for _, fn := range w.Funcs {
		if fnPkgPath(fn) != modPath+"/internal/rules" || w.isMockFn(fn) || !lastResultIsError(fn.Signature) {
			continue
		}
		for _, ci := range callsIn(fn) {
			c, ok := ci.(*ssa.Call)
			if !ok || !c.Common().IsInvoke() || c.Common().Method.Name() != "CreateRule" {
				continue
			}
			n++
			r.Analysed(w.FnName(fn))
			ei := errIdx(c)
			okAll := true
			for _, b := range fn.Blocks {
				for bi := range b.Succs {
					isFail := false
					for _, f := range edgeFacts(b, bi) {
						if f.Kind == FNonNil && isResult(c, ei)(f.V) {
							isFail = true
						}
					}
					if !isFail {
						continue
					}
					// accumulators: slices appended to in the failure branch (before control merges
					// back into code that also runs after a success)
					seenPlain := reachFromEdge(b, bi, nil)
					var accs []ssa.Value
					for blk := range seenPlain {
						if !b.Succs[bi].Dominates(blk) {
							continue
						}
						for _, in := range blk.Instrs {
							if ac, ok := in.(*ssa.Call); ok {
								if bt, ok := ac.Call.Value.(*ssa.Builtin); ok && bt.Name() == "append" {
									accs = append(accs, ac)
								}
							}
						}
					}
					isAcc := func(v ssa.Value) bool {
						for _, o := range w.Origins(v, nil) {
							for _, a := range accs {
								if o == a {
									return true
								}
							}
						}
						return false
					}
					cut := factCut(func(f Fact) bool {
						l, kd := lenFact(f)
						return l != nil && kd == "empty" && isAcc(l)
					})
					seen := reachFromEdge(b, bi, cut)
					for _, ret := range returnsOf(fn) {
						if !seen[ret.Block()] {
							continue
						}
						for _, s := range w.Sources(ret.Results[len(ret.Results)-1], ret.Block()) {
							if s.Kind == "nil" && (s.At == nil || seen[s.At]) {
								okAll = false
							}
						}
					}
				}
			}
			r.Ob(ri, fmt.Sprintf("%s|CreateRule#%d", w.FnName(fn), n), c.Pos(), okAll,
				"after a rule could not be created the function can still return without an error: the malformed rule is dropped and the rest of the rule set is loaded")
		}
	}
	if n == 0 {
		r.Undecided(ri, "no call of RuleFactory.CreateRule found in internal/rules")
	}
}
