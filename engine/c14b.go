package main

import (
	"fmt"
	"go/types"
	"sort"
	"strings"

	"golang.org/x/tools/go/ssa"
)

// C14.6: a step's `config` override that is present but not a map is rejected (not treated as
// absent). C14.7: a rule that cannot be created fails the whole rule set.

func c14ConfigType(w *World, r *Report) {
	ri := r.Rule("C14.6", 1, "a pipeline step's config override of the wrong type is rejected: the conversion yields 'no override' only for an absent (nil) value")
	n := 0
	for _, fn := range w.Funcs {
		if fnPkgPath(fn) != modPath+"/internal/rules" || w.isMockFn(fn) || fn.Parent() != nil || len(fn.Params) != 1 || fn.Signature.Results().Len() != 1 {
			continue
		}
		if _, isIface := fn.Params[0].Type().Underlying().(*types.Interface); !isIface {
			continue
		}
		if !strings.HasSuffix(fn.Signature.Results().At(0).Type().String(), "config.MechanismConfig") {
			continue
		}
		n++
		r.Analysed(w.FnName(fn))
		conf := fn.Params[0]
		ok := true
		for _, ret := range returnsOf(fn) {
			for _, s := range w.Sources(ret.Results[0], ret.Block()) {
				if s.Kind != "nil" {
					continue
				}
				if !srcOnlyVia(fn, s, func(f Fact) bool { return f.Kind == FNil && f.V == ssa.Value(conf) }) {
					ok = false
				}
			}
		}
		r.Ob(ri, w.FnName(fn)+"|nil-only-for-absent", fn.Pos(), ok,
			"the conversion returns 'no override' although a config value is present (wrong type): a malformed override is silently ignored and the rule is accepted with the catalogue configuration")
	}
	if n == 0 {
		r.Undecided(ri, "no conversion from a raw step config to MechanismConfig found in internal/rules")
	}
}

func c14RuleFailureFailsSet(w *World, r *Report, fa *factoryAnchors) {
	ri := r.Rule("C14.7", 1, "a rule that cannot be created fails the whole rule set: after a failed CreateRule every return reports an error (or is reachable only where the collected failures were found empty)")
	n := 0
	for _, fn := range w.Funcs {
		if fnPkgPath(fn) != modPath+"/internal/rules" || w.isMockFn(fn) || !lastResultIsError(fn.Signature) {
			continue
		}
		for _, ci := range callsIn(fn) {
			c, ok := ci.(*ssa.Call)
			if !ok || !c.Common().IsInvoke() || c.Common().Method.Name() != "CreateRule" {
				continue
			}
			n++
			r.Analysed(w.FnName(fn))
			ei := errIdx(c)
			okAll := true
			for _, b := range fn.Blocks {
				for bi := range b.Succs {
					isFail := false
					for _, f := range edgeFacts(b, bi) {
						if f.Kind == FNonNil && isResult(c, ei)(f.V) {
							isFail = true
						}
					}
					if !isFail {
						continue
					}
					// accumulators: slices appended to in the failure branch (before control merges
					// back into code that also runs after a success)
					seenPlain := reachFromEdge(b, bi, nil)
					var accs []ssa.Value
					for blk := range seenPlain {
						if !b.Succs[bi].Dominates(blk) {
							continue
						}
						for _, in := range blk.Instrs {
							if ac, ok := in.(*ssa.Call); ok {
								if bt, ok := ac.Call.Value.(*ssa.Builtin); ok && bt.Name() == "append" {
									accs = append(accs, ac)
								}
							}
						}
					}
					isAcc := func(v ssa.Value) bool {
						for _, o := range w.Origins(v, nil) {
							for _, a := range accs {
								if o == a {
									return true
								}
							}
						}
						return false
					}
					cut := factCut(func(f Fact) bool {
						l, kd := lenFact(f)
						return l != nil && kd == "empty" && isAcc(l)
					})
					seen := reachFromEdge(b, bi, cut)
					for _, ret := range returnsOf(fn) {
						if !seen[ret.Block()] {
							continue
						}
						for _, s := range w.Sources(ret.Results[len(ret.Results)-1], ret.Block()) {
							if s.Kind == "nil" && (s.At == nil || seen[s.At]) {
								okAll = false
							}
						}
					}
				}
			}
			r.Ob(ri, fmt.Sprintf("%s|CreateRule#%d", w.FnName(fn), n), c.Pos(), okAll,
				"after a rule could not be created the function can still return without an error: the malformed rule is dropped and the rest of the rule set is loaded")
		}
	}
	if n == 0 {
		r.Undecided(ri, "no call of RuleFactory.CreateRule found in internal/rules")
	}
}

// c14OneMechanismPerStep (C14.9): a step of the execute list names exactly one mechanism. A step
// that carries two kind keys (a forgotten dash in YAML: `- authenticator: a` / `  authorizer: deny`)
// is malformed; a factory that looks the kinds up one after the other and stops at the first one it
// finds builds a rule without the second mechanism - the rule must be rejected instead. Decided on
// the function that turns the execute list into stages: before it creates a mechanism from a step,
// all kind keys have been looked up in that step (in the function or in a helper handed the step).
func c14OneMechanismPerStep(w *World, r *Report, fa *factoryAnchors) {
	ri := r.Rule("C14.9", 1, "a pipeline step is inspected for every mechanism kind before a mechanism is created from it (a step naming two mechanisms is not silently reduced to the first)")
	fn := fa.execPipeline
	if fn == nil || fn.Blocks == nil {
		r.Undecided(ri, "the function building the execute pipeline was not found")
		return
	}
	r.Analysed(w.FnName(fn))
	// the kinds: constant keys looked up in a step (a map element of the list parameter), in fn and its package helpers
	type lk struct {
		key string
		at  ssa.Instruction
	}
	var lookups []lk
	var collect func(g *ssa.Function, at ssa.Instruction, depth int)
	collect = func(g *ssa.Function, at ssa.Instruction, depth int) {
		for _, h := range withClosures(g) {
			eachInstr(h, func(in ssa.Instruction) {
				if l, ok := in.(*ssa.Lookup); ok {
					if _, isMap := l.X.Type().Underlying().(*types.Map); isMap {
						if k, ok := constString(stripConv(l.Index)); ok {
							a := at
							if a == nil {
								a = in
							}
							lookups = append(lookups, lk{k, a})
						}
					}
				}
				if depth < 2 {
					if c, ok := in.(*ssa.Call); ok {
						if callee := c.Common().StaticCallee(); callee != nil && callee.Blocks != nil && fnPkgPath(callee) == fnPkgPath(fn) && callee != fn {
							a := at
							if a == nil {
								a = in
							}
							// keys given to a helper as constants (createHandler(version, "authorizer", step, ...))
							for _, arg := range c.Common().Args {
								if k, ok := constString(stripConv(arg)); ok {
									lookups = append(lookups, lk{k, a})
								}
							}
							// a loop over a literal list of kinds inside the helper
							for _, hh := range withClosures(callee) {
								eachInstr(hh, func(in2 ssa.Instruction) {
									if st, ok := in2.(*ssa.Store); ok {
										if k, ok := constString(stripConv(st.Val)); ok {
											if _, isIA := st.Addr.(*ssa.IndexAddr); isIA {
												lookups = append(lookups, lk{k, a})
											}
										}
									}
								})
							}
							collect(callee, a, depth+1)
						}
					}
				}
			})
		}
	}
	collect(fn, nil, 0)
	kinds := map[string]bool{}
	creates := findCalls(fn, func(c *ssa.CallCommon) bool {
		return c.IsInvoke() && strings.HasPrefix(c.Method.Name(), "Create") && c.Method.Name() != "CreateErrorHandler"
	})
	// the kinds are the constant keys that some create site depends on: take the keys looked up anywhere
	for _, l := range lookups {
		switch l.key {
		case "config", "if", "id", "":
		default:
			kinds[l.key] = true
		}
	}
	var kl []string
	for k := range kinds {
		kl = append(kl, k)
	}
	sort.Strings(kl)
	if len(creates) == 0 || len(kl) < 2 {
		r.Undecided(ri, "mechanism creation sites / kind keys of the execute pipeline not found")
		return
	}
	for i, c := range creates {
		missing := []string{}
		for _, k := range kl {
			seen := false
			for _, l := range lookups {
				if l.key == k && l.at.Parent() == fn && dominatesInstr(l.at, c) {
					seen = true
				}
			}
			if !seen {
				missing = append(missing, k)
			}
		}
		r.Ob(ri, fmt.Sprintf("%s|create#%d|all-kinds-inspected", w.FnName(fn), i+1), c.Pos(), len(missing) == 0, "a mechanism is created from a step before the step was inspected for "+strings.Join(missing, ", ")+": a step that names two mechanisms silently loses one of them and the rule is loaded without it")
	}
}
