package main

import (
	"fmt"
	"go/token"
	"go/types"
	"net/textproto"
	"regexp"
	"sort"
	"strings"

	"golang.org/x/tools/go/ssa"
)

func init() { register("C09", checkC09) }

var fwdRe = regexp.MustCompile(`(?i)^(forwarded|x-forwarded-.*)$`)

type tpAnchors struct {
	newFn      *ssa.Function // trustedproxy.New
	handler    *ssa.Function // the innermost closure (rw, req)
	listVar    *ssa.Global
	strip      map[string]bool
	trust      *ssa.Call // the Contains call
	delCalls   []*ssa.Call
	stripFn    *ssa.Function // helper holding the removal loop (nil: the loop is in the handler itself)
	stripCalls []*ssa.Call   // the handler's calls of that helper
}

func findTrustedProxy(w *World) (*tpAnchors, error) {
	a := &tpAnchors{strip: map[string]bool{}}
	a.newFn = w.Func("internal/handler/middleware/http/trustedproxy", "New")
	if a.newFn == nil {
		return nil, fmt.Errorf("trustedproxy.New not found")
	}
	for _, f := range withClosures(a.newFn) {
		if f.Signature.Params().Len() == 2 && strings.HasSuffix(f.Signature.Params().At(1).Type().String(), "net/http.Request") {
			a.handler = f
		}
	}
	if a.handler == nil {
		return nil, fmt.Errorf("trusted proxy request handler closure not found")
	}
	delHost := a.handler
	if len(findCalls(a.handler, named("net/http.Header.Del"))) == 0 {
		// the removal may live in a helper of the same package that the handler calls with its request
		for _, ci := range callsIn(a.handler) {
			c, ok := ci.(*ssa.Call)
			if !ok {
				continue
			}
			callee := c.Common().StaticCallee()
			if callee == nil || callee.Blocks == nil || fnPkgPath(callee) != fnPkgPath(a.handler) || len(findCalls(callee, named("net/http.Header.Del"))) == 0 {
				continue
			}
			passesRequest := false
			for _, arg := range c.Common().Args {
				if arg == ssa.Value(a.handler.Params[1]) {
					passesRequest = true
				}
			}
			if passesRequest {
				a.stripFn = callee
				a.stripCalls = append(a.stripCalls, c)
				delHost = callee
			}
		}
	}
	for _, c := range findCalls(delHost, named("net/http.Header.Del")) {
		a.delCalls = append(a.delCalls, c)
		// the deleted name is an element of a ranged package-level list
		for _, o := range []ssa.Value{c.Common().Args[1]} {
			root, _ := accessPath(o)
			if g, ok := root.(*ssa.Global); ok {
				a.listVar = g
			}
			if ex, ok := o.(*ssa.Extract); ok {
				if nx, ok := ex.Tuple.(*ssa.Next); ok {
					if rg, ok := nx.Iter.(*ssa.Range); ok {
						if r2, _ := accessPath(rg.X); r2 != nil {
							if g, ok := r2.(*ssa.Global); ok {
								a.listVar = g
							}
						}
					}
				}
			}
		}
	}
	if a.listVar == nil {
		return nil, fmt.Errorf("the list of stripped headers (package-level variable ranged over with Header.Del) was not found")
	}
	// elements of the list from the package initialiser
	initFn := a.listVar.Pkg.Func("init")
	if initFn != nil {
		eachInstr(initFn, func(in ssa.Instruction) {
			if st, ok := in.(*ssa.Store); ok && st.Addr == a.listVar {
				for _, el := range sliceLiteralElems(st.Val) {
					if s, ok := constString(el); ok {
						a.strip[textproto.CanonicalMIMEHeaderKey(s)] = true
					}
				}
			}
		})
	}
	if len(a.strip) == 0 {
		return nil, fmt.Errorf("the stripped header list is empty or not a literal of constants")
	}
	for _, c := range findCalls(a.handler, func(c *ssa.CallCommon) bool { return methodCallNamed(c, "Contains") }) {
		a.trust = c
	}
	if a.trust == nil {
		return nil, fmt.Errorf("trust test (Contains) not found in the handler")
	}
	return a, nil
}

// headerReads lists (function, call, constant names) for http.Header.Get / Values in fn; a
// non-constant key that is a parameter is resolved through the static callers (depth 2).
func headerKeyConsts(w *World, fn *ssa.Function, key ssa.Value, depth int) ([]string, bool) {
	if s, ok := constString(key); ok {
		return []string{s}, true
	}
	if depth > 2 {
		return nil, false
	}
	var out []string
	all := true
	for _, o := range w.Origins(key, nil) {
		if s, ok := constString(o); ok {
			out = append(out, s)
			continue
		}
		p, isP := o.(*ssa.Parameter)
		if !isP {
			all = false
			continue
		}
		idx := -1
		for i, q := range p.Parent().Params {
			if q == p {
				idx = i
			}
		}
		ins := w.CG().In[p.Parent()]
		if len(ins) == 0 {
			all = false
		}
		for _, e := range ins {
			ci, ok := e.Site.(ssa.CallInstruction)
			if !ok || e.Kind != "static" || idx >= len(ci.Common().Args) {
				all = false
				continue
			}
			sub, ok2 := headerKeyConsts(w, e.Caller, ci.Common().Args[idx], depth+1)
			out = append(out, sub...)
			if !ok2 {
				all = false
			}
		}
	}
	return out, all
}

func checkC09(w *World, r *Report) {
	tp, err := findTrustedProxy(w)
	if err != nil {
		r.Undecided(nil, err.Error())
		return
	}
	r.Analysed(w.FnName(tp.handler))
	c09ReadList(w, r, tp)
	c09Unconditional(w, r, tp)
	c09TrustFromConnection(w, r, tp)
	c09FirstInChain(w, r, tp)
	c09Extraction(w, r, tp)
	c09Upstream(w, r)
	c09DefaultsNoSharing(w, r)
	c09NoNilEntry(w, r)
}

func c09ReadList(w *World, r *Report, tp *tpAnchors) {
	ri := r.Rule("C09.1", 12, "every forwarded header that heimdall reads from an incoming request is in the list stripped for untrusted peers")
	nth := map[string]int{}
	for _, fn := range w.Funcs {
		p := fnPkgPath(fn)
		if w.isMockFn(fn) || !strings.HasPrefix(p, modPath+"/internal/handler") {
			continue
		}
		inExtraction := strings.HasPrefix(p, modPath+"/internal/handler/requestcontext")
		for _, c := range findCalls(fn, named("net/http.Header.Get", "net/http.Header.Values")) {
			// only reads on an incoming request: the header map comes from a *http.Request that is not an outgoing one
			_, hp := accessPath(c.Common().Args[0])
			if len(hp) >= 2 && hp[len(hp)-2] == "Out" {
				continue
			}
			names, complete := headerKeyConsts(w, fn, c.Common().Args[1], 0)
			for _, n := range names {
				cn := textproto.CanonicalMIMEHeaderKey(n)
				if !fwdRe.MatchString(cn) && !inExtraction {
					continue
				}
				if !fwdRe.MatchString(cn) && inExtraction {
					// the request-extraction layer may read only stripped headers by constant name
				}
				r.Analysed(w.FnName(fn))
				nth[w.FnName(fn)+cn]++
				r.Ob(ri, fmt.Sprintf("%s|reads|%s#%d", w.FnName(fn), cn, nth[w.FnName(fn)+cn]), c.Pos(), tp.strip[cn],
					"header "+cn+" is read from the incoming request but is not removed for untrusted peers: an untrusted client can set it")
			}
			if !complete && inExtraction {
				// a dynamic name in the extraction layer is the documented API (Header(name)); its callers are mechanisms
				_ = complete
			}
		}
	}
	var names []string
	for n := range tp.strip {
		names = append(names, n)
	}
	sort.Strings(names)
	r.Note("stripped for untrusted peers: " + strings.Join(names, ", "))
}

func c09Unconditional(w *World, r *Report, tp *tpAnchors) {
	ri := r.Rule("C09.2", 3, "for an untrusted peer the whole list is removed, and the request is always handed on")
	h := tp.handler
	isTrust := func(v ssa.Value) bool { return v == tp.trust }
	// every Del sits on the not-trusted edge ... and nothing on the trusted edge deletes or adds
	// the sites at which the handler strips: the Del calls themselves or the calls of the helper holding them
	var sites []*ssa.Call
	loopFn := h
	if tp.stripFn != nil {
		sites, loopFn = tp.stripCalls, tp.stripFn
	} else {
		sites = tp.delCalls
	}
	ok := len(tp.delCalls) > 0 && len(sites) > 0
	for _, d := range sites {
		if !onlyVia(h, d.Block(), func(f Fact) bool { return f.Kind == FFalse && isTrust(f.V) }) {
			ok = false
		}
		if d.Common().Args[0] == nil {
			ok = false
		}
	}
	r.Ob(ri, w.FnName(h)+"|strip-on-untrusted", h.Pos(), ok, "the removal loop must sit on the false edge of the trust test")
	// the loop covers the whole list: it ranges over the list variable itself (no sub-slice, no early exit)
	full := false
	eachInstr(loopFn, func(in ssa.Instruction) {
		if rg, isR := in.(*ssa.Range); isR {
			_ = rg
		}
		if l, isL := in.(*ssa.Call); isL {
			if b, isB := l.Call.Value.(*ssa.Builtin); isB && b.Name() == "len" {
				if u, isU := l.Call.Args[0].(*ssa.UnOp); isU && u.X == tp.listVar {
					full = true
				}
			}
		}
	})
	// no break out of the loop: the Del block's loop has a single exit (the length test)
	exits := 0
	if tp.stripFn != nil {
		// in a helper the loop must be unconditional: the only branch is the loop's own length test
		nIf := 0
		eachInstr(loopFn, func(in ssa.Instruction) {
			if _, isIf := in.(*ssa.If); isIf {
				nIf++
			}
		})
		if nIf != 1 {
			full = false
		}
	}
	for _, d := range tp.delCalls {
		for _, b := range loopFn.Blocks {
			if !(reach(d.Block(), nil)[b] && reach(b, nil)[d.Block()]) && b != d.Block() {
				continue
			}
			for _, s := range b.Succs {
				if !reach(s, nil)[d.Block()] {
					exits++
				}
			}
		}
	}
	// ... and removes in every iteration: from the loop body no way leads back to the loop test
	// without passing the removal (a removal that depends on what the header contains can be dodged:
	// an empty first value hides the values in further header lines)
	everyIter := true
	for _, d := range tp.delCalls {
		db := d.Block()
		for _, hb := range loopFn.Blocks {
			// a loop header of the removal loop: on a cycle with the Del block, with an exit
			if hb == db || !(reach(db, nil)[hb] && reach(hb, nil)[db]) || len(hb.Succs) != 2 {
				continue
			}
			exitIdx := -1
			for i, sx := range hb.Succs {
				if !reach(sx, nil)[db] && sx != db {
					exitIdx = i
				}
			}
			if exitIdx < 0 {
				continue
			}
			body := hb.Succs[1-exitIdx]
			// can the header be reached again from the body entry without the removal?
			seen := map[*ssa.BasicBlock]bool{}
			work := []*ssa.BasicBlock{body}
			for len(work) > 0 {
				x := work[len(work)-1]
				work = work[:len(work)-1]
				if seen[x] || x == db {
					continue
				}
				seen[x] = true
				if x == hb {
					everyIter = false
					break
				}
				for si, sx := range x.Succs {
					// skipping the removal where the header is absent altogether (no values under its
					// key) skips nothing
					absent := false
					for _, f := range edgeFacts(x, si) {
						if l, kd := lenFact(f); l != nil && kd == "empty" {
							if vc, _ := resultOfCall(l); vc != nil && callName(vc.Common()) == "net/http.Header.Values" {
								absent = true
							}
							if _, isLookup := stripConv(l).(*ssa.Lookup); isLookup {
								absent = true
							}
						}
						if f.Kind == FFalse {
							if ex, isEx := f.V.(*ssa.Extract); isEx && ex.Index == 1 {
								if lk, isLk := ex.Tuple.(*ssa.Lookup); isLk && lk.CommaOk {
									absent = true
								}
							}
						}
					}
					if !absent {
						work = append(work, sx)
					}
				}
			}
		}
	}
	r.Ob(ri, w.FnName(h)+"|whole-list", h.Pos(), full && exits == 1 && everyIter, "the removal loop must range over the complete list without early exit and remove the header in every iteration")
	// next.ServeHTTP is reached on both edges with the handler's own request
	next := findCalls(h, named("net/http.Handler.ServeHTTP"))
	okN := len(next) == 1
	if okN {
		n := next[0]
		okN = n.Common().Args[1] == h.Params[1] && n.Common().Args[0] == h.Params[0] &&
			reachEntry(h, factCut(func(f Fact) bool { return f.Kind == FTrue && isTrust(f.V) }))[n.Block()] &&
			reachEntry(h, factCut(func(f Fact) bool { return f.Kind == FFalse && isTrust(f.V) }))[n.Block()]
		// and nothing returns before it
		for _, ret := range returnsOf(h) {
			if !dominatesInstr(n, ret) {
				okN = false
			}
		}
	}
	r.Ob(ri, w.FnName(h)+"|always-forwards-same-request", h.Pos(), okN, "next.ServeHTTP must be called on every path with the same request and writer")
	// the removal cannot be bypassed: without the trusted edge, the request is handed on only through the removal loop
	okB := len(next) == 1 && len(tp.delCalls) > 0
	if okB && tp.stripFn != nil {
		// the helper call is the removal: hand-on without the trusted edge only through its block
		hdrs := map[*ssa.BasicBlock]bool{}
		for _, c := range tp.stripCalls {
			hdrs[c.Block()] = true
		}
		seen := map[*ssa.BasicBlock]bool{}
		work := []*ssa.BasicBlock{h.Blocks[0]}
		for len(work) > 0 {
			b := work[len(work)-1]
			work = work[:len(work)-1]
			if seen[b] || hdrs[b] {
				continue
			}
			seen[b] = true
			for i, sb := range b.Succs {
				cutEdge := false
				for _, f := range edgeFacts(b, i) {
					if f.Kind == FTrue && isTrust(f.V) {
						cutEdge = true
					}
				}
				if !cutEdge {
					work = append(work, sb)
				}
			}
		}
		if seen[next[0].Block()] && !hdrs[next[0].Block()] {
			okB = false
		}
	} else if okB {
		hdrs := map[*ssa.BasicBlock]bool{}
		for _, d := range tp.delCalls {
			// the innermost loop header dominating the Del block
			var best *ssa.BasicBlock
			for _, b := range h.Blocks {
				for _, sb := range b.Succs {
					if sb.Dominates(b) && sb.Dominates(d.Block()) && reach(d.Block(), nil)[b] {
						if best == nil || best.Dominates(sb) {
							best = sb
						}
					}
				}
			}
			if best == nil {
				best = d.Block()
			}
			hdrs[best] = true
		}
		seen := map[*ssa.BasicBlock]bool{}
		work := []*ssa.BasicBlock{h.Blocks[0]}
		for len(work) > 0 {
			b := work[len(work)-1]
			work = work[:len(work)-1]
			if seen[b] || hdrs[b] {
				continue
			}
			seen[b] = true
			for i, sb := range b.Succs {
				cutEdge := false
				for _, f := range edgeFacts(b, i) {
					if f.Kind == FTrue && isTrust(f.V) {
						cutEdge = true
					}
				}
				if !cutEdge {
					work = append(work, sb)
				}
			}
		}
		if seen[next[0].Block()] {
			okB = false
		}
	}
	r.Ob(ri, w.FnName(h)+"|strip-cannot-be-bypassed", h.Pos(), okB, "the request of a peer that is not known to be trusted can reach next.ServeHTTP without passing the removal of the forwarded headers")
}

func c09TrustFromConnection(w *World, r *Report, tp *tpAnchors) {
	ri := r.Rule("C09.3", 1, "the trust decision depends on the connection's peer address only")
	h := tp.handler
	arg := callArgs(tp.trust.Common())[0]
	fromAddr := dependsOn(w, arg, func(v ssa.Value) bool { return pathEndsWith(v, "RemoteAddr") })
	fromHeader := dependsOn(w, arg, func(v ssa.Value) bool {
		if c, ok := v.(*ssa.Call); ok {
			n := callName(c.Common())
			return strings.HasPrefix(n, "net/http.Header.") || n == "net/http.Request.Cookie" || n == "net/http.Request.FormValue"
		}
		return pathEndsWith(v, "Header") || pathEndsWith(v, "Host") || pathEndsWith(v, "URL")
	})
	r.Ob(ri, w.FnName(h)+"|trust-from-remote-addr", tp.trust.Pos(), fromAddr && !fromHeader, "the value tested against the trusted proxies must originate from req.RemoteAddr and from nothing the client controls")
}

func c09FirstInChain(w *World, r *Report, tp *tpAnchors) {
	ri := r.Rule("C09.4", 4, "the trusted-proxy middleware is the first element of each request-processing chain and is configured from that service's trusted_proxies")
	newHandler := modPath + "/internal/handler/service.NewHandler"
	for _, fn := range w.Funcs {
		if w.isMockFn(fn) || len(findCalls(fn, named(newHandler))) == 0 {
			continue
		}
		r.Analysed(w.FnName(fn))
		key := w.FnName(fn)
		chains := findCalls(fn, func(c *ssa.CallCommon) bool { return strings.HasSuffix(callName(c), "alice.New") })
		if len(chains) != 1 {
			r.Ob(ri, key+"|chain", fn.Pos(), false, "expected exactly one middleware chain")
			continue
		}
		els := sliceLiteralElems(chains[0].Common().Args[0])
		var first *ssa.Call
		if len(els) > 0 && els[0] != nil {
			first, _ = resultOfCall(stripConv(els[0]))
		}
		ok := first != nil && first.Common().StaticCallee() == tp.newFn
		r.Ob(ri, key+"|first", chains[0].Pos(), ok, "trustedproxy.New(...) must be element 0 of the chain (no middleware may see the request before the forwarded headers of untrusted peers are removed)")
		if !ok {
			continue
		}
		okCfg := false
		bad := ""
		if len(first.Common().Args) >= 2 {
			okCfg = true
			saw := false
			for _, o := range w.Origins(first.Common().Args[1], nil) {
				switch {
				case pathEndsWith(o, "TrustedProxies"):
					saw = true
				default:
					if sl, isS := o.(*ssa.Slice); isS {
						if len(sliceLiteralElems(sl)) == 0 {
							continue
						}
					}
					if c, isC := o.(*ssa.Const); isC && c.Value == nil {
						continue
					}
					okCfg, bad = false, o.String()
				}
			}
			if !saw {
				okCfg = false
			}
		}
		r.Ob(ri, key+"|configured-from-trusted-proxies", first.Pos(), okCfg, "the proxies handed to the middleware must be the service's trusted_proxies setting or an empty list "+bad)
	}
}

func c09Extraction(w *World, r *Report, tp *tpAnchors) {
	ri := r.Rule("C09.5", 6, "method, URL components and client addresses are taken only from the documented header of that component or from the actual request")
	allowed := map[string][]string{
		"Scheme":   {"X-Forwarded-Proto"},
		"Host":     {"X-Forwarded-Host"},
		"Path":     {"X-Forwarded-Uri", "X-Forwarded-Path"},
		"RawPath":  {"X-Forwarded-Uri", "X-Forwarded-Path"},
		"RawQuery": {"X-Forwarded-Uri"},
	}
	fallback := map[string]string{"Scheme": "TLS", "Host": "Host", "Path": "URL", "RawPath": "URL", "RawQuery": "URL"}
	headersIn := func(v ssa.Value) []string {
		var out []string
		dependsOn(w, v, func(x ssa.Value) bool {
			if c, ok := x.(*ssa.Call); ok {
				n := callName(c.Common())
				if n == "net/http.Header.Get" || n == "net/http.Header.Values" {
					if s, ok := constString(c.Common().Args[1]); ok {
						out = append(out, textproto.CanonicalMIMEHeaderKey(s))
					} else {
						out = append(out, "<dynamic>")
					}
				}
			}
			return false
		})
		return out
	}
	subset := func(hs []string, al []string) (bool, string) {
		for _, h := range hs {
			ok := false
			for _, a := range al {
				if a == h {
					ok = true
				}
			}
			if !ok {
				return false, h
			}
		}
		return true, ""
	}
	n := 0
	for _, fn := range w.Funcs {
		if fnPkgPath(fn) != modPath+"/internal/handler/requestcontext" || w.isMockFn(fn) || fn.Parent() != nil {
			continue
		}
		for _, lit := range urlLiterals(fn) {
			r.Analysed(w.FnName(fn))
			for _, f := range []string{"Scheme", "Host", "Path", "RawPath", "RawQuery"} {
				v, _ := storedField(lit, f)
				if v == nil {
					continue
				}
				n++
				hs := headersIn(v)
				ok, badH := subset(hs, allowed[f])
				msg := ""
				if !ok {
					msg = "URL component " + f + " depends on header " + badH
				}
				fb := dependsOnCtl(w, v, func(x ssa.Value) bool {
					return pathEndsWith(x, fallback[f]) || (f != "Scheme" && pathEndsWith(x, "URL", "RawQuery"))
				})
				if ok && !fb {
					ok, msg = false, "URL component "+f+" has no fallback to the actual request"
				}
				if ok && len(hs) == 0 {
					ok, msg = false, "URL component "+f+" ignores its forwarded header"
				}
				r.Ob(ri, w.FnName(fn)+"|url-component|"+f, lit.Pos(), ok, msg)
			}
		}
		// method and client IPs: functions taking / using the *http.Request and returning string / []string
		res := fn.Signature.Results()
		if res.Len() != 1 {
			continue
		}
		var al []string
		var fbName string
		switch {
		case res.At(0).Type().String() == "string" && fn.Signature.Recv() == nil && fn.Signature.Params().Len() == 1 && strings.HasSuffix(fn.Signature.Params().At(0).Type().String(), "http.Request"):
			al, fbName = []string{"X-Forwarded-Method"}, "Method"
		case res.At(0).Type().String() == "[]string" && fn.Signature.Recv() != nil && fn.Signature.Params().Len() == 0:
			al, fbName = []string{"Forwarded", "X-Forwarded-For"}, "RemoteAddr"
		default:
			continue
		}
		for _, ret := range returnsOf(fn) {
			hs := headersIn(ret.Results[0])
			if len(hs) == 0 && !dependsOn(w, ret.Results[0], func(x ssa.Value) bool { return pathEndsWith(x, fbName) }) {
				continue
			}
			n++
			r.Analysed(w.FnName(fn))
			ok, badH := subset(hs, al)
			msg := ""
			if !ok {
				msg = "the result depends on header " + badH
			}
			if ok && !dependsOn(w, ret.Results[0], func(x ssa.Value) bool { return pathEndsWith(x, fbName) }) {
				// the fallback may be in another return
				any := false
				for _, r2 := range returnsOf(fn) {
					if dependsOn(w, r2.Results[0], func(x ssa.Value) bool { return pathEndsWith(x, fbName) }) {
						any = true
					}
				}
				if !any {
					ok, msg = false, "no fallback to the actual request ("+fbName+")"
				}
			}
			r.Ob(ri, w.FnName(fn)+"|"+fbName+"|"+retKey(w, fn, ret), ret.Pos(), ok, msg)
		}
	}
	if n == 0 {
		r.Undecided(ri, "request extraction functions not found")
	}
}

func c09Upstream(w *World, r *Report) {
	ri := r.Rule("C09.6", 5, "the proxy re-creates the forwarding headers for the upstream: client-sent ones are dropped, the peer address is appended")
	n := 0
	for _, fn := range w.Funcs {
		if w.isMockFn(fn) {
			continue
		}
		eachInstr(fn, func(in ssa.Instruction) {
			a, ok := in.(*ssa.Alloc)
			if !ok {
				return
			}
			p, ok := a.Type().(*types.Pointer)
			if !ok || p.Elem().String() != "net/http/httputil.ReverseProxy" {
				return
			}
			n++
			r.Analysed(w.FnName(fn))
			key := w.FnName(fn) + "|ReverseProxy"
			rw, _ := storedField(a, "Rewrite")
			dir, _ := storedField(a, "Director")
			r.Ob(ri, key+"|rewrite-not-director", a.Pos(), rw != nil && dir == nil, "ReverseProxy must use Rewrite (net/http then removes client-sent Forwarded / X-Forwarded-* from the outbound request) and not Director")
			if rw == nil {
				return
			}
			// the rewrite function
			var rf *ssa.Function
			for _, o := range w.Origins(rw, nil) {
				if f := closureFn(o); f != nil {
					rf = f
				}
				if c, _ := resultOfCall(o); c != nil {
					if callee := c.Common().StaticCallee(); callee != nil {
						for _, ret := range returnsOf(callee) {
							if f := closureFn(ret.Results[0]); f != nil {
								rf = f
							}
						}
					}
				}
			}
			if rf == nil {
				r.Ob(ri, key+"|rewrite-function", a.Pos(), false, "rewrite function not resolvable")
				return
			}
			r.Analysed(w.FnName(rf))
			isOut := func(v ssa.Value) bool {
				_, p := accessPath(v)
				return len(p) >= 2 && p[len(p)-2] == "Out" && p[len(p)-1] == "Header"
			}
			for _, h := range []string{"X-Forwarded-Method", "X-Forwarded-Uri", "X-Forwarded-Path"} {
				ok := false
				for _, d := range findCalls(rf, named("net/http.Header.Del")) {
					if s, isC := constString(d.Common().Args[1]); isC && textproto.CanonicalMIMEHeaderKey(s) == h && isOut(d.Common().Args[0]) {
						all := true
						for _, ret := range returnsOf(rf) {
							if !dominatesInstr(d, ret) {
								all = false
							}
						}
						if all {
							ok = true
						}
					}
				}
				r.Ob(ri, key+"|deletes|"+h, rf.Pos(), ok, "the outgoing request must not carry "+h+" on any path")
			}
			// X-Forwarded-For or Forwarded set on every path, each including the peer address
			var sets []*ssa.Call
			for _, s := range findCalls(rf, named("net/http.Header.Set")) {
				if name, isC := constString(s.Common().Args[1]); isC && isOut(s.Common().Args[0]) {
					cn := textproto.CanonicalMIMEHeaderKey(name)
					if cn == "X-Forwarded-For" || cn == "Forwarded" {
						sets = append(sets, s)
						peer := true
						for _, alt := range alternatives(w, s.Common().Args[2], s.Block()) {
							if !dependsOn(w, alt.V, func(v ssa.Value) bool { return pathEndsWith(v, "RemoteAddr") }) {
								peer = false
							}
						}
						r.Ob(ri, key+"|peer-appended|"+cn, s.Pos(), peer, cn+" sent upstream must include the address of the directly connected peer (RemoteAddr)")
					}
				}
			}
			blocked := map[*ssa.BasicBlock]bool{}
			for _, s := range sets {
				blocked[s.Block()] = true
			}
			okAll := len(sets) > 0
			seen := map[*ssa.BasicBlock]bool{}
			work := []*ssa.BasicBlock{rf.Blocks[0]}
			for len(work) > 0 {
				b := work[len(work)-1]
				work = work[:len(work)-1]
				if seen[b] || blocked[b] {
					continue
				}
				seen[b] = true
				if len(b.Instrs) > 0 {
					if _, isRet := b.Instrs[len(b.Instrs)-1].(*ssa.Return); isRet {
						okAll = false
					}
				}
				work = append(work, b.Succs...)
			}
			r.Ob(ri, key+"|forwarding-header-on-every-path", rf.Pos(), okAll, "every path through the rewrite function must set X-Forwarded-For or Forwarded")
		})
	}
	if n == 0 {
		r.Undecided(ri, "no httputil.ReverseProxy literal found")
	}
}

// c09DefaultsNoSharing (C09.7): the configuration defaults are the storage the loader decodes
// into. A reference value (pointer, map, slice) placed into two services' defaults - directly or
// by copying a struct local that carries it - makes what is configured for one service (its
// trusted_proxies list) show up in, or wipe, the other's.
func c09DefaultsNoSharing(w *World, r *Report) {
	ri := r.Rule("C09.7", 1, "in the configuration defaults no reference value (pointer, map, slice) is placed into more than one field, and no struct local carrying one is copied more than once: each service's trusted_proxies storage is its own")
	// the defaults: the function NewConfiguration calls to obtain the Configuration value it loads into
	var fn *ssa.Function
	if nc := w.Func("internal/config", "NewConfiguration"); nc != nil {
		for _, ci := range callsIn(nc) {
			if g := ci.Common().StaticCallee(); g != nil && g.Blocks != nil && fnPkgPath(g) == fnPkgPath(nc) && g.Signature.Params().Len() == 0 && g.Signature.Results().Len() == 1 && strings.HasSuffix(g.Signature.Results().At(0).Type().String(), "config.Configuration") {
				fn = g
			}
		}
	}
	if fn == nil {
		r.Undecided(ri, "the function providing the configuration defaults to NewConfiguration was not found")
		return
	}
	r.Analysed(w.FnName(fn))
	isRef := func(v ssa.Value) bool {
		switch x := stripConv(v).(type) {
		case *ssa.Alloc:
			return x.Heap
		case *ssa.MakeMap, *ssa.MakeSlice, *ssa.Slice:
			return true
		}
		return false
	}
	// 1. each reference value goes to one place
	placed := map[ssa.Value][]*ssa.Store{}
	carrier := map[*ssa.Alloc]ssa.Value{} // struct local -> a reference value stored into one of its fields
	eachInstr(fn, func(in ssa.Instruction) {
		st, ok := in.(*ssa.Store)
		if !ok || !isRef(st.Val) {
			return
		}
		if _, isField := st.Addr.(*ssa.FieldAddr); !isField {
			return
		}
		v := stripConv(st.Val)
		placed[v] = append(placed[v], st)
		if root, _ := accessPath(st.Addr); root != nil {
			if a, ok := root.(*ssa.Alloc); ok {
				if _, isStruct := derefType(a.Type()).Underlying().(*types.Struct); isStruct {
					carrier[a] = v
				}
			}
		}
	})
	n := 0
	var refVals []ssa.Value
	for v := range placed {
		refVals = append(refVals, v)
	}
	sort.Slice(refVals, func(i, j int) bool { return placed[refVals[i]][0].Pos() < placed[refVals[j]][0].Pos() })
	for _, v := range refVals {
		sts := placed[v]
		n++
		r.Ob(ri, fmt.Sprintf("%s|reference-value#%d", w.FnName(fn), n), sts[0].Pos(), len(sts) == 1,
			fmt.Sprintf("the %s created here is stored into %d fields: the services share one storage", v.Type(), len(sts)))
	}
	// 2. a struct local carrying a reference value is copied at most once
	m := 0
	var carriers []*ssa.Alloc
	for a := range carrier {
		carriers = append(carriers, a)
	}
	sort.Slice(carriers, func(i, j int) bool { return carriers[i].Pos() < carriers[j].Pos() })
	for _, a := range carriers {
		copies := 0
		if refs := a.Referrers(); refs != nil {
			for _, rf := range *refs {
				if ld, ok := rf.(*ssa.UnOp); ok && ld.Op == token.MUL && ld.Referrers() != nil {
					for _, u := range *ld.Referrers() {
						if st, ok := u.(*ssa.Store); ok && st.Val == ssa.Value(ld) {
							copies++
						}
					}
				}
			}
		}
		if a == nil || copies == 0 {
			continue
		}
		m++
		r.Ob(ri, fmt.Sprintf("%s|carrier-copied#%d", w.FnName(fn), m), a.Pos(), copies <= 1,
			fmt.Sprintf("the struct value %s carries a reference value and is copied into %d places: all copies share that storage", a.Comment, copies))
	}
	// 3. and the defaults are built afresh for every load: a value kept in a package-level variable
	// and handed out as a struct copy shares its maps, slices and pointers between all loads
	fresh := true
	var gname string
	for _, ret := range returnsOf(fn) {
		for _, rv := range ret.Results {
			dependsOn(w, rv, func(x ssa.Value) bool {
				if u, ok := x.(*ssa.UnOp); ok && u.Op == token.MUL {
					if g, isG := u.X.(*ssa.Global); isG && g.Pkg != nil && g.Pkg.Pkg != nil && strings.HasPrefix(g.Pkg.Pkg.Path(), modPath) {
						if _, isStruct := u.Type().Underlying().(*types.Struct); isStruct {
							fresh = false
							gname = g.Name()
						}
					}
				}
				return false
			})
		}
	}
	r.Ob(ri, w.FnName(fn)+"|defaults-built-per-load", fn.Pos(), fresh, "the defaults are a copy of the package-level variable "+gname+": the maps / slices / pointers inside it are shared by every configuration loaded in this process, and the loader decodes into them")
	if n == 0 {
		r.Undecided(ri, "no reference-typed default value found in defaultConfig (anchor lost?)")
	}
}

// c09NoNilEntry (C09.8): the address of a peer that cannot be parsed is the nil IP, and the nil IP
// equals the nil IP. An entry of trusted_proxies that does not parse must therefore never enter the
// set as a nil address: it would make every peer with an unparsable address (a zoned link-local
// one) a trusted proxy. Decided where the set is filled: the result of net.ParseIP is added only
// through the edge on which it was found non-nil.
func c09NoNilEntry(w *World, r *Report) {
	ri := r.Rule("C09.8", 1, "an entry of trusted_proxies that is not an IP address is not added to the trusted set (a nil address would equal the nil address of a peer whose address cannot be parsed)")
	n := 0
	for _, fn := range w.Funcs {
		if w.isMockFn(fn) || fn.Blocks == nil || !strings.HasSuffix(fnPkgPath(fn), "/middleware/http/trustedproxy") {
			continue
		}
		for _, pc := range findCalls(fn, named("net.ParseIP")) {
			var pv ssa.Value = pc
			// the uses that put the parsed address into a collection: an append whose elements depend on it
			for _, c := range callsIn(fn) {
				cc, ok := c.(*ssa.Call)
				if !ok {
					continue
				}
				b, isB := cc.Call.Value.(*ssa.Builtin)
				if !isB || b.Name() != "append" || len(cc.Call.Args) != 2 {
					continue
				}
				if !dependsOn(w, cc.Call.Args[1], func(x ssa.Value) bool { return x == pv }) {
					continue
				}
				n++
				r.Analysed(w.FnName(fn))
				ok2 := onlyVia(fn, cc.Block(), func(f Fact) bool { return f.Kind == FNonNil && (f.V == pv || sameValue(f.V, pv)) })
				r.Ob(ri, fmt.Sprintf("%s|parsed-entry-non-nil#%d", w.FnName(fn), n), cc.Pos(), ok2, "the result of net.ParseIP is added to the trusted set without a test that it is non-nil: an entry that is not an IP address (a host name, a blank) makes every peer whose address cannot be parsed a trusted proxy")
			}
		}
	}
	if n == 0 {
		r.Undecided(ri, "no single-address entry is added to the trusted proxy set")
	}
}
