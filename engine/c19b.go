package main

import (
	"fmt"
	"go/token"
	"go/types"
	"sort"
	"strings"

	"golang.org/x/tools/go/ssa"
)

// C19.6: unbounded recursion ends in "fatal error: stack overflow", which no recover can stop.
// Every directly recursive module function must show structural progress at each recursive call:
// an argument (or the receiver) that descends into / shrinks the corresponding parameter, or a
// membership guard on the accumulator that grows.

// descends: v is derived from parameter p by taking a part of it (field, element, sub-slice, map
// value, range element) - recursion on it follows the (finite, acyclic by construction) data.
func descends(w *World, v ssa.Value, p *ssa.Parameter, depth int) bool {
	if depth > 8 {
		return false
	}
	switch x := stripConv(v).(type) {
	case *ssa.Parameter:
		return false
	case *ssa.UnOp:
		if x.Op == token.MUL {
			return partOf(w, x.X, p, depth+1)
		}
	case *ssa.Slice:
		// s[n:] / s[:n] of the parameter (or of a part of it)
		if x.Low != nil || x.High != nil {
			if stripConv(x.X) == ssa.Value(p) || partOf(w, x.X, p, depth+1) || descends(w, x.X, p, depth+1) {
				return true
			}
			if ld, ok := stripConv(x.X).(*ssa.UnOp); ok {
				if a, ok := ld.X.(*ssa.Alloc); ok {
					return spilledParam(a) == p
				}
			}
		}
	case *ssa.Extract:
		// range element / map value / comma-ok lookup of the parameter
		switch t := x.Tuple.(type) {
		case *ssa.Next:
			if rg, ok := t.Iter.(*ssa.Range); ok {
				return stripConv(rg.X) == ssa.Value(p) || descends(w, rg.X, p, depth+1) || isParamLoad(rg.X, p)
			}
		case *ssa.Lookup:
			return stripConv(t.X) == ssa.Value(p) || descends(w, t.X, p, depth+1)
		case *ssa.TypeAssert:
			return stripConv(t.X) == ssa.Value(p) || descends(w, t.X, p, depth+1)
		}
	case *ssa.Lookup:
		return stripConv(x.X) == ssa.Value(p) || descends(w, x.X, p, depth+1) || isParamLoad(x.X, p)
	case *ssa.TypeAssert:
		return descends(w, x.X, p, depth+1)
	case *ssa.Field:
		return stripConv(x.X) == ssa.Value(p) || descends(w, x.X, p, depth+1)
	case *ssa.Phi:
		// all non-constant alternatives descend (a constant alternative - the zero value a local
		// starts with - cannot carry cyclic input)
		n := 0
		for _, e := range x.Edges {
			if _, isConst := e.(*ssa.Const); isConst {
				continue
			}
			if e == ssa.Value(x) {
				continue
			}
			if !descends(w, e, p, depth+1) {
				return false
			}
			n++
		}
		return n > 0
	case *ssa.Call:
		// reflect-style descent: v.Elem(), v.Index(i), v.Field(i), v.MapIndex(k) of the parameter
		cc := x.Common()
		if !cc.IsInvoke() && len(cc.Args) > 0 {
			n := callName(cc)
			// strings.Join(strings.Split(p, sep)[k:], sep): a proper suffix of the parameter
			if n == "strings.Join" {
				if sl, ok := stripConv(cc.Args[0]).(*ssa.Slice); ok && sl.Low != nil {
					src := stripConv(sl.X)
					if ld, isLd := src.(*ssa.UnOp); isLd {
						if a, isA := ld.X.(*ssa.Alloc); isA {
							var stored []ssa.Value
							if refs := a.Referrers(); refs != nil {
								for _, rf := range *refs {
									if st, ok := rf.(*ssa.Store); ok && st.Addr == ssa.Value(a) {
										stored = append(stored, st.Val)
									}
								}
							}
							if len(stored) == 1 {
								src = stripConv(stored[0])
							}
						}
					}
					if sc, ok := src.(*ssa.Call); ok && strings.HasPrefix(callName(sc.Common()), "strings.Split") && len(sc.Common().Args) > 0 {
						if stripConv(sc.Common().Args[0]) == ssa.Value(p) || isParamLoad(sc.Common().Args[0], p) {
							return true
						}
					}
				}
			}
			for _, sfx := range []string{"reflect.Value.Elem", "reflect.Value.Index", "reflect.Value.Field", "reflect.Value.MapIndex", "reflect.Type.Elem"} {
				if n == sfx {
					return stripConv(cc.Args[0]) == ssa.Value(p) || descends(w, cc.Args[0], p, depth+1) || isParamLoad(cc.Args[0], p)
				}
			}
		}
	}
	return false
}

func isParamLoad(v ssa.Value, p *ssa.Parameter) bool {
	if ld, ok := stripConv(v).(*ssa.UnOp); ok && ld.Op == token.MUL {
		if a, ok := ld.X.(*ssa.Alloc); ok {
			return spilledParam(a) == p
		}
	}
	return stripConv(v) == ssa.Value(p)
}

func spilledParam(a *ssa.Alloc) *ssa.Parameter {
	var stored []ssa.Value
	if refs := a.Referrers(); refs != nil {
		for _, rf := range *refs {
			if st, ok := rf.(*ssa.Store); ok && st.Addr == ssa.Value(a) {
				stored = append(stored, st.Val)
			}
		}
	}
	if len(stored) == 1 {
		if p, ok := stored[0].(*ssa.Parameter); ok {
			return p
		}
	}
	return nil
}

// partOf: addr is the address of a field / element reached from parameter p.
func partOf(w *World, addr ssa.Value, p *ssa.Parameter, depth int) bool {
	if depth > 8 {
		return false
	}
	switch x := addr.(type) {
	case *ssa.FieldAddr:
		return stripConv(x.X) == ssa.Value(p) || partOf(w, x.X, p, depth+1) || descends(w, x.X, p, depth+1) || isParamLoad(x.X, p)
	case *ssa.IndexAddr:
		return stripConv(x.X) == ssa.Value(p) || partOf(w, x.X, p, depth+1) || descends(w, x.X, p, depth+1) || isParamLoad(x.X, p)
	case *ssa.UnOp:
		if x.Op == token.MUL {
			return partOf(w, x.X, p, depth+1)
		}
	case *ssa.Alloc:
		// a local holding a part of p (single store)
		var stored []ssa.Value
		if refs := x.Referrers(); refs != nil {
			for _, rf := range *refs {
				if st, ok := rf.(*ssa.Store); ok && st.Addr == ssa.Value(x) {
					stored = append(stored, st.Val)
				}
			}
		}
		if len(stored) == 1 {
			return descends(w, stored[0], p, depth+1)
		}
	}
	return false
}

// shrinksInt: v = p - k (k > 0 constant) or p + k with negative k.
func shrinksInt(v ssa.Value, p *ssa.Parameter) bool {
	b, ok := v.(*ssa.BinOp)
	if !ok {
		return false
	}
	if b.Op == token.SUB && b.X == ssa.Value(p) {
		if k, ok := constInt(b.Y); ok && k > 0 {
			return true
		}
	}
	if b.Op == token.ADD && b.X == ssa.Value(p) {
		if k, ok := constInt(b.Y); ok && k < 0 {
			return true
		}
	}
	return false
}

// grows: v = append(p, ...) - an accumulator.
func grows(v ssa.Value, p *ssa.Parameter) bool {
	c, ok := v.(*ssa.Call)
	if !ok {
		return false
	}
	b, ok := c.Call.Value.(*ssa.Builtin)
	return ok && b.Name() == "append" && len(c.Call.Args) > 0 && (stripConv(c.Call.Args[0]) == ssa.Value(p) || isParamLoad(c.Call.Args[0], p))
}

// membershipGuarded: the recursive call is reachable only where an element was compared with /
// looked up in the accumulator parameter (slices.Contains*, a map lookup, or a loop over it with a
// comparison) - a visited check.
func membershipGuarded(w *World, fn *ssa.Function, call *ssa.Call, acc *ssa.Parameter) bool {
	found := false
	eachInstr(fn, func(in ssa.Instruction) {
		switch x := in.(type) {
		case *ssa.Call:
			n := callName(x.Common())
			if strings.HasPrefix(n, "slices.Contains") || strings.HasPrefix(n, "slices.Index") {
				if len(x.Common().Args) > 0 && (stripConv(x.Common().Args[0]) == ssa.Value(acc) || isParamLoad(x.Common().Args[0], acc)) && reachableAfter(x, call) {
					found = true
				}
			}
		case *ssa.Lookup:
			if (stripConv(x.X) == ssa.Value(acc) || isParamLoad(x.X, acc)) && reachableAfter(x, call) {
				found = true
			}
		case *ssa.Range:
			if (stripConv(x.X) == ssa.Value(acc) || isParamLoad(x.X, acc)) && reachableAfter(x, call) {
				found = true
			}
		case *ssa.IndexAddr:
			// a loop over the accumulator's elements (slices are ranged by index in SSA) whose
			// element takes part in a comparison / call before the recursion
			if (stripConv(x.X) == ssa.Value(acc) || isParamLoad(x.X, acc)) && reachableAfter(x, call) {
				// the index is a loop counter (rangeindex phi, or phi + 1)
				isCounter := false
				switch ix := x.Index.(type) {
				case *ssa.Phi:
					isCounter = true
				case *ssa.BinOp:
					_, a := ix.X.(*ssa.Phi)
					_, b := ix.Y.(*ssa.Phi)
					isCounter = a || b
				}
				if isCounter {
					found = true
				}
			}
		}
	})
	return found
}

func c19Recursion(w *World, r *Report) {
	ri := r.Rule("C19.6", 5, "every directly recursive function makes structural progress at each recursive call (descends into / shrinks a parameter, counts down, or guards a growing accumulator by a membership test): unbounded recursion is a fatal stack overflow that no recover stops")
	var fns []*ssa.Function
	for _, fn := range w.Funcs {
		if !w.isMockFn(fn) && fn.Blocks != nil && !strings.Contains(fnPkgPath(fn), "/mocks") {
			fns = append(fns, fn)
		}
	}
	sort.Slice(fns, func(i, j int) bool { return fns[i].String() < fns[j].String() })
	seenName := map[string]bool{}
	for _, fn := range fns {
		n := 0
		for _, ci := range callsIn(fn) {
			c, ok := ci.(*ssa.Call)
			if !ok {
				continue
			}
			callee := c.Common().StaticCallee()
			if callee == nil {
				continue
			}
			same := callee == fn || (callee.Origin() != nil && callee.Origin() == fn.Origin()) || (fn.Origin() != nil && callee == fn.Origin())
			if !same {
				continue
			}
			n++
			base := fn
			if fn.Origin() != nil {
				base = fn.Origin()
			}
			key := fmt.Sprintf("%s|recursive-call#%d", w.FnName(base), n)
			if seenName[key] {
				continue // another instantiation of the same generic function
			}
			seenName[key] = true
			r.Analysed(w.FnName(fn))
			ok2 := false
			why := ""
			args := c.Common().Args
			for i, a := range args {
				if i >= len(fn.Params) {
					break
				}
				p := fn.Params[i]
				if descends(w, a, p, 0) || shrinksInt(a, p) {
					ok2 = true
				}
				if grows(a, p) && membershipGuarded(w, fn, c, p) {
					ok2 = true
				}
				// descending into any *other* parameter's parts also is progress on finite data
				for _, q := range fn.Params {
					if q != p && descends(w, a, q, 0) {
						ok2 = true
					}
				}
			}
			if !ok2 {
				why = "no argument of the recursive call descends into or shrinks a parameter, and no growing accumulator is guarded by a membership test: cyclic input recurses until the stack overflows (fatal, not recoverable)"
			}
			r.Ob(ri, key, c.Pos(), ok2, why)
		}
	}
}

var _ = types.Typ

// c19NilCause (C19.7): errorchain's Error()/Is() walk the chain elements and dereference each
// one; a cause that is nil on every path reaching the CausedBy call (an `err` left over from an
// earlier, successful call) makes the resulting error crash whoever logs it - typically a
// provider goroutine outside any recover.
func c19NilCause(w *World, r *Report) {
	ri := r.Rule("C19.7", 100, "no error chain is given a cause that is nil on every path reaching the call (a stale err from an earlier successful call): logging such an error dereferences nil")
	for _, fn := range w.Funcs {
		if w.isMockFn(fn) {
			continue
		}
		n := 0
		for _, ci := range callsIn(fn) {
			c, ok := ci.(*ssa.Call)
			if !ok || callName(c.Common()) != errorchainPkg+".ErrorChain.CausedBy" || len(c.Common().Args) < 2 {
				continue
			}
			n++
			cause := c.Common().Args[1]
			bad := false
			why := ""
			if k, isConst := cause.(*ssa.Const); isConst && k.Value == nil {
				bad, why = true, "the cause is the constant nil"
			} else if _, isExtract := stripConv(cause).(*ssa.Extract); isExtract {
				// definitely nil: the call is reachable only through edges on which this very value was found nil
				if onlyVia(fn, c.Block(), func(f Fact) bool { return f.Kind == FNil && f.V == stripConv(cause) }) {
					bad, why = true, "the cause is an error value that was found nil on every path leading here"
				}
			}
			r.Ob(ri, fmt.Sprintf("%s|CausedBy#%d", w.FnName(fn), n), c.Pos(), !bad,
				"CausedBy is called with nil ("+why+"): the chain gets a nil element, and Error()/Is() on it dereference nil - in a provider goroutine that logs the error this terminates the process")
		}
	}
}

// ---- C19.8: a recovered panic is reported through what the function returns --------------------------
//
// `defer recoverAsError(x, &err)` (or a deferred closure assigning err) turns a panic into an error
// only if err is a *named result* of the function: after a panic the function returns from its
// recover block, which yields the named results and nothing else. With a local variable the handler
// writes into memory nobody reads and the caller is told "no error" - a malformed rule set counts as
// loaded. Decided per deferred recovering handler: the variable it writes is loaded by the
// function's recover block and returned.
func c19RecoverIntoResult(w *World, r *Report, id string) {
	ri := r.Rule(id, 1, "a deferred handler that converts a panic into an error writes into a named result of the deferring function (the value its recover block returns)")
	n := 0
	for _, fn := range w.Funcs {
		if w.isMockFn(fn) || fn.Blocks == nil {
			continue
		}
		for _, c := range callsIn(fn) {
			d, ok := c.(*ssa.Defer)
			if !ok {
				continue
			}
			var targets []ssa.Value // the variables (allocs of fn) the handler writes after recover()
			if mc, isMC := d.Call.Value.(*ssa.MakeClosure); isMC {
				cf, _ := mc.Fn.(*ssa.Function)
				if cf == nil || !callsRecover(cf) {
					continue
				}
				eachInstr(cf, func(in ssa.Instruction) {
					if st, ok := in.(*ssa.Store); ok {
						if fv, ok := st.Addr.(*ssa.FreeVar); ok && isErrorPtr(fv.Type()) {
							for i, f := range cf.FreeVars {
								if f == fv && i < len(mc.Bindings) {
									targets = append(targets, mc.Bindings[i])
								}
							}
						}
					}
				})
			} else if df := d.Call.StaticCallee(); df != nil && df.Blocks != nil && w.inModule(df) && callsRecover(df) {
				eachInstr(df, func(in ssa.Instruction) {
					if st, ok := in.(*ssa.Store); ok {
						if p, ok := st.Addr.(*ssa.Parameter); ok && isErrorPtr(p.Type()) {
							for i, q := range df.Params {
								if q == p && i < len(d.Call.Args) {
									targets = append(targets, d.Call.Args[i])
								}
							}
						}
					}
				})
			}
			for _, t := range targets {
				n++
				r.Analysed(w.FnName(fn))
				al, _ := t.(*ssa.Alloc)
				ok := false
				if al != nil && fn.Recover != nil {
					for _, in := range fn.Recover.Instrs {
						ret, isRet := in.(*ssa.Return)
						if !isRet {
							continue
						}
						for _, rv := range ret.Results {
							if u, isU := rv.(*ssa.UnOp); isU && u.Op == token.MUL && u.X == ssa.Value(al) {
								ok = true
							}
						}
					}
				}
				r.Ob(ri, w.FnName(fn)+"|recovered-error-is-returned", d.Pos(), ok, "the deferred handler converts a panic into an error but stores it into a variable that is not a named result of "+fn.Name()+": after a panic the function returns its (zero) results and the caller sees success")
			}
		}
	}
	if n == 0 {
		r.Undecided(ri, "no deferred handler converts a panic into an error")
	}
}

func callsRecover(fn *ssa.Function) bool {
	for _, c := range callsIn(fn) {
		if callName(c.Common()) == "builtin.recover" {
			return true
		}
	}
	return false
}

func isErrorPtr(t types.Type) bool {
	p, ok := t.Underlying().(*types.Pointer)
	return ok && isErrorType(p.Elem())
}

// ---- C19.9: no return with a mutex held ----------------------------------------------------------------
//
// A reload that fails half-way (a key store whose certificate does not fit, a credentials file that
// does not parse) returns early. If that return leaves a mutex locked, every later reader of the
// reloadable state - TLS handshakes, token signing, the next reload - blocks for ever: the process
// is as dead as after a crash, and nothing recovers it. Decided for every module function that
// locks a sync.Mutex / RWMutex: on every path to a return the lock was released, or its release is
// deferred (must-analysis over the CFG; lock identity by receiver access path).
func c19NoLockLeak(w *World, r *Report) {
	ri := r.Rule("C19.9", 10, "no function returns with a mutex it locked still held (every path to a return unlocks, or the unlock is deferred)")
	n := 0
	var fns []*ssa.Function
	for _, fn := range w.Funcs {
		if w.isMockFn(fn) || fn.Blocks == nil || !w.inModule(fn) {
			continue
		}
		fns = append(fns, fn)
	}
	sort.Slice(fns, func(i, j int) bool { return fns[i].String() < fns[j].String() })
	for _, fn := range fns {
		li := lockSets(fn)
		locks := false
		for _, op := range li.Ops {
			if op.Op == "lock" || op.Op == "rlock" {
				if _, isDefer := op.Call.(*ssa.Defer); !isDefer {
					locks = true
				}
			}
		}
		if !locks {
			continue
		}
		n++
		r.Analysed(w.FnName(fn))
		// a function that hands the lock to its caller on purpose (acquire helpers) never unlocks at all
		unlocks := false
		for _, op := range li.Ops {
			if op.Op == "unlock" || op.Op == "runlock" {
				unlocks = true
			}
		}
		if !unlocks && len(li.Deferred) == 0 {
			continue
		}
		pos := fn.Pos()
		leaked := uniq(append(append([]string{}, li.Unpaired...), mayHeldAtReturn(fn)...))
		r.Ob(ri, w.FnName(fn)+"|no-lock-leak", pos, len(leaked) == 0, "a return is reachable with "+strings.Join(leaked, ", ")+" still locked: after that failure every user of the guarded state blocks for ever")
	}
	if n == 0 {
		r.Undecided(ri, "no module function locks a mutex")
	}
}
