package main

import (
	"go/token"
	"go/types"
	"reflect"
	"strings"

	"golang.org/x/tools/go/ssa"
)

func init() { register("C04", checkC04) }

func checkC04(w *World, r *Report) {
	pa, err := findPipelineAnchors(w)
	if err != nil {
		r.Undecided(nil, err.Error())
		return
	}
	c01StageComposites(w, r, pa, false) // C04.1
	c04ErrArgument(w, r, pa)
	c04Extractors(w, r)
	c04FallbackFlag(w, r)
	// "cannot be parsed" means "no credentials": the parser must not be narrower than the library
	c05Tables(w, r)
}

// globalUses lists instructions (in module, non-mock functions) that load the package-level variable g.
func globalUses(w *World, g *types.Var) []*ssa.UnOp {
	var out []*ssa.UnOp
	for _, fn := range w.Funcs {
		if w.isMockFn(fn) {
			continue
		}
		eachInstr(fn, func(in ssa.Instruction) {
			if u, ok := in.(*ssa.UnOp); ok && u.Op == token.MUL {
				if gl, ok := u.X.(*ssa.Global); ok && gl.Object() == g {
					out = append(out, u)
				}
			}
		})
	}
	return out
}

// usedOnlyAsComparisonTarget: every referrer of the loaded sentinel is the target argument of
// errors.Is / errors.As or an element of a slice literal of a table (cellib error types).
func usedOnlyAsComparisonTarget(u *ssa.UnOp) bool {
	refs := u.Referrers()
	if refs == nil {
		return true
	}
	for _, rf := range *refs {
		switch x := rf.(type) {
		case *ssa.Call:
			if callName(x.Common()) == "errors.Is" && len(x.Call.Args) == 2 && x.Call.Args[1] == u {
				continue
			}
			return false
		case *ssa.Store:
			// element of a literal table ([]error{...}) – comparison table of the CEL library
			if _, ok := x.Addr.(*ssa.IndexAddr); ok {
				continue
			}
			return false
		case *ssa.DebugRef:
			continue
		default:
			return false
		}
	}
	return true
}

func c04ErrArgument(w *World, r *Report, pa *pipelineAnchors) {
	ri := r.Rule("C04.2", 12, "the missing-credentials error kind (ErrArgument) is introduced only by extractors, the credential-parse branch of an authenticator and the encoded-slash rejection; errors after extraction/parsing never carry it")
	errArg, _ := w.Obj("internal/heimdall", "ErrArgument").(*types.Var)
	adsI := w.Iface("internal/rules/mechanisms/authenticators/extractors", "AuthDataExtractStrategy")
	authI := w.Iface("internal/rules/mechanisms/authenticators", "Authenticator")
	if errArg == nil || adsI == nil || authI == nil {
		r.Undecided(ri, "ErrArgument / AuthDataExtractStrategy / Authenticator not found")
		return
	}
	getAuthData := map[*ssa.Function]bool{}
	for _, t := range w.Implementors(adsI) {
		if fn := w.Method(t, "GetAuthData"); fn != nil {
			getAuthData[fn] = true
		}
	}
	authExec := map[*ssa.Function]bool{}
	for _, t := range w.Implementors(authI) {
		if fn := w.Method(t, "Execute"); fn != nil {
			authExec[fn] = true
		}
	}
	ruleExec := w.Method(pa.ruleImpl, "Execute")
	isGetAuthDataCall := func(c *ssa.CallCommon) bool {
		o := calleeObj(c)
		if o == nil || o.Name() != "GetAuthData" {
			return false
		}
		rv := callRecv(c)
		return rv != nil && (types.Implements(rv.Type(), adsI) || types.Implements(types.NewPointer(rv.Type()), adsI))
	}
	for _, u := range globalUses(w, errArg) {
		if usedOnlyAsComparisonTarget(u) {
			continue
		}
		fn := u.Parent()
		root := fn
		for root.Parent() != nil {
			root = root.Parent()
		}
		r.Analysed(w.FnName(fn))
		key := w.FnName(fn) + "|direct-use"
		switch {
		case getAuthData[root]:
			r.Ob(ri, key+"|"+w.Pos(u.Pos()), u.Pos(), true, "extractor")
		case authExec[root]:
			// must sit on the != nil edge of the error of a third-party call that consumes the raw credential
			gads := findCalls(root, isGetAuthDataCall)
			ok := false
			for _, c := range findCalls(root, func(c *ssa.CallCommon) bool {
				if c.IsInvoke() || c.StaticCallee() == nil || w.inModule(c.StaticCallee()) || !lastResultIsError(c.Signature()) {
					return false
				}
				for _, a := range c.Args {
					for _, g := range gads {
						if isResult(g, 0)(stripConv(a)) {
							return true
						}
					}
				}
				return false
			}) {
				if fn == root && onlyVia(fn, u.Block(), nonNilOf(isResult(c, errIdx(c)))) {
					ok = true
					// the parse step must not depend on the authenticator's policy: a token rejected by
					// policy (e.g. a disallowed algorithm) is a rejected credential, not a missing one
					cfgDep := false
					for _, a := range c.Common().Args {
						isCred := false
						for _, g := range gads {
							if isResult(g, 0)(stripConv(a)) {
								isCred = true
							}
						}
						if isCred {
							continue
						}
						if dependsOn(w, a, func(x ssa.Value) bool {
							root2, p := accessPath(x)
							if par, isP := root2.(*ssa.Parameter); isP && len(fn.Params) > 0 && par == fn.Params[0] && (len(p) > 0 || x == ssa.Value(par)) {
								return true
							}
							return false
						}) {
							cfgDep = true
						}
					}
					r.Ob(ri, key+"|parse-independent-of-policy", c.Pos(), !cfgDep, "the call whose failure is classified as 'no credentials' takes an argument that depends on the authenticator's configuration: a credential rejected by policy would enable fallback")
				}
			}
			r.Ob(ri, key+"|parse-branch", u.Pos(), ok, "in an authenticator ErrArgument may be introduced only on the != nil edge of a third-party call parsing the extracted credential")
		case root == ruleExec:
			// only before the first stage call
			ok := true
			for _, c := range findCalls(root, func(c *ssa.CallCommon) bool {
				rv := callRecv(c)
				return rv != nil && types.Identical(rv.Type(), pa.compSC) && methodCallNamed(c, "Execute")
			}) {
				if c.Block() == u.Block() || reach(c.Block(), nil)[u.Block()] {
					ok = false
				}
			}
			r.Ob(ri, key+"|precondition", u.Pos(), ok, "in rule execution ErrArgument may be raised only before the authenticators run (request precondition)")
		default:
			r.Ob(ri, key+"|"+w.Pos(u.Pos()), u.Pos(), false, "ErrArgument is introduced outside extractors / credential parsing / request preconditions: it would enable fallback to the next authenticator")
		}
	}
	// errors returned by an authenticator after extraction and parsing never carry ErrArgument
	ek := w.EK()
	for fn := range authExec {
		if fn.Blocks == nil {
			continue
		}
		r.Analysed(w.FnName(fn))
		gads := findCalls(fn, isGetAuthDataCall)
		for _, ret := range returnsOf(fn) {
			k := ek.ValueKinds(ret.Results[1], nil)
			if !k.kinds[errArg] {
				r.Ob(ri, w.FnName(fn)+"|return-kinds|"+retKey(w, fn, ret), ret.Pos(), true, "")
				continue
			}
			// justified if the return sits on the != nil edge of GetAuthData's error or of a parse call on the credential
			ok := false
			for _, g := range gads {
				if onlyVia(fn, ret.Block(), nonNilOf(isResult(g, 1))) {
					ok = true
				}
			}
			for _, c := range findCalls(fn, func(c *ssa.CallCommon) bool {
				if c.IsInvoke() || c.StaticCallee() == nil || w.inModule(c.StaticCallee()) || !lastResultIsError(c.Signature()) {
					return false
				}
				for _, a := range c.Args {
					for _, g := range gads {
						if isResult(g, 0)(stripConv(a)) {
							return true
						}
					}
				}
				return false
			}) {
				if onlyVia(fn, ret.Block(), nonNilOf(isResult(c, errIdx(c)))) {
					ok = true
				}
			}
			r.Ob(ri, w.FnName(fn)+"|return-kinds|"+retKey(w, fn, ret), ret.Pos(), ok, "an error returned after the credential was extracted and parsed can carry ErrArgument, which silently enables fallback")
		}
	}
}

// retKey gives a stable descriptor for a return: its ordinal among the function's returns.
func retKey(w *World, fn *ssa.Function, ret *ssa.Return) string {
	for i, r := range returnsOf(fn) {
		if r == ret {
			return "ret" + string(rune('0'+i%10)) + string(rune('a'+i/10))
		}
	}
	return "ret?"
}

func c04Extractors(w *World, r *Report) {
	ri := r.Rule("C04.3", 9, "extractors classify 'no credentials' consistently and authenticators keep the extractor's error in the chain")
	errArg, _ := w.Obj("internal/heimdall", "ErrArgument").(*types.Var)
	adsI := w.Iface("internal/rules/mechanisms/authenticators/extractors", "AuthDataExtractStrategy")
	authI := w.Iface("internal/rules/mechanisms/authenticators", "Authenticator")
	if errArg == nil || adsI == nil || authI == nil {
		r.Undecided(ri, "anchors not found")
		return
	}
	ek := w.EK()
	for _, t := range w.Implementors(adsI) {
		fn := w.Method(t, "GetAuthData")
		if fn == nil || fn.Blocks == nil {
			continue
		}
		r.Analysed(w.FnName(fn))
		_, isComposite := t.Underlying().(*types.Slice)
		if isComposite {
			// all element errors must be chained into the returned error
			elems := findCalls(fn, func(c *ssa.CallCommon) bool { return c.IsInvoke() && c.Method.Name() == "GetAuthData" })
			for _, ret := range returnsOf(fn) {
				nonNil := false
				for _, s := range w.Sources(ret.Results[1], ret.Block()) {
					if s.Kind != "nil" {
						nonNil = true
					}
				}
				if !nonNil {
					continue
				}
				seen := map[ssa.Value]bool{}
				ek.ValueKinds(ret.Results[1], func(v ssa.Value) { seen[v] = true })
				ok := len(elems) > 0
				for _, e := range elems {
					found := false
					for v := range seen {
						if isResult(e, 1)(v) {
							found = true
						}
					}
					if !found {
						ok = false
					}
				}
				r.Ob(ri, w.FnName(fn)+"|chains-element-errors", ret.Pos(), ok, "the composite extractor's error must chain the element errors so that their kind survives")
			}
			continue
		}
		for _, ret := range returnsOf(fn) {
			nonNil := false
			for _, s := range w.Sources(ret.Results[1], ret.Block()) {
				if s.Kind != "nil" {
					nonNil = true
				}
			}
			if !nonNil {
				continue
			}
			k := ek.ValueKinds(ret.Results[1], nil)
			r.Ob(ri, w.FnName(fn)+"|error-is-argument|"+retKey(w, fn, ret), ret.Pos(), k.kinds[errArg], "every error of an extractor must carry ErrArgument (missing / unusable credentials)")
		}
	}
	// authenticators keep the extractor's error as cause
	for _, t := range w.Implementors(authI) {
		fn := w.Method(t, "Execute")
		if fn == nil || fn.Blocks == nil {
			continue
		}
		for _, g := range findCalls(fn, func(c *ssa.CallCommon) bool {
			o := calleeObj(c)
			return o != nil && o.Name() == "GetAuthData"
		}) {
			r.Analysed(w.FnName(fn))
			ok, n := true, 0
			for _, b := range fn.Blocks {
				for i := range b.Succs {
					isNN := false
					for _, f := range edgeFacts(b, i) {
						if f.Kind == FNonNil && isResult(g, 1)(f.V) {
							isNN = true
						}
					}
					if !isNN {
						continue
					}
					n++
					seen := reachFromEdge(b, i, nil)
					for _, ret := range returnsOf(fn) {
						if !seen[ret.Block()] {
							continue
						}
						vis := map[ssa.Value]bool{}
						ek.ValueKinds(ret.Results[1], func(v ssa.Value) { vis[v] = true })
						found := false
						for v := range vis {
							if isResult(g, 1)(v) {
								found = true
							}
						}
						if !found {
							ok = false
						}
					}
				}
			}
			r.Ob(ri, w.FnName(fn)+"|chains-extractor-error", g.Pos(), ok && n > 0, "on the extractor's error edge the authenticator must return an error that has the extractor's error as cause (otherwise missing credentials would not allow fallback)")
		}
	}
}

// structTagOfFieldAddr returns the struct tag of the field addressed by fa.
func structTagOfFieldAddr(fa *ssa.FieldAddr) string {
	t := fa.X.Type()
	if p, ok := t.Underlying().(*types.Pointer); ok {
		t = p.Elem()
	}
	st, ok := t.Underlying().(*types.Struct)
	if !ok || fa.Field >= st.NumFields() {
		return ""
	}
	return st.Tag(fa.Field)
}

// decodedOption: v is the value (or the dereferenced pointer value) of a struct field whose
// mapstructure tag is `name`.
func decodedOption(v ssa.Value, name string) bool {
	v = stripConv(v)
	for i := 0; i < 3; i++ {
		u, ok := v.(*ssa.UnOp)
		if !ok || u.Op != token.MUL {
			if f, ok := v.(*ssa.Field); ok {
				if st, ok := f.X.Type().Underlying().(*types.Struct); ok {
					return tagName(st.Tag(f.Field)) == name
				}
			}
			return false
		}
		if fa, ok := u.X.(*ssa.FieldAddr); ok {
			return tagName(structTagOfFieldAddr(fa)) == name
		}
		v = u.X
	}
	return false
}

func tagName(tag string) string {
	n := reflect.StructTag(tag).Get("mapstructure")
	if i := strings.Index(n, ","); i >= 0 {
		n = n[:i]
	}
	return n
}

func c04FallbackFlag(w *World, r *Report) {
	ri := r.Rule("C04.4", 6, "IsFallbackOnErrorAllowed returns false or the decoded allow_fallback_on_error option (override, else the prototype's value)")
	authI := w.Iface("internal/rules/mechanisms/authenticators", "Authenticator")
	if authI == nil {
		r.Undecided(ri, "Authenticator not found")
		return
	}
	for _, t := range w.Implementors(authI) {
		fn := w.Method(t, "IsFallbackOnErrorAllowed")
		if fn == nil || fn.Blocks == nil {
			continue
		}
		r.Analysed(w.FnName(fn))
		key := w.FnName(fn)
		var fld *types.Var
		ok, msg := true, ""
		for _, ret := range returnsOf(fn) {
			v := ret.Results[0]
			if c, isC := v.(*ssa.Const); isC {
				if c.Value != nil && c.Value.String() == "true" {
					ok, msg = false, "constantly allows fallback on error"
				}
				continue
			}
			b, f := fieldLoad(v)
			if f == nil || b != fn.Params[0] {
				ok, msg = false, "returns something else than a field of the receiver"
				continue
			}
			fld = f
		}
		r.Ob(ri, key+"|returns-flag", fn.Pos(), ok, msg)
		if fld == nil {
			continue
		}
		// every store to that field
		n := 0
		for _, g := range w.Funcs {
			if w.isMockFn(g) {
				continue
			}
			eachInstr(g, func(in ssa.Instruction) {
				st, isSt := in.(*ssa.Store)
				if !isSt {
					return
				}
				fa, isFA := st.Addr.(*ssa.FieldAddr)
				if !isFA || fieldOf(fa.X.Type(), fa.Field) != fld {
					return
				}
				n++
				ok, msg := true, ""
				for _, o := range w.Origins(st.Val, nil) {
					if decodedOption(o, "allow_fallback_on_error") {
						continue
					}
					if _, f := fieldLoad(o); f == fld {
						continue
					}
					if c, isC := o.(*ssa.Const); isC && c.Value != nil && c.Value.String() == "false" {
						continue
					}
					ok, msg = false, "the flag is set from "+o.String()+" instead of the allow_fallback_on_error option / the prototype's value"
				}
				r.Ob(ri, key+"|flag-origin|"+w.FnName(g), st.Pos(), ok, msg)
			})
		}
		if n == 0 {
			r.Ob(ri, key+"|flag-origin", fn.Pos(), false, "the flag field is never set")
		}
	}
}
