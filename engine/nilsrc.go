package main

import (
	"strings"
	"go/token"
	"go/types"

	"golang.org/x/tools/go/ssa"
)

// Src is one way a value can come about, with the block from which it enters the flow
// (for a Phi operand: the predecessor block of that edge).
type Src struct {
	Kind string // nil | nonnil | param | call | global | load | other
	V    ssa.Value
	At   *ssa.BasicBlock
	To   *ssa.BasicBlock // the Phi's block if the value enters through a Phi edge At -> To (else nil)
}

// Sources classifies the possible origins of an interface/pointer value with respect to nil-ness.
func (w *World) Sources(v ssa.Value, at *ssa.BasicBlock) []Src {
	// a value is visited once per program point it arrives at: the same value entering a Phi
	// through two different edges is two sources (each edge has its own conditions)
	type visit struct {
		v  ssa.Value
		at *ssa.BasicBlock
		to *ssa.BasicBlock
	}
	seen := map[visit]bool{}
	var out []Src
	var curTo *ssa.BasicBlock
	var walk func(v ssa.Value, at *ssa.BasicBlock)
	// walkAt continues at another program point: the value no longer enters through the Phi edge
	walkAt := func(v ssa.Value, at *ssa.BasicBlock) {
		saved := curTo
		curTo = nil
		walk(v, at)
		curTo = saved
	}
	walk = func(v ssa.Value, at *ssa.BasicBlock) {
		if v == nil {
			return
		}
		if _, isC := v.(*ssa.Const); !isC {
			if seen[visit{v, at, curTo}] {
				return
			}
			seen[visit{v, at, curTo}] = true
		}
		switch x := v.(type) {
		case *ssa.Const:
			if x.Value == nil {
				out = append(out, Src{"nil", v, at, curTo})
			} else {
				out = append(out, Src{"nonnil", v, at, curTo})
			}
		case *ssa.Phi:
			for i, e := range x.Edges {
				saved := curTo
				curTo = x.Block()
				walk(e, x.Block().Preds[i])
				curTo = saved
			}
		case *ssa.ChangeInterface:
			walk(x.X, at)
		case *ssa.ChangeType:
			walk(x.X, at)
		case *ssa.MakeInterface:
			// an interface holding a typed value is never == nil
			out = append(out, Src{"nonnil", v, at, curTo})
		case *ssa.Alloc, *ssa.MakeClosure, *ssa.Function, *ssa.MakeMap, *ssa.MakeSlice, *ssa.MakeChan, *ssa.FieldAddr, *ssa.IndexAddr:
			out = append(out, Src{"nonnil", v, at, curTo})
		case *ssa.Parameter:
			out = append(out, Src{"param", v, at, curTo})
		case *ssa.Call:
			if sel := selectOperands(x); sel != nil {
				for _, s := range sel {
					walk(s, at)
				}
				return
			}
			out = append(out, Src{"call", v, at, curTo})
		case *ssa.Extract:
			if _, ok := x.Tuple.(*ssa.Call); ok {
				out = append(out, Src{"call", v, at, curTo})
			} else {
				out = append(out, Src{"other", v, at, curTo})
			}
		case *ssa.UnOp:
			if x.Op == token.MUL {
				switch a := x.X.(type) {
				case *ssa.Global:
					out = append(out, Src{"global", a, at, curTo})
					return
				case *ssa.Alloc:
					if st := lastStoreBefore(x, a); st != nil {
						walkAt(st.Val, st.Block())
						return
					}
					found := false
					w.eachStore(a, func(st *ssa.Store) {
						found = true
						walkAt(st.Val, st.Block())
					})
					if !found {
						// zero value of the variable
						out = append(out, Src{"nil", v, at, curTo})
					}
					return
				case *ssa.FreeVar:
					if b, ok := freeVarBinding(a).(*ssa.Alloc); ok {
						found := false
						w.eachStore(b, func(st *ssa.Store) {
							found = true
							walkAt(st.Val, st.Block())
						})
						if found {
							return
						}
					}
				}
				out = append(out, Src{"load", v, at, curTo})
				return
			}
			out = append(out, Src{"other", v, at, curTo})
		default:
			out = append(out, Src{"other", v, at, curTo})
		}
	}
	walk(v, at)
	return out
}

// eachStore visits the Store instructions that write the local variable a, in its function and
// in closures capturing it.
func (w *World) eachStore(a *ssa.Alloc, f func(*ssa.Store)) {
	var scan func(fn *ssa.Function, addr ssa.Value)
	scan = func(fn *ssa.Function, addr ssa.Value) {
		refs := addr.Referrers()
		if refs == nil {
			return
		}
		for _, r := range *refs {
			switch in := r.(type) {
			case *ssa.Store:
				if in.Addr == addr {
					f(in)
				}
			case *ssa.MakeClosure:
				cl := in.Fn.(*ssa.Function)
				for i, b := range in.Bindings {
					if b == addr && i < len(cl.FreeVars) {
						scan(cl, cl.FreeVars[i])
					}
				}
			}
		}
	}
	scan(a.Parent(), a)
}

// sameValue: a and b denote the same run-time value (identical SSA value, or both are results of
// looking through interface conversions of the same value).
func sameValue(a, b ssa.Value) bool {
	return stripConv(a) == stripConv(b)
}

func stripConv(v ssa.Value) ssa.Value {
	for {
		switch x := v.(type) {
		case *ssa.ChangeInterface:
			v = x.X
		case *ssa.MakeInterface:
			v = x.X
		case *ssa.ChangeType:
			v = x.X
		default:
			return v
		}
	}
}

func isErrorType(t types.Type) bool {
	return types.Identical(t, types.Universe.Lookup("error").Type())
}

// lastResultIsError reports whether sig's last result is the error type.
func lastResultIsError(sig *types.Signature) bool {
	n := sig.Results().Len()
	return n > 0 && isErrorType(sig.Results().At(n-1).Type())
}

// derefNamed returns the named type behind t (through one pointer), or nil.
func derefNamed(t types.Type) *types.Named {
	if p, ok := t.(*types.Pointer); ok {
		t = p.Elem()
	}
	n, _ := t.(*types.Named)
	return n
}

// lastStoreBefore: the most recent store to local variable a that precedes the load in the same
// block (the defer-spilled result pattern `*r = v; rundefers; t = *r; return t`), or nil.
func lastStoreBefore(load *ssa.UnOp, a *ssa.Alloc) *ssa.Store {
	b := load.Block()
	if b == nil {
		return nil
	}
	var last *ssa.Store
	for _, in := range b.Instrs {
		if in == ssa.Instruction(load) {
			return last
		}
		if st, ok := in.(*ssa.Store); ok && st.Addr == ssa.Value(a) {
			last = st
		}
		// a call could write the variable through a captured reference
		if _, isCall := in.(ssa.CallInstruction); isCall && last != nil {
			if _, isRD := in.(*ssa.RunDefers); !isRD {
				// keep: a call between store and load does not invalidate a non-escaping local;
				// escaping locals (captured by closures) are handled conservatively below
				if escapes(a) {
					last = nil
				}
			}
		}
	}
	return nil
}

// escapes: the local variable is captured by a closure or its address is passed on.
func escapes(a *ssa.Alloc) bool {
	refs := a.Referrers()
	if refs == nil {
		return false
	}
	for _, rf := range *refs {
		switch x := rf.(type) {
		case *ssa.Store:
			if x.Val == ssa.Value(a) {
				return true
			}
		case *ssa.UnOp, *ssa.DebugRef, *ssa.FieldAddr, *ssa.IndexAddr:
		default:
			return true
		}
	}
	return false
}

// srcOnlyVia: the source s can contribute its value only on paths on which p held - either its
// entering block is reachable only through edges carrying p, or the Phi edge it enters through
// (At -> To) carries p itself (`v := d; if own != nil { v = *own }`: the default enters the merge
// through the own == nil edge).
func srcOnlyVia(fn *ssa.Function, s Src, p func(Fact) bool) bool {
	if onlyVia(fn, s.At, p) {
		return true
	}
	if s.To == nil || s.At == nil {
		return false
	}
	found := false
	for i, sb := range s.At.Succs {
		if sb != s.To {
			continue
		}
		found = true
		ok := false
		for _, f := range edgeFacts(s.At, i) {
			if p(f) {
				ok = true
			}
		}
		if !ok {
			return false
		}
	}
	return found
}

// mayBeNilAt: the (error) value v can be nil where it is used in block at: one of its sources is the
// nil constant, or a value of unknown nil-ness (a call result, a parameter, a load) that does not
// enter exclusively through an edge on which it was found non-nil. `err = f(); if err != nil { err =
// wrap(err) }; return x, err` returns f's result through the == nil edge: that is a nil.
func mayBeNilAt(w *World, fn *ssa.Function, v ssa.Value, at *ssa.BasicBlock) bool {
	return len(nilSources(w, fn, v, at)) > 0
}

// nilSources: the sources of v (see Sources) through which v can be nil at block at.
func nilSources(w *World, fn *ssa.Function, v ssa.Value, at *ssa.BasicBlock) []Src {
	var out []Src
	for _, s := range w.Sources(v, at) {
		switch s.Kind {
		case "nil":
			out = append(out, s)
			continue
		case "nonnil":
			continue
		}
		sv := s.V
		if srcOnlyVia(fn, s, func(f Fact) bool { return f.Kind == FNonNil && (f.V == sv || sameValue(f.V, sv)) }) {
			continue
		}
		// a freshly built error (constructor results of the error chain) is not nil
		if c, _ := resultOfCall(sv); c != nil {
			if n := callName(c.Common()); strings.Contains(n, "errorchain.") || strings.HasPrefix(n, "errors.New") || strings.HasPrefix(n, "fmt.Errorf") {
				continue
			}
		}
		out = append(out, s)
	}
	return out
}

// successOnlyVia: every way for the error value v to be nil at block at passes an edge carrying p
// (judged per source: a nil that enters a shared return through a Phi is judged at its edge).
func successOnlyVia(w *World, fn *ssa.Function, v ssa.Value, at *ssa.BasicBlock, p func(Fact) bool) bool {
	for _, s := range nilSources(w, fn, v, at) {
		if s.To == nil {
			// not through a Phi: the value is what it is in the using block
			if !onlyVia(fn, at, p) {
				return false
			}
			continue
		}
		if !srcOnlyVia(fn, s, p) {
			return false
		}
	}
	return true
}
