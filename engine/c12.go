package main

import (
	"fmt"
	"go/constant"
	"go/token"
	"go/types"
	"sort"
	"strings"

	"golang.org/x/tools/go/ssa"
)

func init() { register("C12", checkC12) }

const (
	httpEHPkg = "internal/handler/middleware/http/errorhandler"
	grpcEHPkg = "internal/handler/middleware/grpc/errorhandler"
)

// slotOptions maps, for an error-handler package, each slot field of its options struct to the
// exported With...ErrorCode option that assigns it.
func slotOptions(w *World, rel string) map[*types.Var]string {
	out := map[*types.Var]string{}
	p := w.P(rel)
	if p == nil {
		return out
	}
	for _, fn := range w.Funcs {
		if fnPkgPath(fn) != p.PkgPath || fn.Parent() == nil {
			continue
		}
		root := fn.Parent()
		if !strings.HasPrefix(root.Name(), "With") || !strings.HasSuffix(root.Name(), "ErrorCode") {
			continue
		}
		eachInstr(fn, func(in ssa.Instruction) {
			if st, ok := in.(*ssa.Store); ok {
				if fa, ok := st.Addr.(*ssa.FieldAddr); ok {
					if f := fieldOf(fa.X.Type(), fa.Field); f != nil {
						out[f] = root.Name()
					}
				}
			}
		})
	}
	return out
}

type classEntry struct {
	Sentinels []string
	Slot      string
	Pos       token.Pos
}

// classification extracts the ordered list of (sentinels tested with errors.Is, slot) from a translator.
func classification(w *World, fn *ssa.Function, slots map[*types.Var]string) ([]classEntry, string) {
	var tests []*ssa.Call
	for _, c := range findCalls(fn, named("errors.Is")) {
		tests = append(tests, c)
	}
	// order along the decision chain: breadth-first distance of the test's block from the entry
	dist := map[*ssa.BasicBlock]int{fn.Blocks[0]: 0}
	queue0 := []*ssa.BasicBlock{fn.Blocks[0]}
	for len(queue0) > 0 {
		b := queue0[0]
		queue0 = queue0[1:]
		for _, sb := range b.Succs {
			if _, ok := dist[sb]; !ok {
				dist[sb] = dist[b] + 1
				queue0 = append(queue0, sb)
			}
		}
	}
	// the value the decision branches on: the test itself, or the boolean Phi a materialised
	// || / && (possibly kept in a local) combines it into
	tvOf := func(t *ssa.Call) ssa.Value {
		var tv ssa.Value = t
		if refs := t.Referrers(); refs != nil {
			for _, rf := range *refs {
				if ph, isPhi := rf.(*ssa.Phi); isPhi && isBool(ph.Type()) {
					tv = ph
				}
			}
		}
		if tv == ssa.Value(t) {
			tb := t.Block()
			if len(tb.Instrs) > 0 {
				if iff, ok := tb.Instrs[len(tb.Instrs)-1].(*ssa.If); ok && iff.Cond == ssa.Value(t) && len(tb.Succs) == 2 {
					succ := tb.Succs[0]
					for _, in := range succ.Instrs {
						ph, isPhi := in.(*ssa.Phi)
						if !isPhi {
							break
						}
						if !isBool(ph.Type()) {
							continue
						}
						for k, pred := range succ.Preds {
							if pred == tb {
								if c, isC := ph.Edges[k].(*ssa.Const); isC && c.Value != nil {
									tv = ph
								}
							}
						}
					}
				}
			}
		}
		return tv
	}
	// the block in which the decision on that value is taken
	decisionBlock := func(t *ssa.Call) *ssa.BasicBlock {
		tv := tvOf(t)
		for _, b := range fn.Blocks {
			if len(b.Instrs) == 0 {
				continue
			}
			if iff, ok := b.Instrs[len(b.Instrs)-1].(*ssa.If); ok {
				c := iff.Cond
				if u, isNot := c.(*ssa.UnOp); isNot && u.Op == token.NOT {
					c = u.X
				}
				if c == tv {
					return b
				}
			}
		}
		return t.Block()
	}
	sort.SliceStable(tests, func(i, j int) bool { return dist[decisionBlock(tests[i])] < dist[decisionBlock(tests[j])] })
	sentinelOf := func(c *ssa.Call) string {
		for _, o := range w.Origins(c.Common().Args[1], nil) {
			if u, ok := o.(*ssa.UnOp); ok {
				if g, ok := u.X.(*ssa.Global); ok {
					return g.Name()
				}
			}
			if a, ok := o.(*ssa.Alloc); ok {
				return "&" + strings.TrimPrefix(a.Type().String(), "*"+modPath+"/internal/heimdall.")
			}
		}
		return "?"
	}
	slotAfter := func(b *ssa.BasicBlock, i int, stop map[*ssa.BasicBlock]bool) string {
		seen := reachFromEdge(b, i, nil)
		// nearest slot call: BFS order
		queue := []*ssa.BasicBlock{b.Succs[i]}
		vis := map[*ssa.BasicBlock]bool{}
		for len(queue) > 0 {
			x := queue[0]
			queue = queue[1:]
			if vis[x] || !seen[x] || stop[x] {
				continue
			}
			vis[x] = true
			for _, in := range x.Instrs {
				if c, ok := in.(*ssa.Call); ok && !c.Common().IsInvoke() && c.Common().StaticCallee() == nil {
					if _, f := fieldLoad(c.Common().Value); f != nil {
						if n, ok := slots[f]; ok {
							return n
						}
						return "field:" + f.Name()
					}
				}
			}
			queue = append(queue, x.Succs...)
		}
		return ""
	}
	var out []classEntry
	testBlocks := map[*ssa.BasicBlock]bool{}
	for _, t := range tests {
		testBlocks[decisionBlock(t)] = true
	}
	for _, t := range tests {
		// true edge of this test
		slot := ""
		tv := tvOf(t)
		for _, b := range fn.Blocks {
			for i := range b.Succs {
				for _, f := range rawEdgeFacts(b, i) {
					if f.Kind == FTrue && f.V == tv {
						stop := map[*ssa.BasicBlock]bool{}
						for tb := range testBlocks {
							if tb != b {
								stop[tb] = true
							}
						}
						slot = slotAfter(b, i, stop)
					}
				}
			}
		}
		s := sentinelOf(t)
		if strings.HasPrefix(s, "&") {
			slot = "redirect"
		}
		if n := len(out); n > 0 && out[n-1].Slot == slot && slot != "" {
			out[n-1].Sentinels = append(out[n-1].Sentinels, s)
			continue
		}
		out = append(out, classEntry{Sentinels: []string{s}, Slot: slot, Pos: t.Pos()})
	}
	// default slot: the slot call reachable when every test is false
	def := ""
	cut := factCut(func(f Fact) bool {
		if f.Kind != FTrue {
			return false
		}
		for _, t := range tests {
			if f.V == t {
				return true
			}
		}
		return false
	})
	seen := reachEntry(fn, cut)
	for _, b := range fn.Blocks {
		if !seen[b] {
			continue
		}
		for _, in := range b.Instrs {
			if c, ok := in.(*ssa.Call); ok && !c.Common().IsInvoke() && c.Common().StaticCallee() == nil {
				if _, f := fieldLoad(c.Common().Value); f != nil {
					if n, ok := slots[f]; ok {
						def = n
					}
				}
			}
		}
	}
	return out, def
}

func renderClass(cs []classEntry, def string) string {
	var parts []string
	for _, c := range cs {
		s := append([]string{}, c.Sentinels...)
		sort.Strings(s)
		parts = append(parts, "{"+strings.Join(s, ",")+"}->"+c.Slot)
	}
	parts = append(parts, "default->"+def)
	return strings.Join(parts, " ; ")
}

func translators(w *World) (*ssa.Function, *ssa.Function) {
	var httpT, grpcT *ssa.Function
	for _, fn := range w.Funcs {
		p := fnPkgPath(fn)
		if w.isMockFn(fn) || fn.Parent() != nil {
			continue
		}
		if p == modPath+"/"+httpEHPkg && fn.Name() == "HandleError" {
			httpT = fn
		}
		if p == modPath+"/"+grpcEHPkg && fn.Signature.Recv() != nil && len(findCalls(fn, named("errors.Is"))) > 3 {
			grpcT = fn
		}
	}
	return httpT, grpcT
}

func checkC12(w *World, r *Report) {
	httpT, grpcT := translators(w)
	if httpT == nil || grpcT == nil {
		r.Undecided(nil, "error translators (HTTP HandleError / gRPC interceptor) not found")
		return
	}
	r.Analysed(w.FnName(httpT), w.FnName(grpcT))
	hs, gs := slotOptions(w, httpEHPkg), slotOptions(w, grpcEHPkg)
	c12Agree(w, r, httpT, grpcT, hs, gs)
	c12Defaults(w, r, hs, gs)
	c12Wiring(w, r)
	c12Redirect(w, r, httpT, grpcT)
	c12Verbosity(w, r)
	c12Chain(w, r)
	c12SideEffects(w, r)
	c12ExplicitStatus(w, r, "C12.8")
	c12HeadersBeforeStatus(w, r)
	c12NotApplicableStaysInside(w, r)
	c12Challenge(w, r)
	c12PlainMediaType(w, r)
	c12ProxyErrorReachesFinalize(w, r)
}

var expectedOrder = []string{"ErrAuthentication", "ErrAuthorization", "ErrCommunicationTimeout|ErrCommunication", "ErrArgument", "ErrNoRuleFound", "&RedirectError"}

func c12Agree(w *World, r *Report, httpT, grpcT *ssa.Function, hs, gs map[*types.Var]string) {
	ri := r.Rule("C12.1", 3, "the HTTP and the gRPC error translators classify an error chain identically (same kinds, same precedence, same slots)")
	hc, hd := classification(w, httpT, hs)
	gc, gd := classification(w, grpcT, gs)
	hr, gr := renderClass(hc, hd), renderClass(gc, gd)
	r.Note("HTTP classification: " + hr)
	r.Note("gRPC classification: " + gr)
	r.Ob(ri, "translators-agree", httpT.Pos(), hr == gr, "HTTP: "+hr+"  |  gRPC: "+gr)
	// kind -> slot pairing as documented (statement of the property)
	want := map[string]string{
		"ErrAuthentication": "WithAuthenticationErrorCode", "ErrAuthorization": "WithAuthorizationErrorCode",
		"ErrCommunication": "WithCommunicationErrorCode", "ErrCommunicationTimeout": "WithCommunicationErrorCode",
		"ErrArgument": "WithPreconditionErrorCode", "ErrNoRuleFound": "WithNoRuleErrorCode", "&RedirectError": "redirect",
	}
	for name, cs := range map[string][]classEntry{"http": hc, "grpc": gc} {
		ok, msg := true, ""
		seen := map[string]bool{}
		for _, c := range cs {
			for _, s := range c.Sentinels {
				seen[s] = true
				if want[s] != c.Slot {
					ok, msg = false, fmt.Sprintf("%s is answered by slot %q, expected %q", s, c.Slot, want[s])
				}
			}
		}
		for s := range want {
			if !seen[s] {
				ok, msg = false, s+" is not classified"
			}
		}
		def := hd
		if name == "grpc" {
			def = gd
		}
		if def != "WithInternalServerErrorCode" {
			ok, msg = false, "unclassified errors are answered by slot "+def
		}
		r.Ob(ri, name+"|kind-to-slot", cs[0].Pos, ok, msg)
	}
}

// constOfCallArg finds, in function fn, calls to a module function named callee and returns the
// integer constant argument at index idx per stored slot field.
func slotConstants(w *World, fn *ssa.Function, slots map[*types.Var]string, calleeName string, idx int) map[string]int64 {
	out := map[string]int64{}
	eachInstr(fn, func(in ssa.Instruction) {
		st, ok := in.(*ssa.Store)
		if !ok {
			return
		}
		fa, ok := st.Addr.(*ssa.FieldAddr)
		if !ok {
			return
		}
		f := fieldOf(fa.X.Type(), fa.Field)
		name, isSlot := slots[f]
		if !isSlot {
			return
		}
		// the slot is built by a factory of the same package that is handed the status code
		if c, _ := resultOfCall(st.Val); c != nil && c.Common().StaticCallee() != nil && fnPkgPath(c.Common().StaticCallee()) == fnPkgPath(fn) && idx < len(c.Common().Args) {
			_ = calleeName
			if v, ok := constInt(stripConv(c.Common().Args[idx])); ok {
				out[name] = v
			}
		}
	})
	return out
}

func c12Defaults(w *World, r *Report, hs, gs map[*types.Var]string) {
	ri := r.Rule("C12.2", 14, "default status per error kind: 401, 403, 502, 400, 404, 500 – never a success status; an override applies only if given")
	want := map[string]int64{
		"WithAuthenticationErrorCode": 401, "WithAuthorizationErrorCode": 403, "WithCommunicationErrorCode": 502,
		"WithPreconditionErrorCode": 400, "WithNoRuleErrorCode": 404, "WithInternalServerErrorCode": 500,
	}
	// the HTTP defaults: the function of the package that fills (nearly) all slots at once
	var httpDef *ssa.Function
	best := 0
	for _, fn := range w.Funcs {
		if fnPkgPath(fn) != modPath+"/"+httpEHPkg || w.isMockFn(fn) || fn.Parent() != nil {
			continue
		}
		if n := len(slotConstants(w, fn, hs, "", 1)); n > best {
			best, httpDef = n, fn
		}
	}
	var got map[string]int64
	if httpDef != nil {
		r.Analysed(w.FnName(httpDef))
		got = slotConstants(w, httpDef, hs, "errorWriter", 1)
	}
	// gRPC defaults live in a package-level literal: initialised in init
	gotG := map[string]int64{}
	if p := w.SSA[modPath+"/"+grpcEHPkg]; p != nil {
		if initFn := p.Func("init"); initFn != nil {
			gotG = slotConstants(w, initFn, gs, "responseWith", 1)
		}
	}
	names := []string{}
	for n := range want {
		names = append(names, n)
	}
	sort.Strings(names)
	for _, n := range names {
		v, ok := got[n]
		r.Ob(ri, "http|default|"+n, httpDefPos(httpDef), ok && v == want[n] && v >= 400, fmt.Sprintf("HTTP default for %s is %d (present=%v), expected %d", n, v, ok, want[n]))
		v, ok = gotG[n]
		r.Ob(ri, "grpc|default|"+n, token.NoPos, ok && v == want[n] && v >= 400, fmt.Sprintf("gRPC default for %s is %d (present=%v), expected %d", n, v, ok, want[n]))
	}
	// options: the slot is replaced only through code != 0 / code > 0 and with the option's own code
	for rel, slots := range map[string]map[*types.Var]string{httpEHPkg: hs, grpcEHPkg: gs} {
		for _, fn := range w.Funcs {
			if fnPkgPath(fn) != modPath+"/"+rel || fn.Parent() == nil {
				continue
			}
			root := fn.Parent()
			if _, isOpt := want[root.Name()]; !isOpt {
				continue
			}
			r.Analysed(w.FnName(fn))
			eachInstr(fn, func(in ssa.Instruction) {
				st, ok := in.(*ssa.Store)
				if !ok {
					return
				}
				fa, ok := st.Addr.(*ssa.FieldAddr)
				if !ok {
					return
				}
				if _, isSlot := slots[fieldOf(fa.X.Type(), fa.Field)]; !isSlot {
					return
				}
				codeIs := func(v ssa.Value) bool {
					root, p := accessPath(v)
					return len(p) == 0 && root == ssa.Value(rootParam(fn.Parent(), 0))
				}
				guarded := onlyVia(fn, st.Block(), func(f Fact) bool {
					return f.Kind == FCmp && (f.Op == token.NEQ || f.Op == token.GTR) && codeIs(f.X) && isZeroConst(f.Y)
				})
				own := false
				if c, _ := resultOfCall(st.Val); c != nil {
					for _, a := range c.Common().Args {
						if codeIs(a) {
							own = true
						}
					}
				}
				r.Ob(ri, strings.TrimPrefix(rel, "internal/handler/middleware/")+"|option|"+root.Name(), st.Pos(), guarded && own, "an override replaces the default only if a code is given, and with that code")
			})
		}
	}
}

func rootParam(fn *ssa.Function, i int) *ssa.Parameter {
	if i < len(fn.Params) {
		return fn.Params[i]
	}
	return nil
}

func httpDefPos(fn *ssa.Function) token.Pos {
	if fn == nil {
		return token.NoPos
	}
	return fn.Pos()
}

func c12Wiring(w *World, r *Report) {
	ri := r.Rule("C12.3", 21, "each service wires the configured status of a kind to the option of the same kind")
	pair := map[string]string{
		"WithPreconditionErrorCode": "ArgumentError", "WithAuthenticationErrorCode": "AuthenticationError",
		"WithAuthorizationErrorCode": "AuthorizationError", "WithCommunicationErrorCode": "CommunicationError",
		"WithNoRuleErrorCode": "NoRuleError", "WithInternalServerErrorCode": "InternalError",
	}
	for _, fn := range w.Funcs {
		if w.isMockFn(fn) || !strings.HasPrefix(fnPkgPath(fn), modPath+"/internal/handler/") {
			continue
		}
		seen := map[string]bool{}
		for _, c := range callsIn(fn) {
			callee := c.Common().StaticCallee()
			if callee == nil {
				continue
			}
			p := fnPkgPath(callee)
			if p != modPath+"/"+httpEHPkg && p != modPath+"/"+grpcEHPkg {
				continue
			}
			if cfgField, ok := pair[callee.Name()]; ok {
				r.Analysed(w.FnName(fn))
				seen[callee.Name()] = true
				okA := pathEndsWith(c.Common().Args[0], "With", cfgField, "Code")
				_, pth := accessPath(c.Common().Args[0])
				r.Ob(ri, w.FnName(fn)+"|"+callee.Name(), c.Pos(), okA, callee.Name()+" receives "+strings.Join(pth, ".")+" instead of Respond.With."+cfgField+".Code")
			}
			if callee.Name() == "WithVerboseErrors" {
				r.Analysed(w.FnName(fn))
				r.Ob(ri, w.FnName(fn)+"|WithVerboseErrors", c.Pos(), pathEndsWith(c.Common().Args[0], "Respond", "Verbose"), "verbosity must come from Respond.Verbose")
			}
		}
		if len(seen) > 0 {
			for opt := range pair {
				if !seen[opt] {
					r.Ob(ri, w.FnName(fn)+"|"+opt, fn.Pos(), false, "the service does not wire "+opt)
				}
			}
		}
	}
}

func c12Redirect(w *World, r *Report, httpT, grpcT *ssa.Function) {
	ri := r.Rule("C12.4", 5, "a redirect error is answered with the handler's status code and a Location header naming its target")
	// HTTP
	okLoc, okCode := false, false
	for _, c := range findCalls(httpT, named("net/http.Header.Set")) {
		if s, ok := constString(c.Common().Args[1]); ok && s == "Location" && pathEndsWith(c.Common().Args[2], "RedirectTo") {
			okLoc = true
		}
	}
	for _, c := range findCalls(httpT, named("net/http.ResponseWriter.WriteHeader")) {
		if pathEndsWith(c.Common().Args[0], "Code") {
			okCode = true
		}
	}
	r.Ob(ri, "http|location", httpT.Pos(), okLoc, "Location must be the redirect error's RedirectTo")
	r.Ob(ri, "http|status", httpT.Pos(), okCode, "the status must be the redirect error's Code")
	// gRPC: literals
	gLoc, gCode := false, false
	eachInstr(grpcT, func(in ssa.Instruction) {
		a, ok := in.(*ssa.Alloc)
		if !ok {
			return
		}
		ts := a.Type().String()
		if strings.HasSuffix(ts, "core/v3.HeaderValue") {
			k, _ := storedField(a, "Key")
			v, _ := storedField(a, "Value")
			if s, ok := constString(k); ok && s == "Location" && v != nil && pathEndsWith(v, "RedirectTo") {
				gLoc = true
			}
		}
		if strings.HasSuffix(ts, "type/v3.HttpStatus") {
			c, _ := storedField(a, "Code")
			if c != nil && pathEndsWith(stripConv(c), "Code") {
				gCode = true
			}
			if cv, ok := c.(*ssa.Convert); ok && pathEndsWith(cv.X, "Code") {
				gCode = true
			}
		}
	})
	r.Ob(ri, "grpc|location", grpcT.Pos(), gLoc, "Location must be the redirect error's RedirectTo")
	r.Ob(ri, "grpc|status", grpcT.Pos(), gCode, "the denied status must be the redirect error's Code")
	// the redirect error handler's code: configured or 302
	// the constructor of the redirect error handler: the package-level function of the error
	// handlers package that builds the handler type producing RedirectError from a raw config
	var ctor *ssa.Function
	for _, fn := range w.Funcs {
		if w.isMockFn(fn) || fn.Parent() != nil || fn.Signature.Recv() != nil || !strings.HasSuffix(fnPkgPath(fn), "/internal/rules/mechanisms/errorhandlers") || fn.Signature.Results().Len() != 2 {
			continue
		}
		rt := derefNamed(fn.Signature.Results().At(0).Type())
		if rt == nil || !strings.Contains(strings.ToLower(rt.Obj().Name()), "redirect") {
			continue
		}
		takesRaw := false
		for i := 0; i < fn.Signature.Params().Len(); i++ {
			if _, isMap := fn.Signature.Params().At(i).Type().Underlying().(*types.Map); isMap {
				takesRaw = true
			}
		}
		if takesRaw {
			ctor = fn
		}
	}
	ok := false
	if ctor != nil {
		r.Analysed(w.FnName(ctor))
		eachInstr(ctor, func(in ssa.Instruction) {
			st, isSt := in.(*ssa.Store)
			if !isSt {
				return
			}
			fa, isFA := st.Addr.(*ssa.FieldAddr)
			if !isFA {
				return
			}
			f := fieldOf(fa.X.Type(), fa.Field)
			if f == nil || f.Type().String() != "int" {
				return
			}
			sawCfg, sawDef, bad := false, false, false
			for _, o := range w.Origins(st.Val, nil) {
				if decodedOption(o, "code") {
					sawCfg = true
				} else if v, isC := constInt(o); isC && v == 302 {
					sawDef = true
				} else {
					bad = true
				}
			}
			ok = sawCfg && sawDef && !bad
		})
	}
	r.Ob(ri, "redirect-handler|code-or-302", token.NoPos, ok, "the redirect error handler must use the configured code, else 302")
}

// isBodyRenderer: the function that renders an error into a response body (the one marshalling it);
// identified by what it does, not by its name.
func isBodyRenderer(fn *ssa.Function) bool {
	if fn == nil || fn.Blocks == nil {
		return false
	}
	return len(findCalls(fn, func(c *ssa.CallCommon) bool {
		n := callName(c)
		return n == "encoding/xml.Marshal" || strings.HasSuffix(n, "json.Marshal")
	})) > 0
}

// isOwnBoolField: v is a load of a bool field of a struct declared in package p (the handler's
// verbose flag is the only such field of its options).
func isOwnBoolField(v ssa.Value, p string) bool {
	_, f := fieldLoad(v)
	return f != nil && isBool(f.Type()) && f.Pkg() != nil && f.Pkg().Path() == p
}

func c12Verbosity(w *World, r *Report) {
	ri := r.Rule("C12.5", 3, "error details are put into the response only when verbose responses are enabled")
	// HTTP: format() is called only through the verbose flag
	n := 0
	for _, fn := range w.Funcs {
		p := fnPkgPath(fn)
		if w.isMockFn(fn) || (p != modPath+"/"+httpEHPkg && p != modPath+"/"+grpcEHPkg) {
			continue
		}
		for _, c := range callsIn(fn) {
			callee := c.Common().StaticCallee()
			if callee == nil || fnPkgPath(callee) != p || !isBodyRenderer(callee) || isBodyRenderer(fn) {
				continue
			}
			n++
			r.Analysed(w.FnName(fn))
			ok := onlyVia(fn, c.Block(), func(f Fact) bool {
				if f.Kind != FTrue {
					return false
				}
				if isOwnBoolField(f.V, p) {
					return true
				}
				if pr, isP := f.V.(*ssa.Parameter); isP && isBool(pr.Type()) {
					return true
				}
				return false
			})
			r.Ob(ri, w.FnName(fn)+"|format-only-if-verbose", c.Pos(), ok, "the error body may be rendered only through the true edge of the verbose flag")
		}
		// HTTP: body written only if produced by format
		for _, c := range findCalls(fn, named("net/http.ResponseWriter.Write")) {
			n++
			ok := true
			for _, o := range w.Origins(c.Common().Args[0], nil) {
				if fc, _ := resultOfCall(o); fc != nil && fc.Common().StaticCallee() != nil && isBodyRenderer(fc.Common().StaticCallee()) {
					continue
				}
				if isNilConst(o) {
					continue
				}
				ok = false
			}
			r.Ob(ri, w.FnName(fn)+"|body-from-format", c.Pos(), ok, "the response body must be the negotiated rendering of the error")
		}
	}
	// gRPC: the verbose argument of every slot call is the interceptor's verbose flag
	_, grpcT := translators(w)
	okV := true
	for _, c := range callsIn(grpcT) {
		if c.Common().StaticCallee() != nil || c.Common().IsInvoke() {
			continue
		}
		if _, f := fieldLoad(c.Common().Value); f == nil {
			continue
		}
		if len(c.Common().Args) == 3 && !isOwnBoolField(c.Common().Args[1], fnPkgPath(grpcT)) {
			okV = false
		}
	}
	r.Ob(ri, "grpc|verbose-flag-forwarded", grpcT.Pos(), okV, "every slot must receive the interceptor's verbose flag")
	if n == 0 {
		r.Undecided(ri, "no body rendering found")
	}
}

func c12Chain(w *World, r *Report) {
	ri := r.Rule("C12.6", 4, "errors.Is visits every element of an error chain: Is tests the head, Unwrap yields the rest, CausedBy appends at the tail")
	ec := w.Named("internal/x/errorchain", "ErrorChain")
	if ec == nil {
		r.Undecided(ri, "ErrorChain not found")
		return
	}
	// field names, resolved by type and use: the chain holds two pointers to its element type; the
	// element links to the next one and carries an error. The head is the element Is() looks at.
	hN, tN, nN, eN := "head", "tail", "next", "err"
	if st, ok := ec.Underlying().(*types.Struct); ok {
		var elemPtr types.Type
		var ptrFields []string
		for i := 0; i < st.NumFields(); i++ {
			if pt, ok := st.Field(i).Type().Underlying().(*types.Pointer); ok {
				if _, isStruct := pt.Elem().Underlying().(*types.Struct); isStruct {
					if elemPtr == nil || types.Identical(elemPtr, st.Field(i).Type()) {
						elemPtr = st.Field(i).Type()
						ptrFields = append(ptrFields, st.Field(i).Name())
					}
				}
			}
		}
		if elemPtr != nil && len(ptrFields) == 2 {
			es := elemPtr.Underlying().(*types.Pointer).Elem().Underlying().(*types.Struct)
			for i := 0; i < es.NumFields(); i++ {
				if types.Identical(es.Field(i).Type(), elemPtr) {
					nN = es.Field(i).Name()
				}
				if isErrorType(es.Field(i).Type()) {
					eN = es.Field(i).Name()
				}
			}
			if isFn := w.Method(ec, "Is"); isFn != nil {
				for _, c := range findCalls(isFn, named("errors.Is")) {
					if _, pp := accessPath(c.Common().Args[0]); len(pp) >= 2 {
						hN = pp[len(pp)-2]
					}
				}
			}
			for _, f := range ptrFields {
				if f != hN {
					tN = f
				}
			}
		}
	}
	if fn := w.Method(ec, "Is"); fn != nil {
		r.Analysed(w.FnName(fn))
		ok := false
		for _, ret := range returnsOf(fn) {
			for _, a := range alternatives(w, ret.Results[0], ret.Block()) {
				if c, _ := resultOfCall(a.V); c != nil && callName(c.Common()) == "errors.Is" && pathEndsWith(c.Common().Args[0], hN, eN) && c.Common().Args[1] == fn.Params[1] {
					ok = true
				}
			}
		}
		r.Ob(ri, "Is|tests-head", fn.Pos(), ok, "Is must compare the head element with the target")
	}
	if fn := w.Method(ec, "Unwrap"); fn != nil {
		r.Analysed(w.FnName(fn))
		ok, msg := true, ""
		sawRest := false
		for _, ret := range returnsOf(fn) {
			for _, s := range w.Sources(ret.Results[0], ret.Block()) {
				switch s.Kind {
				case "nil":
					// only where there is no next element
					if !srcOnlyVia(fn, s, func(f Fact) bool {
						return f.Kind == FNil && (pathIs(f.V, hN) || pathIs(f.V, hN, nN))
					}) {
						ok, msg = false, "Unwrap can return nil although a next element exists"
					}
					// and not through any other nil test
					seen := reachEntry(fn, factCut(func(f Fact) bool {
						return f.Kind == FNil && !(pathIs(f.V, hN) || pathIs(f.V, hN, nN))
					}))
					if !seen[s.At] {
						ok, msg = false, "Unwrap returns nil depending on something else than head / head.next"
					}
				case "nonnil":
					if mi, isMI := s.V.(*ssa.MakeInterface); isMI {
						if a, isA := mi.X.(*ssa.Alloc); isA {
							h, _ := storedField(a, hN)
							if h != nil && pathIs(h, hN, nN) {
								sawRest = true
							} else {
								ok, msg = false, "the unwrapped chain does not start at head.next"
							}
							t, _ := storedField(a, tN)
							if t == nil || !pathIs(t, tN) {
								ok, msg = false, "the unwrapped chain loses its tail"
							}
						}
					}
				}
			}
		}
		// extra nil tests on deeper elements are not allowed: every nil fact is on head or head.next
		eachInstr(fn, func(in ssa.Instruction) {
			if iff, isIf := in.(*ssa.If); isIf {
				for _, f := range append(condFacts(iff.Cond, true), condFacts(iff.Cond, false)...) {
					if (f.Kind == FNil || f.Kind == FNonNil) && !(pathIs(f.V, hN) || pathIs(f.V, hN, nN)) {
						ok, msg = false, "Unwrap decides on something else than head / head.next"
					}
				}
			}
		})
		r.Ob(ri, "Unwrap|yields-rest", fn.Pos(), ok && sawRest, msg)
	}
	// the worker behind CausedBy (resolved through the call, not by name)
	var causedByFn *ssa.Function
	if pub := w.Method(ec, "CausedBy"); pub != nil {
		for _, ci := range callsIn(pub) {
			if g := ci.Common().StaticCallee(); g != nil && g.Blocks != nil && g.Signature.Recv() != nil && derefNamed(g.Signature.Recv().Type()) == ec {
				causedByFn = g
			}
		}
		if causedByFn == nil {
			causedByFn = pub
		}
	}
	if fn := causedByFn; fn != nil {
		r.Analysed(w.FnName(fn))
		appendTail, setTail, headOnce := false, false, true
		eachInstr(fn, func(in ssa.Instruction) {
			st, isSt := in.(*ssa.Store)
			if !isSt {
				return
			}
			_, p := accessPath(st.Addr)
			_, isNew := stripConv(st.Val).(*ssa.Alloc)
			switch strings.Join(p, ".") {
			case tN + "." + nN:
				appendTail = appendTail || isNew
			case tN:
				setTail = setTail || isNew
			case hN:
				if !onlyVia(fn, st.Block(), func(f Fact) bool { return f.Kind == FNil && pathIs(f.V, hN) }) {
					headOnce = false
				}
			}
		})
		r.Ob(ri, "causedBy|appends-at-tail", fn.Pos(), appendTail && setTail && headOnce, "a cause must be linked behind the current tail and become the new tail; the head is set only for an empty chain")
		// the new element carries the given error
		okErr := false
		eachInstr(fn, func(in ssa.Instruction) {
			if a, isA := in.(*ssa.Alloc); isA {
				if v, _ := storedField(a, eN); v != nil && v == fn.Params[1] {
					okErr = true
				}
			}
		})
		r.Ob(ri, "causedBy|keeps-error", fn.Pos(), okErr, "the new element must hold the given error")
	}
}

func c12SideEffects(w *World, r *Report) {
	ri := r.Rule("C12.7", 3, "what an error-handler mechanism records in the context reaches the error response")
	ctxI := w.Iface("internal/heimdall", "Context")
	ehI := w.Iface("internal/rules/mechanisms/errorhandlers", "ErrorHandler")
	if ctxI == nil || ehI == nil {
		r.Undecided(ri, "anchors not found")
		return
	}
	readOnly := map[string]bool{"AppContext": true, "Request": true, "Outputs": true}
	type use struct {
		mech   *ssa.Function
		method string
		call   *ssa.Call
	}
	var uses []use
	for _, t := range w.Implementors(ehI) {
		if t.Obj().Pkg().Path() == modPath+"/internal/rules" {
			continue
		}
		fn := w.Method(t, "Execute")
		if fn == nil || fn.Blocks == nil {
			continue
		}
		for _, c := range findCalls(fn, func(c *ssa.CallCommon) bool {
			return c.IsInvoke() && c.Value == fn.Params[1] && !readOnly[c.Method.Name()]
		}) {
			uses = append(uses, use{fn, c.Common().Method.Name(), c})
		}
	}
	for _, t := range w.Implementors(ctxI) {
		fin := declaredMethod(w, t, "Finalize")
		if fin == nil {
			continue
		}
		pe := pipelineErrField(w, t)
		for _, u := range uses {
			m := w.Method(t, u.method)
			if m == nil || m.Blocks == nil {
				continue
			}
			r.Analysed(w.FnName(m))
			// state written by the method
			var fields []*types.Var
			eachInstr(m, func(in ssa.Instruction) {
				switch x := in.(type) {
				case *ssa.Store:
					if fa, ok := x.Addr.(*ssa.FieldAddr); ok {
						fields = append(fields, fieldOf(fa.X.Type(), fa.Field))
					}
				case *ssa.MapUpdate:
					if _, f := fieldLoad(x.Map); f != nil {
						fields = append(fields, f)
					}
				case *ssa.Call:
					for _, a := range x.Common().Args {
						if _, f := fieldLoad(a); f != nil {
							fields = append(fields, f)
						}
					}
				}
			})
			for _, f := range fields {
				if f == nil {
					continue
				}
				// is f (or a getter of it) read on the error path of Finalize (blocks on the != nil edge of the pipeline error)?
				readOnErr := false
				isPE := func(v ssa.Value) bool {
					if _, lf := fieldLoad(v); lf == pe {
						return true
					}
					if c, _ := resultOfCall(v); c != nil {
						if callee := c.Common().StaticCallee(); callee != nil && isGetterOf(callee, pe) {
							return true
						}
					}
					return false
				}
				for _, b := range fin.Blocks {
					for i := range b.Succs {
						for _, ft := range edgeFacts(b, i) {
							if ft.Kind == FNonNil && isPE(ft.V) {
								for blk := range reachFromEdge(b, i, nil) {
									for _, in := range blk.Instrs {
										if v, ok := in.(ssa.Value); ok {
											if _, lf := fieldLoad(v); lf == f {
												readOnErr = true
											}
											if c, ok := v.(*ssa.Call); ok {
												if callee := c.Common().StaticCallee(); callee != nil && isGetterOf(callee, f) {
													readOnErr = true
												}
											}
										}
									}
								}
							}
						}
					}
				}
				if f == pe {
					readOnErr = true // returned as the error itself (C01.2)
				}
				key := fmt.Sprintf("%s|%s|%s", w.FnName(u.mech), u.method, strings.TrimPrefix(t.String(), modPath+"/"))
				r.Ob(ri, key, u.call.Pos(), readOnErr, fmt.Sprintf("the error handler calls %s, which stores into %s of %s, but that state is read only on the success path of Finalize: it never reaches the error response", u.method, f.Name(), t.Obj().Name()))
			}
		}
	}
}

var _ = constant.MakeInt64

// ---- C12.8 / C01.9: a failure never yields the implicit success status ---------------------------------

// c12ExplicitStatus: net/http answers 200 when a handler returns without writing a status. Every
// path through the HTTP error translator must therefore reach a slot call or WriteHeader, and every
// path through a slot (the function values produced for the slots) must call WriteHeader with the
// slot's code.
func c12ExplicitStatus(w *World, r *Report, id string) {
	ri := r.Rule(id, 2, "every path through the HTTP error translator and through each error slot writes an explicit status code")
	httpT, _ := translators(w)
	if httpT == nil {
		r.Undecided(ri, "HTTP error translator not found")
		return
	}
	hs := slotOptions(w, httpEHPkg)
	// translator: every return is preceded (on every path) by a slot call or WriteHeader
	marks := map[*ssa.BasicBlock]bool{}
	for _, c := range callsIn(httpT) {
		if callName(c.Common()) == "net/http.ResponseWriter.WriteHeader" {
			marks[c.Block()] = true
		}
		if c.Common().StaticCallee() == nil && !c.Common().IsInvoke() {
			if _, f := fieldLoad(c.Common().Value); f != nil {
				if _, isSlot := hs[f]; isSlot {
					marks[c.Block()] = true
				}
			}
		}
	}
	r.Ob(ri, w.FnName(httpT)+"|status-on-every-path", httpT.Pos(), !exitReachableAvoiding(httpT, marks), "a path through the error translator returns without calling a slot or WriteHeader (net/http then answers 200)")
	// slots: the closures stored into slot fields
	n := 0
	seen := map[*ssa.Function]bool{}
	for _, fn := range w.Funcs {
		if fnPkgPath(fn) != modPath+"/"+httpEHPkg || w.isMockFn(fn) {
			continue
		}
		eachInstr(fn, func(in ssa.Instruction) {
			st, ok := in.(*ssa.Store)
			if !ok {
				return
			}
			fa, ok := st.Addr.(*ssa.FieldAddr)
			if !ok {
				return
			}
			if _, isSlot := hs[fieldOf(fa.X.Type(), fa.Field)]; !isSlot {
				return
			}
			for _, o := range w.Origins(st.Val, nil) {
				var slotFns []*ssa.Function
				if f := closureFn(o); f != nil {
					slotFns = append(slotFns, f)
				}
				if c, _ := resultOfCall(o); c != nil {
					if callee := c.Common().StaticCallee(); callee != nil && callee.Blocks != nil {
						for _, ret := range returnsOf(callee) {
							if f := closureFn(ret.Results[0]); f != nil {
								slotFns = append(slotFns, f)
							}
						}
					}
				}
				for _, sf := range slotFns {
					if seen[sf] {
						continue
					}
					seen[sf] = true
					n++
					r.Analysed(w.FnName(sf))
					m := map[*ssa.BasicBlock]bool{}
					codeOK := true
					for _, c := range findCalls(sf, named("net/http.ResponseWriter.WriteHeader")) {
						m[c.Block()] = true
						// the written code is the slot's code (captured), not a constant success
						if cv, isC := constInt(stripConv(c.Common().Args[0])); isC && cv < 400 {
							codeOK = false
						}
					}
					r.Ob(ri, w.FnName(sf)+"|slot-writes-status", sf.Pos(), !exitReachableAvoiding(sf, m) && codeOK, "an error slot can return without WriteHeader (implicit 200) or writes a success status")
				}
			}
		})
	}
	if n == 0 {
		r.Undecided(ri, "no error slot function found")
	}
}

// exitReachableAvoiding: can a Return be reached from the entry without passing a marked block?
func exitReachableAvoiding(fn *ssa.Function, marks map[*ssa.BasicBlock]bool) bool {
	if len(fn.Blocks) == 0 {
		return false
	}
	seen := map[*ssa.BasicBlock]bool{}
	work := []*ssa.BasicBlock{fn.Blocks[0]}
	for len(work) > 0 {
		b := work[len(work)-1]
		work = work[:len(work)-1]
		if seen[b] || marks[b] {
			continue
		}
		seen[b] = true
		if len(b.Instrs) > 0 {
			if _, isRet := b.Instrs[len(b.Instrs)-1].(*ssa.Return); isRet {
				return true
			}
		}
		work = append(work, b.Succs...)
	}
	return false
}

// ---- C12.4b: the www-authenticate challenge is an authentication failure (401) --------------------------

func c12Challenge(w *World, r *Report) {
	ri := r.Rule("C12.4b", 1, "the error handler that adds the WWW-Authenticate challenge records an authentication error (401), whatever the cause was")
	ehI := w.Iface("internal/rules/mechanisms/errorhandlers", "ErrorHandler")
	errAuthn, _ := w.Obj("internal/heimdall", "ErrAuthentication").(*types.Var)
	if ehI == nil || errAuthn == nil {
		r.Undecided(ri, "anchors not found")
		return
	}
	ek := w.EK()
	n := 0
	for _, t := range w.Implementors(ehI) {
		fn := w.Method(t, "Execute")
		if fn == nil || fn.Blocks == nil {
			continue
		}
		challenge := false
		for _, c := range findCalls(fn, func(c *ssa.CallCommon) bool { return c.IsInvoke() && c.Method.Name() == "AddHeaderForUpstream" }) {
			if s, ok := constString(c.Common().Args[0]); ok && strings.EqualFold(s, "WWW-Authenticate") {
				challenge = true
			}
		}
		if !challenge {
			continue
		}
		r.Analysed(w.FnName(fn))
		for _, c := range findCalls(fn, func(c *ssa.CallCommon) bool { return c.IsInvoke() && c.Method.Name() == "SetPipelineError" }) {
			n++
			k := ek.ValueKinds(c.Common().Args[0], nil)
			ok := k.kinds[errAuthn] && len(k.params) == 0
			r.Ob(ri, w.FnName(fn)+"|challenge-is-401", c.Pos(), ok, "the challenge handler must record heimdall.ErrAuthentication; forwarding the cause would answer a challenge with the cause's status (403, 502, ...)")
		}
	}
	if n == 0 {
		r.Undecided(ri, "no error handler adds a WWW-Authenticate challenge")
	}
}

// ---- C12.5b: a plain-text body is announced as text/plain ------------------------------------------------

func c12PlainMediaType(w *World, r *Report) {
	ri := r.Rule("C12.5b", 1, "a body rendered as plain text is announced with the text/plain media type")
	var fn *ssa.Function
	for _, f := range w.Funcs {
		if fnPkgPath(f) == modPath+"/"+httpEHPkg && !w.isMockFn(f) && f.Parent() == nil && isBodyRenderer(f) && f.Signature.Results().Len() >= 2 {
			fn = f
		}
	}
	if fn == nil {
		r.Undecided(ri, "HTTP error body formatter not found")
		return
	}
	r.Analysed(w.FnName(fn))
	n := 0
	for _, ret := range returnsOf(fn) {
		// a return whose body is the plain rendering (Error() of the error) and whose media type is a table element
		plain := dependsOn(w, ret.Results[1], func(x ssa.Value) bool {
			c, ok := x.(*ssa.Call)
			return ok && c.Common().IsInvoke() && c.Common().Method.Name() == "Error"
		}) && !dependsOn(w, ret.Results[1], func(x ssa.Value) bool {
			c, ok := x.(*ssa.Call)
			return ok && (strings.Contains(callName(c.Common()), "Marshal") || strings.HasPrefix(callName(c.Common()), "fmt."))
		})
		if !plain {
			continue
		}
		for _, o := range w.Origins(ret.Results[0], nil) {
			u, ok := o.(*ssa.UnOp)
			if !ok {
				continue
			}
			ia, ok := u.X.(*ssa.IndexAddr)
			if !ok {
				continue
			}
			idx, isC := constInt(ia.Index)
			root, _ := accessPath(ia.X)
			g, isG := root.(*ssa.Global)
			if !isC || !isG {
				continue
			}
			n++
			got := "?"
			if initFn := g.Pkg.Func("init"); initFn != nil {
				eachInstr(initFn, func(in ssa.Instruction) {
					if st, ok := in.(*ssa.Store); ok && st.Addr == ssa.Value(g) {
						els := sliceLiteralElems(st.Val)
						if int(idx) < len(els) && els[idx] != nil {
							if c, _ := resultOfCall(els[idx]); c != nil && len(c.Common().Args) > 0 {
								if sv, ok := constString(c.Common().Args[0]); ok {
									got = sv
								}
							}
						}
					}
				})
			}
			r.Ob(ri, w.FnName(fn)+"|plain-body-media-type", ret.Pos(), got == "text/plain", fmt.Sprintf("the plain-text body is announced with element %d of the media type table, which is %q", idx, got))
		}
	}
	if n == 0 {
		r.Undecided(ri, "no plain-text rendering with a table media type found")
	}
}

// c12ProxyErrorReachesFinalize (C12.9): in proxy mode the failure of the upstream exchange is
// reported to the ReverseProxy's ErrorHandler; Finalize returns what that handler recorded. Both
// must address the same storage - a holder handed to a helper by value is a different variable,
// and Finalize then answers an unreachable upstream with success.
func c12ProxyErrorReachesFinalize(w *World, r *Report) {
	ri := r.Rule("C12.9", 1, "the error recorded by the reverse proxy's error handler is stored in the very variable whose content the proxy's Finalize returns (same allocation, or handed on by pointer)")
	n := 0
	for _, fn := range w.Funcs {
		if w.isMockFn(fn) || !strings.HasSuffix(fnPkgPath(fn), "/internal/handler/proxy") {
			continue
		}
		eachInstr(fn, func(in ssa.Instruction) {
			st, ok := in.(*ssa.Store)
			if !ok {
				return
			}
			fa, ok := st.Addr.(*ssa.FieldAddr)
			if !ok {
				return
			}
			f := fieldOf(fa.X.Type(), fa.Field)
			if f == nil || f.Name() != "ErrorHandler" || !strings.HasSuffix(derefType(fa.X.Type()).String(), "httputil.ReverseProxy") {
				return
			}
			mc, ok := st.Val.(*ssa.MakeClosure)
			if !ok {
				return
			}
			handler := mc.Fn.(*ssa.Function)
			n++
			r.Analysed(w.FnName(handler))
			// the storage the handler writes the error to: a store through a captured variable
			var holder ssa.Value
			eachInstr(handler, func(hin ssa.Instruction) {
				hst, ok := hin.(*ssa.Store)
				if !ok || !isErrorLike(hst.Val.Type()) {
					return
				}
				// accessPath resolves a captured variable to what the closure was bound to
				root, p := accessPath(hst.Addr)
				if fv, ok := root.(*ssa.FreeVar); ok {
					for i, v := range handler.FreeVars {
						if v == fv && i < len(mc.Bindings) {
							holder = mc.Bindings[i]
						}
					}
				} else if root != nil && len(p) > 0 && root.Parent() != handler {
					holder = root
				}
			})
			if holder == nil {
				r.Ob(ri, w.FnName(fn)+"|error-handler-records", st.Pos(), false, "the reverse proxy's error handler does not record the error in a captured variable")
				return
			}
			// Finalize of the same type
			var fin *ssa.Function
			if fn.Signature.Recv() != nil {
				if t := derefNamed(fn.Signature.Recv().Type()); t != nil {
					fin = w.Method(t, "Finalize")
				}
			}
			if fin == nil {
				r.Undecided(ri, "Finalize of the proxy request context not found")
				return
			}
			// what Finalize returns once the proxy has served: loads of an error field of a local holder
			finRoots := map[ssa.Value]bool{}
			for _, ret := range returnsOf(fin) {
				for _, o := range w.Origins(ret.Results[len(ret.Results)-1], nil) {
					if ld, ok := o.(*ssa.UnOp); ok {
						if root, p := accessPath(ld.X); root != nil && len(p) > 0 {
							if _, isAlloc := root.(*ssa.Alloc); isAlloc {
								finRoots[root] = true
							}
						}
					}
				}
			}
			hroot, _ := accessPath(holder)
			ok2, why := false, ""
			switch {
			case fn == fin:
				ok2 = finRoots[hroot]
				why = "the handler records the error in another variable than the one Finalize returns"
			default:
				// the handler lives in a helper: the holder must be a pointer parameter that receives the
				// address of Finalize's variable
				pa, isParam := hroot.(*ssa.Parameter)
				if !isParam {
					why = "the helper creating the reverse proxy records the error in its own copy of the holder (handed over by value): Finalize never sees it and answers a failed upstream exchange with success"
					break
				}
				if _, isPtr := pa.Type().Underlying().(*types.Pointer); !isPtr {
					why = "the holder is handed to the helper by value"
					break
				}
				for _, e := range w.CG().In[fn] {
					ci, isCall := e.Site.(ssa.CallInstruction)
					if !isCall || e.Caller != fin {
						continue
					}
					for i, q := range fn.Params {
						if q == pa && i < len(ci.Common().Args) {
							if root, _ := accessPath(ci.Common().Args[i]); finRoots[root] || finRoots[ci.Common().Args[i]] {
								ok2 = true
							}
						}
					}
				}
				why = "the pointer handed to the helper is not the address of the variable Finalize returns"
			}
			r.Ob(ri, w.FnName(fn)+"|error-handler-and-finalize-share-storage", st.Pos(), ok2, why)
		})
	}
	if n == 0 {
		r.Undecided(ri, "no ReverseProxy with an ErrorHandler found in the proxy handler")
	}
}

// ---- C12.10: response headers are set before the status line is written ------------------------------
//
// net/http sends the header map as it is at the first WriteHeader / Write; anything set afterwards
// is dropped silently (the negotiated Content-Type of an error body, a Location, a challenge).
// Decided for every function of the handler packages that writes a status on a ResponseWriter: no
// call that modifies the header map of the same writer is reachable after the status was written.
func c12HeadersBeforeStatus(w *World, r *Report) {
	ri := r.Rule("C12.10", 3, "no response header is set after the status line was written: in every function that answers on a ResponseWriter, header modifications precede WriteHeader / Write")
	n := 0
	for _, fn := range w.Funcs {
		if w.isMockFn(fn) || !strings.HasPrefix(fnPkgPath(fn), modPath+"/internal/handler/") || fn.Blocks == nil {
			continue
		}
		var status, mods []ssa.CallInstruction
		for _, c := range callsIn(fn) {
			switch callName(c.Common()) {
			case "net/http.ResponseWriter.WriteHeader", "net/http.ResponseWriter.Write":
				status = append(status, c)
			case "net/http.Header.Set", "net/http.Header.Add", "net/http.Header.Del":
				// on the header map of a ResponseWriter
				recv := callRecv(c.Common())
				if hc, _ := resultOfCall(recv); hc != nil && callName(hc.Common()) == "net/http.ResponseWriter.Header" {
					mods = append(mods, c)
				}
			}
		}
		if len(status) == 0 {
			continue
		}
		n++
		r.Analysed(w.FnName(fn))
		ok, pos := true, fn.Pos()
		for _, s := range status {
			for _, m := range mods {
				if reachableAfter(s, m) {
					ok, pos = false, m.Pos()
				}
			}
		}
		r.Ob(ri, w.FnName(fn)+"|headers-before-status", pos, ok, "a response header is set after WriteHeader/Write on the same path: net/http has already sent the headers, so the value never reaches the client (e.g. the negotiated Content-Type of an error body)")
	}
	if n == 0 {
		r.Undecided(ri, "no function of the handler packages writes a response status")
	}
}

// ---- C12.11: "no handler applies" hands the pipeline error back unchanged -----------------------------
//
// The conditional error handler says "not for me" with a sentinel. The composite must not let that
// sentinel leave the rule: the translators classify what they get, and a sentinel has no kind - the
// failure would be answered as 500 instead of 401/403/502. Decided on the composite's Execute: a
// handler's result is returned only through the edge on which it was found *not* to be the
// sentinel; otherwise the function returns nil (handled) or the error it was given.
func c12NotApplicableStaysInside(w *World, r *Report) {
	ri := r.Rule("C12.11", 1, "the 'error handler not applicable' sentinel never leaves the error pipeline: the composite returns a handler's error only where it was tested not to be the sentinel, else nil or the pipeline error it was given")
	pa, err := findPipelineAnchors(w)
	if err == nil && pa.notApplicable == nil && pa.condEH != nil {
		// the sentinel: the package-level error the conditional handler returns
		if ce := w.Method(pa.condEH, "Execute"); ce != nil {
			for _, ret := range returnsOf(ce) {
				for _, s := range w.Sources(ret.Results[0], ret.Block()) {
					if g, ok := s.V.(*ssa.Global); ok && s.Kind == "global" {
						pa.notApplicable = g
					}
				}
			}
		}
	}
	if err != nil || pa.compEH == nil || pa.notApplicable == nil {
		r.Undecided(ri, "composite error handler / not-applicable sentinel not found")
		return
	}
	fn := w.Method(pa.compEH, "Execute")
	if fn == nil || fn.Blocks == nil {
		r.Undecided(ri, "Execute of the composite error handler not found")
		return
	}
	r.Analysed(w.FnName(fn))
	isSentinelTest := func(c *ssa.Call, v ssa.Value) bool {
		if c == nil || callName(c.Common()) != "errors.Is" || len(c.Common().Args) != 2 {
			return false
		}
		if !sameValue(c.Common().Args[0], v) && c.Common().Args[0] != v {
			return false
		}
		u, ok := c.Common().Args[1].(*ssa.UnOp)
		return ok && u.X == ssa.Value(pa.notApplicable)
	}
	n := 0
	for _, ret := range returnsOf(fn) {
		if len(ret.Results) != 1 {
			continue
		}
		n++
		ok := true
		for _, s := range w.Sources(ret.Results[0], ret.Block()) {
			if s.Kind != "call" {
				continue // nil, the parameter, a fresh error
			}
			sv := s.V
			notSentinel := func(f Fact) bool {
				if f.Kind != FFalse {
					return false
				}
				c, _ := resultOfCall(f.V)
				return isSentinelTest(c, sv)
			}
			at := s.At
			if s.To == nil {
				at = ret.Block()
			}
			if !(onlyVia(fn, at, notSentinel) || srcOnlyVia(fn, s, notSentinel)) {
				ok = false
			}
		}
		r.Ob(ri, fmt.Sprintf("%s|%s|sentinel-stays-inside", w.FnName(fn), retKey(w, fn, ret)), ret.Pos(), ok, "a handler's result can be returned without having been tested against the 'not applicable' sentinel: when no handler applies the caller receives the sentinel instead of the pipeline error, and the failure is answered as an internal error instead of by its kind")
	}
	if n == 0 {
		r.Undecided(ri, "the composite error handler has no return")
	}
}
