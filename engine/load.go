package main

import (
	"fmt"
	"go/ast"
	"go/token"
	"go/types"
	"os"
	"sort"
	"strings"

	"golang.org/x/tools/go/packages"
	"golang.org/x/tools/go/ssa"
	"golang.org/x/tools/go/ssa/ssautil"
)

const modPath = "github.com/dadrus/heimdall"

// World is the loaded, type-checked program (module packages from source on every run).
type World struct {
	Repo    string
	Fset    *token.FileSet
	Pkgs    []*packages.Package
	ByPath  map[string]*packages.Package
	Prog    *ssa.Program
	SSA     map[string]*ssa.Package
	Funcs   []*ssa.Function // every function with a body that belongs to the module (incl. closures, instantiations)
	fnByObj map[types.Object][]*ssa.Function
	cg      *CallGraph
	files   map[string][]byte
	Overlay map[string][]byte
	Whole   bool // loaded with all dependencies from source (thorough tier)
}

func loadEnv() []string {
	env := os.Environ()
	out := env[:0:0]
	for _, e := range env {
		if strings.HasPrefix(e, "GOWORK=") || strings.HasPrefix(e, "GOFLAGS=") {
			continue
		}
		out = append(out, e)
	}
	return append(out, "GOFLAGS=-mod=readonly", "GOPROXY=off", "GOSUMDB=off", "GOTOOLCHAIN=local", "GOWORK=off")
}

// Load type-checks ./... of the repository. overlay maps absolute file names to replacement contents.
func Load(repo string, whole bool, overlay map[string][]byte) (*World, error) {
	mode := packages.LoadSyntax
	if whole {
		mode = packages.LoadAllSyntax
	}
	fset := token.NewFileSet()
	cfg := &packages.Config{Mode: mode | packages.NeedModule, Dir: repo, Fset: fset, Tests: false, Env: loadEnv(), Overlay: overlay}
	pkgs, err := packages.Load(cfg, "./...")
	if err != nil {
		return nil, fmt.Errorf("packages.Load: %w", err)
	}
	nerr := 0
	var first string
	packages.Visit(pkgs, nil, func(p *packages.Package) {
		for _, e := range p.Errors {
			if nerr == 0 {
				first = e.Error()
			}
			nerr++
		}
	})
	if nerr != 0 {
		return nil, fmt.Errorf("%d load/type errors, first: %s", nerr, first)
	}
	if len(pkgs) < 100 {
		return nil, fmt.Errorf("only %d packages loaded from %s (expected >= 100)", len(pkgs), repo)
	}
	w := &World{Repo: repo, Fset: fset, Pkgs: pkgs, ByPath: map[string]*packages.Package{}, SSA: map[string]*ssa.Package{},
		fnByObj: map[types.Object][]*ssa.Function{}, files: map[string][]byte{}, Whole: whole, Overlay: overlay}
	for _, p := range pkgs {
		w.ByPath[p.PkgPath] = p
	}
	var sp []*ssa.Package
	if whole {
		w.Prog, sp = ssautil.AllPackages(pkgs, ssa.InstantiateGenerics)
	} else {
		w.Prog, sp = ssautil.Packages(pkgs, ssa.InstantiateGenerics)
	}
	w.Prog.Build()
	for i, p := range sp {
		if p == nil {
			return nil, fmt.Errorf("no SSA for package %s", pkgs[i].PkgPath)
		}
	}
	for _, p := range w.Prog.AllPackages() {
		w.SSA[p.Pkg.Path()] = p
	}
	for fn := range ssautil.AllFunctions(w.Prog) {
		if fn.Blocks == nil {
			continue
		}
		if !w.inModule(fn) {
			continue
		}
		w.Funcs = append(w.Funcs, fn)
	}
	// by file name and offset, not by token.Pos: the files enter the file set in the order the
	// (concurrent) parser finishes them, so raw positions differ from run to run
	type fkey struct {
		file string
		off  int
		name string
	}
	keys := map[*ssa.Function]fkey{}
	for _, fn := range w.Funcs {
		p := w.Fset.Position(fn.Pos())
		keys[fn] = fkey{p.Filename, p.Offset, fn.String()}
	}
	sort.Slice(w.Funcs, func(i, j int) bool {
		a, b := keys[w.Funcs[i]], keys[w.Funcs[j]]
		if a.file != b.file {
			return a.file < b.file
		}
		if a.off != b.off {
			return a.off < b.off
		}
		return a.name < b.name
	})
	for _, fn := range w.Funcs {
		if o := fn.Object(); o != nil {
			w.fnByObj[o] = append(w.fnByObj[o], fn)
		} else if org := fn.Origin(); org != nil && org.Object() != nil {
			w.fnByObj[org.Object()] = append(w.fnByObj[org.Object()], fn)
		}
	}
	gWorld = w
	return w, nil
}

// inModule reports whether fn's source belongs to the heimdall module (by position), including
// instantiations of module generics and closures.
func (w *World) inModule(fn *ssa.Function) bool {
	root := fn
	for root.Parent() != nil {
		root = root.Parent()
	}
	if o := root.Origin(); o != nil {
		root = o
	}
	if root.Pkg != nil {
		return strings.HasPrefix(root.Pkg.Pkg.Path(), modPath)
	}
	if o := root.Object(); o != nil && o.Pkg() != nil {
		return strings.HasPrefix(o.Pkg().Path(), modPath)
	}
	return false
}

func isMockPath(p string) bool {
	return strings.Contains(p, "/mocks") || strings.HasSuffix(p, "/testsupport") || strings.Contains(p, "/testsupport/")
}

// fnPkgPath returns the package path of the source a function belongs to.
func fnPkgPath(fn *ssa.Function) string {
	root := fn
	for root.Parent() != nil {
		root = root.Parent()
	}
	if o := root.Origin(); o != nil {
		root = o
	}
	if root.Pkg != nil {
		return root.Pkg.Pkg.Path()
	}
	if o := root.Object(); o != nil && o.Pkg() != nil {
		return o.Pkg().Path()
	}
	return ""
}

func (w *World) isMockFn(fn *ssa.Function) bool {
	if isMockPath(fnPkgPath(fn)) {
		return true
	}
	f := w.Fset.Position(fn.Pos()).Filename
	return strings.HasSuffix(f, "_test.go") || strings.Contains(f, "/mock_")
}

// P returns the package with the module-relative path (e.g. "internal/rules").
func (w *World) P(rel string) *packages.Package {
	if rel == "" {
		return w.ByPath[modPath]
	}
	return w.ByPath[modPath+"/"+rel]
}

// Obj looks up a package-level object by module-relative package path and name.
func (w *World) Obj(rel, name string) types.Object {
	p := w.P(rel)
	if p == nil {
		return nil
	}
	return p.Types.Scope().Lookup(name)
}

// ExtObj looks up an object in any imported package by full path.
func (w *World) ExtObj(path, name string) types.Object {
	var found types.Object
	seen := map[string]bool{}
	var visit func(p *types.Package)
	visit = func(p *types.Package) {
		if found != nil || seen[p.Path()] {
			return
		}
		seen[p.Path()] = true
		if p.Path() == path {
			found = p.Scope().Lookup(name)
			return
		}
		for _, i := range p.Imports() {
			visit(i)
		}
	}
	for _, p := range w.Pkgs {
		visit(p.Types)
		if found != nil {
			break
		}
	}
	return found
}

func (w *World) Named(rel, name string) *types.Named {
	o := w.Obj(rel, name)
	if o == nil {
		return nil
	}
	n, _ := o.Type().(*types.Named)
	return n
}

func (w *World) Iface(rel, name string) *types.Interface {
	n := w.Named(rel, name)
	if n == nil {
		return nil
	}
	i, _ := n.Underlying().(*types.Interface)
	return i
}

// Implementors returns the non-mock named module types T such that T or *T implements iface,
// sorted by name. Interfaces themselves are excluded.
func (w *World) Implementors(iface *types.Interface) []*types.Named {
	var out []*types.Named
	for _, p := range w.Pkgs {
		if isMockPath(p.PkgPath) {
			continue
		}
		sc := p.Types.Scope()
		for _, n := range sc.Names() {
			tn, ok := sc.Lookup(n).(*types.TypeName)
			if !ok || tn.IsAlias() {
				continue
			}
			nt, ok := tn.Type().(*types.Named)
			if !ok || nt.TypeParams().Len() != 0 {
				continue
			}
			if _, isI := nt.Underlying().(*types.Interface); isI {
				continue
			}
			if strings.Contains(w.Fset.Position(tn.Pos()).Filename, "/mock_") || strings.HasSuffix(w.Fset.Position(tn.Pos()).Filename, "_test.go") {
				continue
			}
			if types.Implements(nt, iface) || types.Implements(types.NewPointer(nt), iface) {
				out = append(out, nt)
			}
		}
	}
	sort.Slice(out, func(i, j int) bool { return out[i].String() < out[j].String() })
	return out
}

// Method returns the SSA function of method name on T (pointer or value receiver), or nil.
func (w *World) Method(t types.Type, name string) *ssa.Function {
	for _, tt := range []types.Type{t, types.NewPointer(t)} {
		ms := w.Prog.MethodSets.MethodSet(tt)
		for i := 0; i < ms.Len(); i++ {
			if ms.At(i).Obj().Name() == name {
				fn := w.Prog.MethodValue(ms.At(i))
				if fn != nil && fn.Synthetic != "" && strings.HasPrefix(fn.Synthetic, "wrapper") {
					// value-receiver method reached through pointer: find the declared one
					if o, ok := ms.At(i).Obj().(*types.Func); ok {
						if d := w.Prog.FuncValue(o); d != nil {
							return d
						}
					}
				}
				return fn
			}
		}
	}
	return nil
}

// Func returns the SSA function for a package-level function.
func (w *World) Func(rel, name string) *ssa.Function {
	o, _ := w.Obj(rel, name).(*types.Func)
	if o == nil {
		return nil
	}
	return w.Prog.FuncValue(o)
}

// MethodOf finds method `name` of the named type rel.typeName.
func (w *World) MethodOf(rel, typeName, name string) *ssa.Function {
	n := w.Named(rel, typeName)
	if n == nil {
		return nil
	}
	return w.Method(n, name)
}

func (w *World) Pos(p token.Pos) string {
	if !p.IsValid() {
		return "-"
	}
	ps := w.Fset.Position(p)
	return fmt.Sprintf("%s:%d", strings.TrimPrefix(ps.Filename, w.Repo+"/"), ps.Line)
}

func (w *World) FnName(fn *ssa.Function) string {
	if fn == nil {
		return "<nil>"
	}
	s := fn.String()
	return strings.ReplaceAll(s, modPath+"/", "")
}

// AnonFuncs returns fn and all closures nested in it.
func withClosures(fn *ssa.Function) []*ssa.Function {
	out := []*ssa.Function{fn}
	for _, a := range fn.AnonFuncs {
		out = append(out, withClosures(a)...)
	}
	return out
}

// astFile finds the syntax file and package for a position.
func (w *World) astFileOf(pos token.Pos) (*packages.Package, *ast.File) {
	for _, p := range w.Pkgs {
		for _, f := range p.Syntax {
			if f.Pos() <= pos && pos <= f.End() {
				return p, f
			}
		}
	}
	return nil, nil
}

// eachInstr visits every instruction of fn (not closures).
func eachInstr(fn *ssa.Function, f func(ssa.Instruction)) {
	for _, b := range fn.Blocks {
		for _, in := range b.Instrs {
			f(in)
		}
	}
}
