package main

import (
	"fmt"
	"go/token"
	"go/types"
	"strings"

	"golang.org/x/tools/go/ssa"
)

func init() { register("C13", checkC13) }

func checkC13(w *World, r *Report) {
	ctxI := w.Iface("internal/heimdall", "Context")
	rfI := w.Iface("internal/heimdall", "RequestFunctions")
	if ctxI == nil || rfI == nil {
		r.Undecided(nil, "heimdall.Context / RequestFunctions not found")
		return
	}
	c13OneRequestView(w, r, ctxI)
	c13RawPath(w, r, ctxI)
	c13Forwarding(w, r, ctxI)
	c13Lookup(w, r, rfI)
	c13EnvoyRawHeaders(w, r)
	c13PipelineErrorFirst(w, r, ctxI)
}

// declaredMethod returns the method `name` declared on t itself (not promoted), or nil.
func declaredMethod(w *World, t *types.Named, name string) *ssa.Function {
	fn := w.Method(t, name)
	if fn == nil || fn.Blocks == nil || fn.Signature.Recv() == nil || fn.Synthetic != "" {
		return nil
	}
	if derefNamed(fn.Signature.Recv().Type()) != t {
		return nil
	}
	return fn
}

// ---- C13.1 ---------------------------------------------------------------------------------------

func c13OneRequestView(w *World, r *Report, ctxI *types.Interface) {
	ri := r.Rule("C13.1", 2, "every context exposes one request view per request: Request() returns a memoised object (matching stores the captured path values into it, execution reads them from it)")
	for _, t := range w.Implementors(ctxI) {
		fn := declaredMethod(w, t, "Request")
		if fn == nil {
			continue
		}
		r.Analysed(w.FnName(fn))
		key := w.FnName(fn)
		ok, msg := true, ""
		var memo *types.Var
		for _, ret := range returnsOf(fn) {
			for _, s := range w.Sources(ret.Results[0], ret.Block()) {
				b, f := fieldLoad(s.V)
				if f == nil || b != fn.Params[0] {
					ok, msg = false, "Request() returns "+describe(s.V)+" instead of a memoised field of the context: every call yields a new object, so values stored into the view during matching (captures) are lost"
					continue
				}
				memo = f
			}
		}
		r.Ob(ri, key+"|returns-memoised-view", fn.Pos(), ok, msg)
		if memo == nil {
			continue
		}
		// the field is written only where it is still nil (lazy) or in a constructor
		okW := true
		for _, g := range w.Funcs {
			if w.isMockFn(g) {
				continue
			}
			eachInstr(g, func(in ssa.Instruction) {
				st, isSt := in.(*ssa.Store)
				if !isSt {
					return
				}
				fa, isFA := st.Addr.(*ssa.FieldAddr)
				if !isFA || fieldOf(fa.X.Type(), fa.Field) != memo {
					return
				}
				if _, fresh := fa.X.(*ssa.Alloc); fresh {
					return // constructor literal
				}
				if !onlyVia(g, st.Block(), func(f Fact) bool {
					if f.Kind != FNil {
						return false
					}
					_, lf := fieldLoad(f.V)
					return lf == memo
				}) {
					okW = false
				}
			})
		}
		r.Ob(ri, key+"|assigned-once", fn.Pos(), okW, "the memoised view must be assigned only while it is still nil")
	}
}

func describe(v ssa.Value) string {
	switch x := v.(type) {
	case *ssa.Alloc:
		return "a freshly allocated " + strings.TrimPrefix(x.Type().String(), "*"+modPath+"/")
	}
	return v.String()
}

// ---- C13.2 ---------------------------------------------------------------------------------------

// urlLiterals finds allocations of net/url.URL composite literals in fn and its closures.
func urlLiterals(fn *ssa.Function) []*ssa.Alloc {
	var out []*ssa.Alloc
	for _, g := range withClosures(fn) {
		eachInstr(g, func(in ssa.Instruction) {
			if a, ok := in.(*ssa.Alloc); ok {
				if p, ok := a.Type().(*types.Pointer); ok && p.Elem().String() == "net/url.URL" {
					out = append(out, a)
				}
			}
		})
	}
	return out
}

// nonEmptyRawPath: v is a load of some URL's RawPath that happens only where that RawPath was found
// non-empty (net/url leaves RawPath empty whenever the default encoding of Path reproduces the
// received text, so the field alone is not a raw-path source - but where it is set, it is the
// received text).
func nonEmptyRawPath(v ssa.Value) bool {
	ld, ok := v.(*ssa.UnOp)
	if !ok || ld.Block() == nil {
		return false
	}
	root, p := accessPath(v)
	if len(p) == 0 || p[len(p)-1] != "RawPath" {
		return false
	}
	fn := ld.Parent()
	return onlyVia(fn, ld.Block(), func(f Fact) bool {
		var fld ssa.Value
		if l, kd := lenFact(f); l != nil && kd == "nonempty" {
			fld = l
		} else if f.Kind == FCmp && f.Op == token.NEQ {
			for _, pr := range [][2]ssa.Value{{f.X, f.Y}, {f.Y, f.X}} {
				if s, ok := constString(pr[1]); ok && s == "" {
					fld = pr[0]
				}
			}
		}
		if fld == nil {
			return false
		}
		fr, fp := accessPath(fld)
		if fr != root || len(fp) != len(p) {
			return false
		}
		for i := range p {
			if p[i] != fp[i] {
				return false
			}
		}
		return true
	})
}

// isRawPathSource: a value that is a still percent-encoded request path.
func isRawPathSource(v ssa.Value) string {
	if nonEmptyRawPath(v) {
		return "URL.RawPath (where set)"
	}
	c, _ := resultOfCall(v)
	if c == nil {
		return ""
	}
	// a helper of the module all of whose results are raw-path sources
	if cal := c.Common().StaticCallee(); cal != nil && cal.Blocks != nil && gWorld != nil && gWorld.inModule(cal) && cal.Signature.Results().Len() == 1 && isString(cal.Signature.Results().At(0).Type()) {
		all, n := true, 0
		for _, ret := range returnsOf(cal) {
			for _, o := range gWorld.Origins(ret.Results[0], nil) {
				n++
				if o == v || isRawPathSource(o) == "" {
					all = false
				}
			}
		}
		if all && n > 0 {
			return cal.Name() + "() (raw path as received)"
		}
	}
	n := callName(c.Common())
	switch {
	case n == "net/url.URL.EscapedPath":
		return "URL.EscapedPath()"
	case strings.HasSuffix(n, "AttributeContext_HttpRequest.GetPath"):
		return "Envoy HttpRequest.GetPath()"
	}
	return ""
}

func c13RawPath(w *World, r *Report, ctxI *types.Interface) {
	ri := r.Rule("C13.2", 2, "the request URL handed to matching carries the decoded path in Path and the raw path in RawPath at every entry point")
	// functions that build the request URL: constructors / helpers reachable from the context constructors
	// are found as: functions in the handler packages that create a url.URL literal.
	n := 0
	for _, fn := range w.Funcs {
		p := fnPkgPath(fn)
		if w.isMockFn(fn) || !(strings.HasPrefix(p, modPath+"/internal/handler/requestcontext") || strings.HasPrefix(p, modPath+"/internal/handler/envoyextauth")) {
			continue
		}
		if fn.Parent() != nil {
			continue
		}
		for _, lit := range urlLiterals(fn) {
			n++
			r.Analysed(w.FnName(fn))
			key := w.FnName(fn) + "|url-literal"
			pathV, _ := storedField(lit, "Path")
			rawV, rawSt := storedField(lit, "RawPath")
			if pathV == nil {
				continue
			}
			// Path must not be a raw source
			okP, msgP := true, ""
			through := &OriginOpts{Through: func(c *ssa.Call, idx int) []ssa.Value {
				n := callName(c.Common())
				if strings.HasPrefix(n, "strings.") && len(c.Call.Args) > 0 && idx == 0 {
					return []ssa.Value{c.Call.Args[0]}
				}
				return nil
			}}
			for _, o := range w.Origins(pathV, through) {
				if src := isRawPathSource(o); src != "" {
					okP, msgP = false, "the still percent-encoded "+src+" is stored as URL.Path without url.PathUnescape (and RawPath stays empty, so the encoded-slash policy never sees it)"
				}
			}
			r.Ob(ri, key+"|path-decoded", lit.Pos(), okP, msgP)
			// RawPath is always carried: it comes from a raw-path source (EscapedPath() / the request
			// target, possibly cut at '?'), never from another URL's RawPath field, which net/url leaves
			// empty whenever the default encoding of Path reproduces the original
			okA, msgA := rawV != nil, "the request URL is built without RawPath: the lookup and the capture decoding then work on the decoded path and decode a second time"
			if rawV != nil {
				for _, o := range w.Origins(rawV, through) {
					if isRawPathSource(o) != "" {
						continue
					}
					if cs, isC := o.(*ssa.Const); isC && cs.Value != nil {
						continue
					}
					desc := o.String()
					if _, pp := accessPath(o); len(pp) > 0 {
						desc = strings.Join(pp, ".")
					}
					okA, msgA = false, "RawPath is taken from "+desc+" instead of EscapedPath() / the request target: it is empty for paths like /files/100%25, so captures are decoded twice and the entry points disagree"
				}
			}
			if okA && rawSt != nil {
				for _, ret := range returnsOf(lit.Parent()) {
					if !dominatesInstr(rawSt, ret) {
						okA, msgA = false, "RawPath is set on some paths only (as net/url does for its own parse results): where it stays empty the lookup and the capture decoding work on the already decoded path and decode a second time"
					}
				}
			}
			r.Ob(ri, key+"|rawpath-always-set", lit.Pos(), okA, msgA)
			// Envoy hands over the request target: path, possibly followed by '?' and the query. It
			// becomes the raw path only through a cut at '?', on every path
			if rawV != nil {
				direct, viaEnvoy := false, false
				for _, o := range w.Origins(rawV, nil) {
					if c, _ := resultOfCall(o); c != nil && strings.HasSuffix(callName(c.Common()), "AttributeContext_HttpRequest.GetPath") {
						direct, viaEnvoy = true, true
					}
				}
				for _, o := range w.Origins(rawV, through) {
					if c, _ := resultOfCall(o); c != nil && strings.HasSuffix(callName(c.Common()), "AttributeContext_HttpRequest.GetPath") {
						viaEnvoy = true
					}
				}
				if viaEnvoy {
					r.Ob(ri, key+"|envoy-target-cut-at-query", lit.Pos(), !direct, "the path attribute of the Envoy request (the request target, which may carry '?query') can become the raw path without being cut at '?': path, captures and rule lookup then include the query string")
				}
			}
			// if Path derives from PathUnescape(x), RawPath must be that x
			for _, o := range w.Origins(pathV, nil) {
				if c, _ := resultOfCall(o); c != nil && callName(c.Common()) == "net/url.PathUnescape" {
					okR := rawV != nil && sameOrigins(w, rawV, c.Common().Args[0])
					r.Ob(ri, key+"|rawpath-kept", lit.Pos(), okR, "RawPath must be the value that was unescaped into Path")
					// what is unescaped must be a still-encoded path: unescaping an already decoded path decodes twice
					okS, bad := true, ""
					for _, ao := range w.Origins(c.Common().Args[0], through) {
						if isRawPathSource(ao) != "" {
							continue
						}
						if cs, isC := ao.(*ssa.Const); isC && cs.Value != nil {
							continue
						}
						okS, bad = false, ao.String()
						if _, pp := accessPath(ao); len(pp) > 0 {
							bad = strings.Join(pp, ".")
						}
					}
					r.Ob(ri, key+"|unescape-input-is-raw", c.Pos(), okS, "url.PathUnescape is applied to "+bad+", which is not a raw-path source (EscapedPath / request target): an already decoded path would be decoded twice")
				}
			}
		}
	}
	if n == 0 {
		r.Undecided(ri, "no request URL construction found")
	}
}

func sameOrigins(w *World, a, b ssa.Value) bool {
	oa, ob := w.Origins(a, nil), w.Origins(b, nil)
	set := map[ssa.Value]bool{}
	for _, o := range oa {
		set[o] = true
	}
	for _, o := range ob {
		if !set[o] {
			return false
		}
	}
	return len(oa) == len(ob)
}

// ---- C13.3 ---------------------------------------------------------------------------------------

func c13Forwarding(w *World, r *Report, ctxI *types.Interface) {
	ri := r.Rule("C13.3", 3, "all entry points hand every value of every pipeline header to the upstream side")
	// the upstream header store: http.Header values filled with Add by AddHeaderForUpstream
	for _, t := range w.Implementors(ctxI) {
		fin := declaredMethod(w, t, "Finalize")
		if fin == nil {
			continue
		}
		fns := withClosures(fin)
		// include same-type helper methods that create the upstream request (proxy rewrite)
		for _, c := range callsIn(fin) {
			if callee := c.Common().StaticCallee(); callee != nil && callee.Signature.Recv() != nil && derefNamed(callee.Signature.Recv().Type()) == t && callee.Blocks != nil {
				fns = append(fns, withClosures(callee)...)
			}
		}
		// ... and small helpers of the same package these call (depth 1)
		seenFn := map[*ssa.Function]bool{}
		for _, g := range fns {
			seenFn[g] = true
		}
		for _, g := range append([]*ssa.Function{}, fns...) {
			for _, c := range callsIn(g) {
				if callee := c.Common().StaticCallee(); callee != nil && callee.Blocks != nil && !seenFn[callee] && fnPkgPath(callee) == fnPkgPath(fin) {
					seenFn[callee] = true
					fns = append(fns, withClosures(callee)...)
				}
			}
		}
		r.Analysed(w.FnName(fin))
		ok, msg, n := true, "", 0
		var isUpstreamStore func(v ssa.Value) bool
		isUpstreamStore = func(v ssa.Value) bool {
			for _, o := range w.Origins(v, nil) {
				if pa, isParam := o.(*ssa.Parameter); isParam {
					if b := bindParam(pa); b != ssa.Value(pa) && isUpstreamStore(b) {
						return true
					}
				}
				if oc, _ := resultOfCall(o); oc != nil && methodCallNamed(oc.Common(), "UpstreamHeaders") {
					return true
				}
				if _, f := fieldLoad(o); f != nil && strings.Contains(strings.ToLower(f.Name()), "upstreamheader") {
					return true
				}
			}
			return false
		}
		for _, g := range fns {
			eachInstr(g, func(in ssa.Instruction) {
				if rg, isR := in.(*ssa.Range); isR && isUpstreamStore(rg.X) {
					n++ // the forwarding loop
				}
			})
			for _, c := range callsIn(g) {
				name := callName(c.Common())
				if name != "net/http.Header.Get" && name != "net/http.Header.Values" {
					continue
				}
				if !isUpstreamStore(c.Common().Args[0]) {
					continue
				}
				if _, isConst := c.Common().Args[1].(*ssa.Const); isConst {
					continue // special-cased single header (Host)
				}
				if name == "net/http.Header.Get" {
					ok, msg = false, "pipeline headers are forwarded with Header.Get (first value only) at "+w.Pos(c.Pos())+"; a header added twice by the pipeline loses values here but not at the other entry points"
				}
			}
		}
		r.Ob(ri, w.FnName(fin)+"|all-values-forwarded", fin.Pos(), ok && n > 0, msg)
	}
}

// ---- C13.4 ---------------------------------------------------------------------------------------

func isCanonCall(c *ssa.Call) bool {
	n := callName(c.Common())
	return n == "net/textproto.CanonicalMIMEHeaderKey" || n == "net/http.CanonicalHeaderKey"
}

func c13Lookup(w *World, r *Report, rfI *types.Interface) {
	ri := r.Rule("C13.4", 4, "header lookups are case-insensitive at every entry point and bodies are decoded by the request's content type")
	for _, t := range w.Implementors(rfI) {
		if fn := declaredMethod(w, t, "Header"); fn != nil {
			r.Analysed(w.FnName(fn))
			name := fn.Params[1]
			ok, msg := true, ""
			eachInstr(fn, func(in ssa.Instruction) {
				switch x := in.(type) {
				case *ssa.Lookup:
					if _, isMap := x.X.Type().Underlying().(*types.Map); isMap && x.Index == name {
						ok, msg = false, "the header map (canonical keys) is indexed with the caller's spelling of the name: lower-case lookups succeed through the HTTP entry points and fail here"
					}
				case *ssa.Call:
					n := callName(x.Common())
					if n == "net/http.Header.Get" || n == "net/http.Header.Values" || isCanonCall(x) {
						return // these canonicalise themselves
					}
				}
			})
			r.Ob(ri, w.FnName(fn)+"|canonical-lookup", fn.Pos(), ok, msg)
		}
		if fn := declaredMethod(w, t, "Headers"); fn != nil {
			r.Analysed(w.FnName(fn))
			ok := true
			check := func(g *ssa.Function) {
				eachInstr(g, func(in ssa.Instruction) {
					mu, isMU := in.(*ssa.MapUpdate)
					if !isMU {
						return
					}
					if _, isC := mu.Key.(*ssa.Const); isC {
						return
					}
					if c, _ := resultOfCall(mu.Key); c != nil && isCanonCall(c) {
						return
					}
					ok = false
				})
			}
			check(fn)
			// a getter: the map is filled elsewhere (constructor helper)
			for _, ret := range returnsOf(fn) {
				if _, f := fieldLoad(ret.Results[0]); f != nil {
					for _, g := range w.Funcs {
						if w.isMockFn(g) {
							continue
						}
						eachInstr(g, func(in ssa.Instruction) {
							if st, isSt := in.(*ssa.Store); isSt {
								if fa, isFA := st.Addr.(*ssa.FieldAddr); isFA && fieldOf(fa.X.Type(), fa.Field) == f {
									for _, o := range w.Origins(st.Val, nil) {
										if c, _ := resultOfCall(o); c != nil {
											if callee := c.Common().StaticCallee(); callee != nil && callee.Blocks != nil {
												check(callee)
											}
										}
									}
								}
							}
						})
					}
				}
			}
			r.Ob(ri, w.FnName(fn)+"|canonical-keys", fn.Pos(), ok, "every key of the map returned by Headers() must be canonicalised")
		}
		if fn := declaredMethod(w, t, "Body"); fn != nil {
			r.Analysed(w.FnName(fn))
			decs := findCalls(fn, func(c *ssa.CallCommon) bool { return strings.HasSuffix(callName(c), "contenttype.NewDecoder") })
			ok, msg := len(decs) == 1, "the body must be decoded with the decoder selected by the Content-Type header"
			if len(decs) == 1 {
				fromHeader := false
				if hc, _ := resultOfCall(decs[0].Common().Args[0]); hc != nil && methodCallNamed(hc.Common(), "Header") {
					if s, isC := constString(callArgs(hc.Common())[0]); isC && strings.EqualFold(s, "Content-Type") {
						fromHeader = true
					}
				}
				if !fromHeader {
					ok = false
				}
			}
			r.Ob(ri, w.FnName(fn)+"|decoder-by-content-type", fn.Pos(), ok, msg)
		}
	}
}

var _ = token.ADD

// c13EnvoyRawHeaders (C13.5): Envoy hands over request header names in lower case. A lookup in
// the raw header map must therefore use a lower-case key (the canonicalised copy built by the
// request context is looked up canonically, C13.4).
func c13EnvoyRawHeaders(w *World, r *Report) {
	ri := r.Rule("C13.5", 1, "lookups in Envoy's raw request header map use lower-case keys (Envoy lower-cases header names), so the gRPC entry point sees the same headers the HTTP entry points see")
	n := 0
	for _, fn := range w.Funcs {
		if w.isMockFn(fn) {
			continue
		}
		eachInstr(fn, func(in ssa.Instruction) {
			lk, ok := in.(*ssa.Lookup)
			if !ok {
				return
			}
			fromEnvoy := false
			for _, o := range w.Origins(lk.X, nil) {
				if c, ok := o.(*ssa.Call); ok && strings.HasSuffix(callName(c.Common()), "AttributeContext_HttpRequest.GetHeaders") {
					fromEnvoy = true
				}
			}
			if !fromEnvoy {
				return
			}
			n++
			r.Analysed(w.FnName(fn))
			okKey := false
			why := ""
			if s, isConst := constString(lk.Index); isConst {
				okKey = s == strings.ToLower(s)
				why = fmt.Sprintf("constant key %q is not lower case", s)
			} else {
				okKey = dependsOn(w, lk.Index, func(x ssa.Value) bool {
					c, ok := x.(*ssa.Call)
					return ok && callName(c.Common()) == "strings.ToLower"
				})
				why = "the key is not lower-cased"
			}
			r.Ob(ri, fmt.Sprintf("%s|raw-envoy-header-lookup#%d", w.FnName(fn), n), lk.Pos(), okKey,
				"a header is looked up in Envoy's raw header map under a key that never matches ("+why+"): the gRPC entry point behaves as if the client had not sent it")
		})
	}
	if n == 0 {
		r.Note("C13.5: no direct lookup in Envoy's raw header map in the module (all reads go through the canonicalised copy)")
		r.Ob(ri, "no-raw-lookups", token.NoPos, true, "")
	}
}

// ---- C13.6: a recorded pipeline error decides the outcome at every entry point ----------------------
//
// An error handler that takes over (redirect, www_authenticate) records its answer as the pipeline
// error and lets the rule return "nothing". All entry points must then answer with that recorded
// error. A Finalize that first checks something else (the missing upstream) and reports that
// instead answers 500 where the other entry points answer 302 / 401. Decided per Finalize: an error
// other than the recorded one is returned only where the recorded one was found nil.
func c13PipelineErrorFirst(w *World, r *Report, ctxI *types.Interface) {
	ri := r.Rule("C13.6", 3, "at every entry point Finalize reports an error of its own only where no pipeline error is recorded (the recorded outcome of the error handlers takes precedence)")
	n := 0
	for _, t := range w.Implementors(ctxI) {
		fin := w.Method(t, "Finalize")
		if fin == nil || fin.Blocks == nil || w.isMockFn(fin) || derefNamed(fin.Signature.Recv().Type()) != t {
			continue
		}
		pf := pipelineErrField(w, t)
		if pf == nil {
			continue
		}
		n++
		r.Analysed(w.FnName(fin))
		isPE := func(v ssa.Value) bool {
			if _, f := fieldLoad(v); f == pf {
				return true
			}
			if c, _ := resultOfCall(v); c != nil {
				if callee := c.Common().StaticCallee(); callee != nil && isGetterOf(callee, pf) {
					return true
				}
			}
			return false
		}
		ok, pos := true, fin.Pos()
		for _, ret := range returnsOf(fin) {
			last := ret.Results[len(ret.Results)-1]
			for _, s := range w.Sources(last, ret.Block()) {
				if s.Kind == "nil" || isPE(s.V) {
					continue
				}
				// an error of Finalize's own (fresh, or the result of a step it performs)
				at := s.At
				if s.To == nil {
					at = ret.Block()
				}
				if !(onlyVia(fin, at, nilOf(isPE)) || srcOnlyVia(fin, s, nilOf(isPE))) {
					ok, pos = false, ret.Pos()
				}
			}
		}
		r.Ob(ri, w.FnName(fin)+"|pipeline-error-first", pos, ok, "Finalize can return an error of its own although a pipeline error is recorded: what an error handler decided (a redirect, a challenge) is replaced by that error at this entry point only")
	}
	if n == 0 {
		r.Undecided(ri, "no Finalize found")
	}
}
