package main

import (
	"fmt"
	"go/constant"
	"go/token"
	"go/types"
	"strings"

	"golang.org/x/tools/go/ssa"
)

func init() { register("C10", checkC10) }

func checkC10(w *World, r *Report) {
	ci := w.Named("internal/cache", "Cache")
	if ci == nil {
		r.Undecided(nil, "cache.Cache not found")
		return
	}
	c10PositiveTTL(w, r, ci)
	c10ReadExpiry(w, r, ci)
	c10Producers(w, r, ci)
	c10ZeroDisables(w, r, ci)
	c10IssuedTokens(w, r, ci)
	c10HTTPCache(w, r, ci)
	c10HTTPCacheAge(w, r, ci)
	c10NoWriteBack(w, r, ci)
	c10OverridePresence(w, r)
	// the finalizer caches a token for the ttl it hands to the signer: the signer must make the token
	// live exactly that long (shared with C16.1)
	if signer, _ := findSigner(w); signer != nil {
		c16SystemClaims(w, r, signer)
	}
}

// cacheCalls lists calls of cache.Cache.<name> in non-mock module functions outside internal/cache.
func cacheCalls(w *World, ci *types.Named, name string) []*ssa.Call {
	var out []*ssa.Call
	for _, fn := range w.Funcs {
		if w.isMockFn(fn) || strings.HasPrefix(fnPkgPath(fn), modPath+"/internal/cache") {
			continue
		}
		out = append(out, findCalls(fn, func(c *ssa.CallCommon) bool { return invokeOf(c, ci, name) })...)
	}
	return out
}

// sameExpr: a and b denote the same quantity: identical SSA value, equal constants, or loads of
// the same field path from the same root (mechanism fields are immutable, C17).
func sameExpr(a, b ssa.Value) bool {
	a, b = stripConv(a), stripConv(b)
	if a == b {
		return true
	}
	ca, okA := a.(*ssa.Const)
	cb, okB := b.(*ssa.Const)
	if okA && okB {
		return ca.Value != nil && cb.Value != nil && constant.Compare(ca.Value, token.EQL, cb.Value)
	}
	ra, pa := accessPath(a)
	rb, pb := accessPath(b)
	// a helper's parameter stands for the argument of its single call
	if ra != rb {
		if r2, p2 := accessPath(bindParam(ra)); r2 != nil && bindParam(ra) != ra {
			ra, pa = r2, append(append([]string{}, p2...), pa...)
		}
		if r2, p2 := accessPath(bindParam(rb)); r2 != nil && bindParam(rb) != rb {
			rb, pb = r2, append(append([]string{}, p2...), pb...)
		}
	}
	if len(pa) == 0 || len(pa) != len(pb) || ra != rb {
		return false
	}
	if _, isAlloc := ra.(*ssa.Alloc); isAlloc {
		// a local variable may change between two loads
		return false
	}
	for i := range pa {
		if pa[i] != pb[i] {
			return false
		}
	}
	return true
}

func constNonNegative(v ssa.Value) bool {
	c, ok := stripConv(v).(*ssa.Const)
	if !ok || c.Value == nil {
		return false
	}
	return constant.Sign(constant.ToInt(c.Value)) >= 0
}

func constPositive(v ssa.Value) bool {
	c, ok := stripConv(v).(*ssa.Const)
	if !ok || c.Value == nil || c.Value.Kind() == constant.String || c.Value.Kind() == constant.Bool {
		return false
	}
	return constant.Sign(constant.ToInt(c.Value)) > 0
}

// impliesPositive: fact f implies ttl > 0.
func impliesPositive(f Fact, ttl ssa.Value) bool {
	if f.Kind != FCmp {
		return false
	}
	x, y, op := f.X, f.Y, f.Op
	if op == token.LSS || op == token.LEQ {
		// c < x  ==  x > c
		x, y = y, x
		if op == token.LSS {
			op = token.GTR
		} else {
			op = token.GEQ
		}
	}
	t := stripConv(ttl)
	switch op {
	case token.GTR:
		if sameExpr(x, t) && constNonNegative(y) {
			return true
		}
		// ttl = a - c under a > c
		if b, ok := t.(*ssa.BinOp); ok && b.Op == token.SUB && sameExpr(x, b.X) && sameExpr(y, b.Y) {
			return true
		}
	case token.GEQ:
		if sameExpr(x, t) && constPositive(y) {
			return true
		}
	}
	return false
}

func c10PositiveTTL(w *World, r *Report, ci *types.Named) {
	ri := r.Rule("C10.1", 6, "every cache store is guarded by a test implying TTL > 0 for the stored TTL (a non-positive TTL means 'never expires' in the in-memory cache)")
	nth := map[string]int{}
	for _, c := range cacheCalls(w, ci, "Set") {
		fn := c.Parent()
		r.Analysed(w.FnName(fn))
		nth[w.FnName(fn)]++
		key := fmt.Sprintf("%s|Set#%d", w.FnName(fn), nth[w.FnName(fn)])
		ttl := c.Common().Args[3]
		ok := onlyVia(fn, c.Block(), func(f Fact) bool { return impliesPositive(f, ttl) })
		r.Ob(ri, key, c.Pos(), ok, "Cache.Set must be reachable only through a branch implying ttl > 0 for the TTL it stores ("+ttl.String()+")")
	}
}

func c10ReadExpiry(w *World, r *Report, ci *types.Named) {
	ri := r.Rule("C10.2", 3, "cache back ends hand the TTL unchanged to the store and enforce expiry on read")
	it := ci.Underlying().(*types.Interface)
	for _, t := range w.Implementors(it) {
		set := w.Method(t, "Set")
		get := w.Method(t, "Get")
		if set == nil || get == nil || set.Blocks == nil {
			continue
		}
		r.Analysed(w.FnName(set), w.FnName(get))
		calls := callsIn(set)
		var real []ssa.CallInstruction
		for _, c := range calls {
			if _, isB := c.Common().Value.(*ssa.Builtin); !isB {
				real = append(real, c)
			}
		}
		if len(real) == 0 {
			r.Ob(ri, w.FnName(set)+"|noop", set.Pos(), true, "no-op cache")
			continue
		}
		ttlP := set.Params[len(set.Params)-1]
		used := false
		for _, c := range real {
			for _, a := range c.Common().Args {
				if stripConv(a) == ttlP {
					used = true
				}
			}
		}
		r.Ob(ri, w.FnName(set)+"|ttl-forwarded", set.Pos(), used, "Set must hand its ttl parameter unchanged to the store")
		// Get: if the fetched item offers IsExpired, a value may be returned only through its false edge
		var expCalls []*ssa.Call
		for _, c := range findCalls(get, func(c *ssa.CallCommon) bool { return methodCallNamed(c, "IsExpired") }) {
			expCalls = append(expCalls, c)
		}
		hasIsExpired := false
		for _, c := range callsIn(get) {
			if rt := c.Common().Signature().Results(); rt.Len() > 0 {
				ms := w.Prog.MethodSets.MethodSet(rt.At(0).Type())
				for i := 0; i < ms.Len(); i++ {
					if ms.At(i).Obj().Name() == "IsExpired" {
						hasIsExpired = true
					}
				}
			}
		}
		if hasIsExpired {
			ok := len(expCalls) > 0
			for _, ret := range returnsOf(get) {
				mayNil := false
				for _, s := range w.Sources(ret.Results[1], ret.Block()) {
					if s.Kind == "nil" {
						mayNil = true
					}
				}
				if !mayNil {
					continue
				}
				good := false
				for _, e := range expCalls {
					if onlyVia(get, ret.Block(), func(f Fact) bool { return f.Kind == FFalse && f.V == e }) {
						good = true
					}
				}
				if !good {
					ok = false
				}
			}
			r.Ob(ri, w.FnName(get)+"|expiry-checked", get.Pos(), ok, "a cached item may be returned only through the false edge of its IsExpired()")
		} else {
			r.Ob(ri, w.FnName(get)+"|expiry-delegated", get.Pos(), true, "expiry delegated to the back end with the TTL handed to Set")
		}
	}
}

// ---- TTL producers (C10.3 / C10.5) ---------------------------------------------------------------

func isExpiryType(t types.Type) bool {
	s := t.String()
	return s == "time.Time" || strings.HasSuffix(s, "NumericDate")
}

// expiryLoad: v is a load of a field (path) of expiry type rooted at a non-receiver parameter of fn.
func expiryLoad(fn *ssa.Function, v ssa.Value) bool {
	if !isExpiryType(v.Type()) {
		return false
	}
	root, p := accessPath(v)
	if len(p) == 0 {
		return false
	}
	par, ok := root.(*ssa.Parameter)
	if !ok {
		return false
	}
	top := par.Parent()
	for top.Parent() != nil {
		top = top.Parent()
	}
	if top != fn {
		return false
	}
	if fn.Signature.Recv() != nil && len(fn.Params) > 0 && par == fn.Params[0] {
		return false
	}
	return true
}

// dependsOn reports whether v is data-dependent (through operands, call arguments, conversions,
// select combinators and closure results) on a value satisfying pred. Conditions of select
// combinators are not operands.
func dependsOn(w *World, v ssa.Value, pred func(ssa.Value) bool) bool {
	return dependsOnX(w, v, pred, false)
}

// dependsOnCtl additionally follows the conditions of select combinators (control dependence of
// x.IfThenElse / x.IfThenElseExec results).
func dependsOnCtl(w *World, v ssa.Value, pred func(ssa.Value) bool) bool {
	return dependsOnX(w, v, pred, true)
}

func dependsOnX(w *World, v ssa.Value, pred func(ssa.Value) bool, ctl bool) bool {
	seen := map[ssa.Value]bool{}
	var walk func(v ssa.Value) bool
	walk = func(v ssa.Value) bool {
		if v == nil || seen[v] {
			return false
		}
		seen[v] = true
		if pred(v) {
			return true
		}
		switch x := v.(type) {
		case *ssa.Call:
			if ops := selectOperands(x); ops != nil {
				for _, o := range ops {
					if walk(o) {
						return true
					}
				}
				if ctl && walk(selectCond(x)) {
					return true
				}
				return false
			}
			for _, a := range x.Call.Args {
				if walk(a) {
					return true
				}
			}
			if x.Call.IsInvoke() {
				return walk(x.Call.Value)
			}
			return false
		case *ssa.UnOp:
			if x.Op == token.MUL {
				switch a := x.X.(type) {
				case *ssa.Alloc:
					if pred(a) {
						return true
					}
					found := false
					w.eachStore(a, func(st *ssa.Store) {
						if walk(st.Val) {
							found = true
						}
					})
					return found
				case *ssa.FreeVar:
					if b, ok := freeVarBinding(a).(*ssa.Alloc); ok {
						found := false
						w.eachStore(b, func(st *ssa.Store) {
							if walk(st.Val) {
								found = true
							}
						})
						return found
					}
				}
			}
			return walk(x.X)
		case *ssa.Alloc:
			// a composite literal: the values stored into its fields / the variable
			found := false
			var scan func(addr ssa.Value, depth int)
			scan = func(addr ssa.Value, depth int) {
				refs := addr.Referrers()
				if refs == nil || depth > 4 {
					return
				}
				for _, rf := range *refs {
					switch y := rf.(type) {
					case *ssa.FieldAddr:
						scan(y, depth+1)
					case *ssa.IndexAddr:
						scan(y, depth+1)
					case *ssa.Store:
						if y.Addr == addr && walk(y.Val) {
							found = true
						}
					}
				}
			}
			scan(x, 0)
			return found
		case *ssa.Slice:
			// slice of a literal backing array (variadic arguments, composite literals)
			if a, ok := x.X.(*ssa.Alloc); ok {
				for _, el := range sliceLiteralElems(x) {
					if el != nil && walk(el) {
						return true
					}
				}
				_ = a
				return false
			}
			return walk(x.X)
		}
		var ops []*ssa.Value
		if in, ok := v.(ssa.Instruction); ok {
			ops = in.Operands(ops)
			for _, o := range ops {
				if o != nil && *o != nil && walk(*o) {
					return true
				}
			}
		}
		return false
	}
	return walk(v)
}

// alternatives decomposes a value into the leaves it may be (Phi / select alternatives), with the
// block from which each enters.
func alternatives(w *World, v ssa.Value, at *ssa.BasicBlock) []Src {
	var out []Src
	seen := map[ssa.Value]bool{}
	var walk func(v ssa.Value, at *ssa.BasicBlock)
	walk = func(v ssa.Value, at *ssa.BasicBlock) {
		if _, isC := v.(*ssa.Const); !isC {
			if seen[v] {
				return
			}
			seen[v] = true
		}
		switch x := v.(type) {
		case *ssa.Phi:
			for i, e := range x.Edges {
				walk(e, x.Block().Preds[i])
			}
			return
		case *ssa.Call:
			if ops := selectOperands(x); ops != nil {
				for _, o := range ops {
					walk(o, at)
				}
				return
			}
		case *ssa.UnOp:
			if x.Op == token.MUL {
				if a, ok := x.X.(*ssa.Alloc); ok {
					n := 0
					w.eachStore(a, func(st *ssa.Store) { n++; walk(st.Val, st.Block()) })
					if n > 0 {
						return
					}
				}
			}
		}
		out = append(out, Src{Kind: "leaf", V: v, At: at})
	}
	walk(v, at)
	return out
}

func isZeroConst(v ssa.Value) bool {
	c, ok := stripConv(v).(*ssa.Const)
	if !ok || c.Value == nil {
		return false
	}
	switch c.Value.Kind() {
	case constant.Int, constant.Float:
		return constant.Sign(c.Value) == 0
	}
	return false
}

func c10Producers(w *World, r *Report, ci *types.Named) {
	ri3 := r.Rule("C10.3", 4, "a cache TTL that does not depend on the credential's remaining lifetime is used only where the credential has no expiry")
	ri5 := r.Rule("C10.5", 4, "a configured TTL can only shorten the credential's remaining lifetime (min), never extend it")
	prods := map[*ssa.Function]bool{}
	for _, c := range cacheCalls(w, ci, "Set") {
		for _, o := range w.Origins(c.Common().Args[3], nil) {
			if pc, _ := resultOfCall(o); pc != nil {
				if callee := pc.Common().StaticCallee(); callee != nil && callee.Blocks != nil && w.inModule(callee) {
					prods[callee] = true
				}
			}
		}
	}
	for _, fn := range w.Funcs {
		if !prods[fn] {
			continue
		}
		// does the producer read an expiry?
		all := withClosures(fn)
		hasExpiry := false
		for _, g := range all {
			eachInstr(g, func(in ssa.Instruction) {
				if v, ok := in.(ssa.Value); ok && expiryLoad(fn, v) {
					hasExpiry = true
				}
			})
		}
		if !hasExpiry {
			continue
		}
		r.Analysed(w.FnName(fn))
		isExp := func(v ssa.Value) bool { return expiryLoad(fn, v) }
		isCfg := func(v ssa.Value) bool {
			root, p := accessPath(v)
			if len(p) == 0 || fn.Signature.Recv() == nil {
				return false
			}
			par, ok := root.(*ssa.Parameter)
			return ok && par == fn.Params[0]
		}
		// K-false edges: the expiry is absent
		absent := func(f Fact) bool {
			switch f.Kind {
			case FNil:
				if isExp(f.V) {
					return true
				}
				// the container of the expiry is nil
				if p, ok := f.V.(*ssa.Parameter); ok && !(fn.Signature.Recv() != nil && p == fn.Params[0]) {
					return true
				}
			case FTrue:
				if c, _ := resultOfCall(f.V); c != nil {
					n := ""
					if o := calleeObj(c.Common()); o != nil {
						n = o.Name()
					}
					if (n == "IsZero" || n == "Equal") && len(c.Common().Args) > 0 && isExp(c.Common().Args[0]) {
						if n == "Equal" {
							// compared with the zero time
							if len(c.Common().Args) < 2 {
								return false
							}
							if _, isC := c.Common().Args[1].(*ssa.Const); !isC {
								if u, ok := c.Common().Args[1].(*ssa.UnOp); !ok || u.Op != token.MUL {
									return false
								}
							}
						}
						return true
					}
				}
			case FCmp:
				if l, k := lenFact(f); l != nil && k == "empty" {
					// a slice on the way to the expiry (certificates)
					found := false
					for _, g := range all {
						eachInstr(g, func(in ssa.Instruction) {
							if v, ok := in.(ssa.Value); ok && isExp(v) {
								rt, pp := accessPath(v)
								lr, lp := accessPath(l)
								if rt == lr && len(lp) > 0 && len(pp) > len(lp) && strings.Join(pp[:len(lp)], ".") == strings.Join(lp, ".") {
									found = true
								}
							}
						})
					}
					return found
				}
			}
			return false
		}
		cfgZero := func(f Fact) bool {
			switch f.Kind {
			case FNil:
				return isCfg(f.V)
			case FCmp:
				if f.Op == token.EQL || f.Op == token.LEQ {
					if isZeroConst(f.Y) && dependsOn(w, f.X, isCfg) && !dependsOn(w, f.X, isExp) {
						return true
					}
				}
			}
			return false
		}
		for _, ret := range returnsOf(fn) {
			rk := retKey(w, fn, ret)
			for ai, a := range alternatives(w, ret.Results[0], ret.Block()) {
				key := fmt.Sprintf("%s|%s|alt%d", w.FnName(fn), rk, ai)
				if isZeroConst(a.V) {
					r.Ob(ri3, key, ret.Pos(), true, "zero: not cached")
					continue
				}
				depE := dependsOn(w, a.V, isExp)
				depC := dependsOn(w, a.V, isCfg)
				if !depE {
					ok := onlyVia(fn, a.At, absent) || onlyVia(fn, ret.Block(), absent)
					r.Ob(ri3, key, ret.Pos(), ok, "the TTL "+a.V.Name()+" does not depend on the credential's expiry, yet it can be returned when an expiry is present (an expiry inside the leeway is treated as 'no expiry')")
					continue
				}
				r.Ob(ri3, key, ret.Pos(), true, "bounded by the remaining lifetime")
				if depC {
					isMin := false
					if c, ok := stripConv(a.V).(*ssa.Call); ok {
						if b, ok := c.Call.Value.(*ssa.Builtin); ok && b.Name() == "min" {
							isMin = true
						}
					}
					r.Ob(ri5, key, ret.Pos(), isMin, "a TTL combining the configured TTL and the remaining lifetime must be min(configured, remaining)")
				} else {
					ok := onlyVia(fn, a.At, cfgZero) || onlyVia(fn, ret.Block(), cfgZero)
					// a producer without any configured TTL is fine
					hasCfg := false
					for _, g := range all {
						eachInstr(g, func(in ssa.Instruction) {
							if v, isV := in.(ssa.Value); isV && isCfg(v) {
								hasCfg = true
							}
						})
					}
					r.Ob(ri5, key, ret.Pos(), ok || !hasCfg, "the remaining lifetime alone may be used only where no TTL is configured (otherwise the configured TTL would be ignored)")
				}
			}
		}
	}
}

// ---- C10.4 -----------------------------------------------------------------------------------------

// cacheTTLFields finds struct fields that receive a decoded `cache_ttl` option.
func cacheTTLFields(w *World) map[*types.Var]bool {
	out := map[*types.Var]bool{}
	for _, fn := range w.Funcs {
		if w.isMockFn(fn) {
			continue
		}
		eachInstr(fn, func(in ssa.Instruction) {
			st, ok := in.(*ssa.Store)
			if !ok {
				return
			}
			fa, ok := st.Addr.(*ssa.FieldAddr)
			if !ok {
				return
			}
			for _, o := range w.Origins(st.Val, nil) {
				if decodedOption(o, "cache_ttl") {
					if f := fieldOf(fa.X.Type(), fa.Field); f != nil {
						out[f] = true
					}
				}
			}
		})
	}
	return out
}

func c10ZeroDisables(w *World, r *Report, ci *types.Named) {
	ri := r.Rule("C10.4", 4, "a cache TTL of zero disables caching: the cache is consulted only through the 'cache enabled' edge")
	fields := cacheTTLFields(w)
	// also koanf/json-decoded TTL of the client-credentials config: a *time.Duration field named TTL with a cache_ttl tag
	for _, p := range w.Pkgs {
		if isMockPath(p.PkgPath) {
			continue
		}
		sc := p.Types.Scope()
		for _, n := range sc.Names() {
			tn, ok := sc.Lookup(n).(*types.TypeName)
			if !ok {
				continue
			}
			st, ok := tn.Type().Underlying().(*types.Struct)
			if !ok {
				continue
			}
			for i := 0; i < st.NumFields(); i++ {
				if tagName(st.Tag(i)) == "cache_ttl" && !strings.HasSuffix(tn.Name(), "onfig") {
					fields[st.Field(i)] = true
				}
				if tagName(st.Tag(i)) == "cache_ttl" && tn.Name() == "Config" && strings.HasSuffix(p.PkgPath, "clientcredentials") {
					fields[st.Field(i)] = true
				}
			}
		}
	}
	isTTL := func(v ssa.Value) bool {
		v = stripConv(v)
		for i := 0; i < 2; i++ {
			if _, f := fieldLoad(v); f != nil {
				return fields[f]
			}
			if u, ok := v.(*ssa.UnOp); ok && u.Op == token.MUL {
				v = u.X
				if fa, ok := v.(*ssa.FieldAddr); ok {
					return fields[fieldOf(fa.X.Type(), fa.Field)]
				}
				continue
			}
			break
		}
		return false
	}
	// predicates: methods returning bool whose "true" alternatives are ttl == nil or *ttl > 0
	enabledPred := func(fn *ssa.Function) bool {
		if fn == nil || fn.Blocks == nil || fn.Signature.Results().Len() != 1 || !isBool(fn.Signature.Results().At(0).Type()) {
			return false
		}
		good := true
		sawTest := false
		for _, ret := range returnsOf(fn) {
			for _, a := range alternatives(w, ret.Results[0], ret.Block()) {
				switch x := a.V.(type) {
				case *ssa.Const:
					if x.Value != nil && x.Value.String() == "true" {
						// only where the ttl is not configured (nil)
						if !onlyVia(fn, a.At, func(f Fact) bool { return f.Kind == FNil && isTTL(f.V) }) {
							// the edge into the phi itself may carry the fact
							okEdge := false
							for si, sb := range a.At.Succs {
								_ = sb
								for _, f := range edgeFacts(a.At, si) {
									if f.Kind == FNil && isTTL(f.V) {
										okEdge = true
									}
								}
							}
							if !okEdge {
								good = false
							}
						}
						sawTest = true
					}
				case *ssa.BinOp:
					if x.Op == token.GTR && isTTL(x.X) && isZeroConst(x.Y) {
						sawTest = true
					} else if (x.Op == token.EQL) && isTTL(x.X) && isNilConst(x.Y) {
						sawTest = true
					} else {
						good = false
					}
				default:
					good = false
				}
			}
		}
		return good && sawTest
	}
	enabled := func(f Fact) bool {
		switch f.Kind {
		case FCmp:
			x, y, op := f.X, f.Y, f.Op
			if op == token.LSS {
				x, y, op = y, x, token.GTR
			}
			return op == token.GTR && isTTL(x) && constNonNegative(y)
		case FTrue:
			if c, _ := resultOfCall(f.V); c != nil {
				if callee := c.Common().StaticCallee(); callee != nil && enabledPred(callee) {
					return true
				}
			}
		}
		return false
	}
	nth := map[string]int{}
	for _, c := range cacheCalls(w, ci, "Get") {
		fn := c.Parent()
		if fn.Signature.Recv() == nil {
			continue
		}
		rt := derefNamed(fn.Signature.Recv().Type())
		if rt == nil {
			continue
		}
		st, ok := rt.Underlying().(*types.Struct)
		if !ok {
			continue
		}
		has := false
		for i := 0; i < st.NumFields(); i++ {
			if fields[st.Field(i)] {
				has = true
			}
		}
		if !has {
			continue // no cache-TTL option (JWT finalizer: ttl is the token lifetime; HTTP cache)
		}
		r.Analysed(w.FnName(fn))
		nth[w.FnName(fn)]++
		ok = onlyVia(fn, c.Block(), enabled)
		r.Ob(ri, fmt.Sprintf("%s|Get#%d", w.FnName(fn), nth[w.FnName(fn)]), c.Pos(), ok, "the cache may be read only through the cache-enabled edge (ttl > 0 / ttl not configured)")
	}
}

// ---- C10.6 -----------------------------------------------------------------------------------------

func c10IssuedTokens(w *World, r *Report, ci *types.Named) {
	ri := r.Rule("C10.6", 2, "an issued token is cached for its lifetime minus a positive leeway, and that lifetime is the one handed to the signer")
	fi := w.Iface("internal/rules/mechanisms/finalizers", "Finalizer")
	if fi == nil {
		r.Undecided(ri, "finalizers.Finalizer not found")
		return
	}
	n := 0
	for _, c := range cacheCalls(w, ci, "Set") {
		fn := c.Parent()
		if fn.Signature.Recv() == nil {
			continue
		}
		rt := derefNamed(fn.Signature.Recv().Type())
		if rt == nil || !(types.Implements(rt, fi) || types.Implements(types.NewPointer(rt), fi)) {
			continue
		}
		n++
		r.Analysed(w.FnName(fn))
		ttl := stripConv(c.Common().Args[3])
		b, isSub := ttl.(*ssa.BinOp)
		var lifeF *types.Var
		ok := false
		if isSub && b.Op == token.SUB && constPositive(b.Y) {
			if base, f := fieldLoad(b.X); f != nil && base == fn.Params[0] {
				lifeF = f
				ok = true
			}
		}
		r.Ob(ri, w.FnName(fn)+"|ttl-is-lifetime-minus-leeway", c.Pos(), ok, "the cached TTL must be <lifetime field> - <positive constant leeway>")
		if lifeF == nil {
			continue
		}
		// the same field is the lifetime handed to the signer
		found := false
		for _, g := range w.Funcs {
			if g.Signature.Recv() == nil || derefNamed(g.Signature.Recv().Type()) != rt {
				continue
			}
			for _, sc := range findCalls(g, func(c *ssa.CallCommon) bool { return methodCallNamed(c, "Sign") }) {
				for _, a := range sc.Common().Args {
					if _, f := fieldLoad(stripConv(a)); f == lifeF {
						found = true
					}
				}
			}
		}
		r.Ob(ri, w.FnName(fn)+"|same-lifetime-signed", c.Pos(), found, "the token must be signed with the same lifetime field that bounds its cache TTL")
	}
	if n == 0 {
		r.Undecided(ri, "no finalizer caches issued tokens (anchor lost)")
	}
}

// ---- C10.7 -----------------------------------------------------------------------------------------

func c10HTTPCache(w *World, r *Report, ci *types.Named) {
	ri := r.Rule("C10.7", 3, "the HTTP cache stores a response only if it is cachable, and without freshness information only if a default TTL is configured")
	for _, c := range cacheCalls(w, ci, "Set") {
		fn := c.Parent()
		if fnPkgPath(fn) != modPath+"/internal/httpcache" {
			continue
		}
		r.Analysed(w.FnName(fn))
		key := w.FnName(fn)
		cc := findCalls(fn, func(c *ssa.CallCommon) bool { return strings.HasSuffix(callName(c), "cachecontrol.CachableResponse") })
		if len(cc) != 1 {
			r.Ob(ri, key+"|decision", c.Pos(), false, "the storage decision is not taken by cachecontrol.CachableResponse")
			continue
		}
		k := cc[0]
		ok1 := onlyVia(fn, c.Block(), nilOf(isResult(k, 2)))
		ok2 := onlyVia(fn, c.Block(), func(f Fact) bool { l, kd := lenFact(f); return l != nil && kd == "empty" && isResult(k, 0)(l) })
		r.Ob(ri, key+"|only-if-no-error", c.Pos(), ok1, "store only through the err == nil edge of CachableResponse")
		r.Ob(ri, key+"|only-if-no-reasons", c.Pos(), ok2, "store only if CachableResponse reported no reason against caching")
		// zero expiry: only with a configured default TTL
		ok3, n := true, 0
		for _, b := range fn.Blocks {
			for i := range b.Succs {
				zeroEdge := false
				for _, f := range edgeFacts(b, i) {
					if f.Kind == FTrue {
						if ic, _ := resultOfCall(f.V); ic != nil && methodCallNamed(ic.Common(), "IsZero") {
							zeroEdge = true
						}
					}
				}
				if !zeroEdge {
					continue
				}
				n++
				seen := reachFromEdge(b, i, factCut(func(f Fact) bool {
					return f.Kind == FCmp && f.Op == token.NEQ && isZeroConst(f.Y) && pathEndsWith(f.X, "DefaultCacheTTL")
				}))
				if seen[c.Block()] {
					ok3 = false
				}
			}
		}
		r.Ob(ri, key+"|no-freshness-needs-default", c.Pos(), ok3 && n > 0, "a response without freshness information may be stored only if DefaultCacheTTL != 0")
	}
}

// ---- C10.9: the age of a response counts against its freshness lifetime ---------------------------------
//
// RFC 7234 4.2: a response is fresh while freshness_lifetime > current_age, and current_age (4.2.3) is
// built from the Age header and from now - Date. The lifetime under which the HTTP cache stores a
// response therefore has to depend on both headers of the response; a TTL computed from
// Cache-Control / Expires alone serves a response that came through another cache beyond its lifetime.
// Decided as a data dependence of the TTL argument of the store, looking into the results of module
// helpers (depth 3).
func c10HTTPCacheAge(w *World, r *Report, ci *types.Named) {
	ri := r.Rule("C10.9", 2, "the TTL under which the HTTP cache stores a response depends on the age of the response (its Age and Date headers)")
	headerRead := func(name string) func(ssa.Value) bool {
		return func(x ssa.Value) bool {
			// resp.Header["Age"]
			if lk, ok := x.(*ssa.Lookup); ok {
				if nm, isN := lk.X.Type().(*types.Named); isN && nm.Obj().Name() == "Header" && nm.Obj().Pkg() != nil && nm.Obj().Pkg().Path() == "net/http" {
					s, isC := constString(lk.Index)
					return isC && strings.EqualFold(s, name)
				}
				return false
			}
			c, ok := x.(*ssa.Call)
			if !ok || len(c.Call.Args) == 0 {
				return false
			}
			n := callName(c.Common())
			if n != "net/http.Header.Get" && n != "net/http.Header.Values" {
				return false
			}
			s, ok := constString(c.Call.Args[len(c.Call.Args)-1])
			return ok && strings.EqualFold(s, name)
		}
	}
	var deep func(v ssa.Value, pred func(ssa.Value) bool, depth int) bool
	deep = func(v ssa.Value, pred func(ssa.Value) bool, depth int) bool {
		found := false
		dependsOn(w, v, func(x ssa.Value) bool {
			if found {
				return true
			}
			if pred(x) {
				found = true
				return true
			}
			var call *ssa.Call
			if c, _ := resultOfCall(x); c != nil {
				call = c
			} else if c, ok := x.(*ssa.Call); ok {
				call = c
			}
			if call != nil && depth < 3 {
				if callee := call.Common().StaticCallee(); callee != nil && callee.Blocks != nil && w.inModule(callee) {
					for _, ret := range returnsOf(callee) {
						for _, res := range ret.Results {
							if deep(res, pred, depth+1) {
								found = true
								return true
							}
						}
					}
				}
			}
			return false
		})
		return found
	}
	for _, c := range cacheCalls(w, ci, "Set") {
		fn := c.Parent()
		if fnPkgPath(fn) != modPath+"/internal/httpcache" {
			continue
		}
		args := c.Common().Args
		if len(args) == 0 {
			continue
		}
		ttl := args[len(args)-1]
		key := w.FnName(fn)
		r.Ob(ri, key+"|ttl-depends-on-age-header", c.Pos(), deep(ttl, headerRead("Age"), 0), "the TTL of the stored response does not depend on its Age header: a response served by an intermediate cache is reused for its full max-age, beyond its freshness lifetime")
		r.Ob(ri, key+"|ttl-depends-on-date-header", c.Pos(), deep(ttl, headerRead("Date"), 0), "the TTL of the stored response does not depend on its Date header (apparent age): a response generated long ago is reused for its full max-age")
	}
}

// ---- C10.8: a value read from the cache is never stored again ------------------------------------------

// cacheDerived reports whether v depends on the result of a Cache.Get, looking through module callees'
// results (depth 2) and through parameters at the call sites of the enclosing function (depth 2).
func cacheDerived(w *World, ci *types.Named, v ssa.Value, depth int) (bool, string) {
	found, why := false, ""
	fnOf := func(x ssa.Value) *ssa.Function {
		if in, ok := x.(ssa.Instruction); ok {
			return in.Parent()
		}
		if p, ok := x.(*ssa.Parameter); ok {
			return p.Parent()
		}
		return nil
	}
	dependsOn(w, v, func(x ssa.Value) bool {
		if found {
			return true
		}
		if c, idx := resultOfCall(x); c != nil && idx == 0 {
			if invokeOf(c.Common(), ci, "Get") {
				found, why = true, "result of Cache.Get at "+w.Pos(c.Pos())
				return true
			}
			if callee := c.Common().StaticCallee(); callee != nil && callee.Blocks != nil && w.inModule(callee) && depth < 2 {
				for _, ret := range returnsOf(callee) {
					if len(ret.Results) == 0 {
						continue
					}
					if d, wy := cacheDerived(w, ci, ret.Results[0], depth+1); d {
						found, why = true, "result of "+callee.Name()+" <- "+wy
						return true
					}
				}
			}
		}
		if p, ok := x.(*ssa.Parameter); ok && depth < 2 {
			fn := fnOf(p)
			idx := -1
			for i, q := range fn.Params {
				if q == p {
					idx = i
				}
			}
			for _, e := range w.CG().In[fn] {
				cinst, isCI := e.Site.(ssa.CallInstruction)
				if !isCI || e.Kind != "static" || idx >= len(cinst.Common().Args) {
					continue
				}
				if d, wy := cacheDerived(w, ci, cinst.Common().Args[idx], depth+1); d {
					found, why = true, "argument at "+w.Pos(cinst.Pos())+" <- "+wy
					return true
				}
			}
		}
		return false
	})
	return found, why
}

func c10NoWriteBack(w *World, r *Report, ci *types.Named) {
	ri := r.Rule("C10.8", 6, "a value served from the cache is never stored again (that would extend its lifetime beyond its validity)")
	nth := map[string]int{}
	for _, c := range cacheCalls(w, ci, "Set") {
		fn := c.Parent()
		nth[w.FnName(fn)]++
		d, why := cacheDerived(w, ci, c.Common().Args[2], 0)
		r.Ob(ri, fmt.Sprintf("%s|Set#%d|value-not-from-cache", w.FnName(fn), nth[w.FnName(fn)]), c.Pos(), !d, "the stored value can be a value that was read from the cache ("+why+"): every hit would renew its lifetime")
	}
}

// ---- C10.4b: a rule-level cache_ttl of zero is an override, not "not given" -----------------------------

func c10OverridePresence(w *World, r *Report) {
	ri := r.Rule("C10.4b", 5, "a rule-level cache_ttl override is applied whenever it is given, including zero (which disables caching for that rule)")
	fields := cacheTTLFields(w)
	for _, fn := range w.Funcs {
		if w.isMockFn(fn) || fn.Name() != "WithConfig" || fn.Signature.Recv() == nil {
			continue
		}
		eachInstr(fn, func(in ssa.Instruction) {
			st, ok := in.(*ssa.Store)
			if !ok {
				return
			}
			fa, ok := st.Addr.(*ssa.FieldAddr)
			if !ok || !fields[fieldOf(fa.X.Type(), fa.Field)] {
				return
			}
			// only stores whose value can be the decoded override
			isOv := false
			for _, o := range w.Origins(st.Val, nil) {
				if decodedOption(o, "cache_ttl") {
					isOv = true
				}
			}
			if !isOv {
				return
			}
			r.Analysed(w.FnName(fn))
			ok2, msg := true, ""
			// the selection between override and prototype value must be a presence test
			var conds []ssa.Value
			var walk func(v ssa.Value)
			seen := map[ssa.Value]bool{}
			walk = func(v ssa.Value) {
				if seen[v] {
					return
				}
				seen[v] = true
				switch x := v.(type) {
				case *ssa.Phi:
					for _, e := range x.Edges {
						walk(e)
					}
				case *ssa.Call:
					if ops := selectOperands(x); ops != nil {
						conds = append(conds, selectCond(x))
						for _, o := range ops {
							walk(o)
						}
					}
				}
			}
			walk(st.Val)
			for _, cnd := range conds {
				for _, f := range condFacts(cnd, true) {
					if f.Kind == FCmp && (isZeroConst(f.Y) || isZeroConst(f.X)) {
						x := f.X
						if isZeroConst(x) {
							x = f.Y
						}
						if decodedOption(x, "cache_ttl") {
							ok2, msg = false, "the override is selected by a value test ("+f.Op.String()+" 0) instead of a presence test: a rule-level cache_ttl of 0s is ignored and the prototype's TTL stays in force"
						}
					}
				}
			}
			// the same for an assignment kept under an if: every way to the store passes a value test
			valueTest := func(f Fact) bool {
				if f.Kind != FCmp || !(isZeroConst(f.Y) || isZeroConst(f.X)) {
					return false
				}
				x := f.X
				if isZeroConst(x) {
					x = f.Y
				}
				if decodedOption(x, "cache_ttl") {
					return true
				}
				if u, isU := x.(*ssa.UnOp); isU && u.Op == token.MUL && decodedOption(u.X, "cache_ttl") {
					return true
				}
				return false
			}
			if ok2 && len(fn.Blocks) > 0 && st.Block() != fn.Blocks[0] && onlyVia(fn, st.Block(), valueTest) {
				ok2, msg = false, "the override is assigned only behind a value test (compared with 0) instead of a presence test: a rule-level cache_ttl of 0s is ignored and the prototype's TTL stays in force"
			}
			r.Ob(ri, w.FnName(fn)+"|ttl-override-presence", st.Pos(), ok2, msg)
		})
	}
}
