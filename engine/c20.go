package main

import (
	"encoding/json"
	"fmt"
	"go/constant"
	"go/token"
	"go/types"
	"os"
	"path/filepath"
	"reflect"
	"sort"
	"strings"

	"golang.org/x/tools/go/ssa"
)

// C20 (claimed clause): "the schema validation applied to the file accepts exactly the mechanism
// types and options that the loader supports". Both sides are tables in the source: the JSON schema
// (schema/config.schema.json, a source artifact embedded into the binary) and the Go decoders
// (type factories comparing the `type` string with constants; struct tags of the structs the
// decoders fill with ErrorUnused). The checker extracts both tables and compares them.

func init() { register("C20", checkC20) }

const schemaRel = "schema/config.schema.json"

// ---------------------------------------------------------------------------------------------
// schema side
// ---------------------------------------------------------------------------------------------

type schemaDoc struct {
	root map[string]any
}

func loadSchema(w *World) (*schemaDoc, error) {
	abs := filepath.Join(w.Repo, schemaRel)
	b, ok := w.Overlay[abs]
	if !ok {
		var err error
		if b, err = os.ReadFile(abs); err != nil {
			return nil, err
		}
	}
	var root map[string]any
	if err := json.Unmarshal(b, &root); err != nil {
		return nil, fmt.Errorf("%s: %w", schemaRel, err)
	}
	return &schemaDoc{root: root}, nil
}

// deref follows local $ref chains; the returned path names the definition for reports.
func (s *schemaDoc) deref(n map[string]any, path string) (map[string]any, string) {
	for i := 0; i < 16 && n != nil; i++ {
		ref, ok := n["$ref"].(string)
		if !ok {
			return n, path
		}
		if !strings.HasPrefix(ref, "#/") {
			return nil, path
		}
		var cur any = s.root
		for _, seg := range strings.Split(ref[2:], "/") {
			m, ok := cur.(map[string]any)
			if !ok {
				return nil, path
			}
			cur = m[seg]
		}
		n, _ = cur.(map[string]any)
		path = ref
	}
	return n, path
}

type schemaKeys struct {
	Props  map[string]map[string]any // option -> subschema
	Paths  map[string]string         // option -> path of the subschema
	Closed bool                      // additionalProperties: false on every object alternative
	Path   string
}

// keysOf reduces a schema node to the set of property names an object instance may carry:
// own properties, merged allOf parts, union over the object alternatives of anyOf/oneOf
// (non-object alternatives such as the string short form of an endpoint are ignored).
// ok=false: the node does not describe an object with named properties.
func (s *schemaDoc) keysOf(n map[string]any, path string) (*schemaKeys, bool) {
	n, path = s.deref(n, path)
	if n == nil {
		return nil, false
	}
	out := &schemaKeys{Props: map[string]map[string]any{}, Paths: map[string]string{}, Closed: true, Path: path}
	found := false
	if props, ok := n["properties"].(map[string]any); ok {
		found = true
		for k, v := range props {
			if m, ok := v.(map[string]any); ok {
				out.Props[k] = m
				out.Paths[k] = path + "/properties/" + k
			}
		}
		if ap, has := n["additionalProperties"]; !has || ap != false {
			out.Closed = false
		}
	}
	merge := func(sub *schemaKeys) {
		for k, v := range sub.Props {
			if _, dup := out.Props[k]; !dup {
				out.Props[k] = v
				out.Paths[k] = sub.Paths[k]
			}
		}
		if !sub.Closed {
			out.Closed = false
		}
	}
	for _, comb := range []string{"allOf", "anyOf", "oneOf"} {
		parts, ok := n[comb].([]any)
		if !ok {
			continue
		}
		for i, p := range parts {
			pm, ok := p.(map[string]any)
			if !ok {
				continue
			}
			if sub, ok := s.keysOf(pm, fmt.Sprintf("%s/%s/%d", path, comb, i)); ok {
				found = true
				merge(sub)
			}
		}
	}
	if !found {
		return nil, false
	}
	return out, true
}

// alternatives lists the definitions referenced from an array property's items (single, anyOf or oneOf).
func (s *schemaDoc) itemAlternatives(arr map[string]any, path string) []struct {
	N    map[string]any
	Path string
} {
	var out []struct {
		N    map[string]any
		Path string
	}
	arr, path = s.deref(arr, path)
	if arr == nil {
		return nil
	}
	items, ok := arr["items"].(map[string]any)
	if !ok {
		return nil
	}
	var list []any
	for _, comb := range []string{"anyOf", "oneOf"} {
		if l, ok := items[comb].([]any); ok {
			list = append(list, l...)
		}
	}
	if list == nil {
		list = []any{items}
	}
	for i, e := range list {
		if m, ok := e.(map[string]any); ok {
			d, p := s.deref(m, fmt.Sprintf("%s/items/%d", path, i))
			if d != nil {
				out = append(out, struct {
					N    map[string]any
					Path string
				}{d, p})
			}
		}
	}
	return out
}

func schemaTypeConst(def map[string]any) (string, bool) {
	props, _ := def["properties"].(map[string]any)
	t, _ := props["type"].(map[string]any)
	if c, ok := t["const"].(string); ok {
		return c, true
	}
	return "", false
}

// ---------------------------------------------------------------------------------------------
// Go side
// ---------------------------------------------------------------------------------------------

// tagKeys lists the option names a decoder (mapstructure / koanf) accepts for struct type t:
// tagged exported fields, squashed / embedded structs flattened, "-" skipped, untagged exported
// fields under their (case-insensitively matched) field name.
func tagKeys(t types.Type, tagName string) (map[string]*types.Var, bool) {
	st := structOf(t)
	if st == nil {
		return nil, false
	}
	out := map[string]*types.Var{}
	tagged := false
	var walk func(st *types.Struct, depth int)
	walk = func(st *types.Struct, depth int) {
		for i := 0; i < st.NumFields(); i++ {
			f := st.Field(i)
			tag, has := reflect.StructTag(st.Tag(i)).Lookup(tagName)
			name, opts, _ := strings.Cut(tag, ",")
			if has {
				tagged = true
			}
			if name == "-" {
				continue
			}
			if (strings.Contains(","+opts+",", ",squash,") || (f.Embedded() && name == "")) && depth < 4 {
				if sub := structOf(f.Type()); sub != nil {
					walk(sub, depth+1)
					continue
				}
			}
			if !f.Exported() {
				continue
			}
			if name == "" {
				name = strings.ToLower(f.Name())
			}
			out[name] = f
		}
	}
	walk(st, 0)
	return out, tagged
}

func structOf(t types.Type) *types.Struct {
	for i := 0; i < 4; i++ {
		switch x := t.Underlying().(type) {
		case *types.Pointer:
			t = x.Elem()
		case *types.Struct:
			return x
		default:
			return nil
		}
	}
	return nil
}

// elemStruct: the struct a field of type T, *T, []T, []*T decodes into (nil for interfaces, maps, scalars).
func elemStruct(t types.Type) types.Type {
	for i := 0; i < 4; i++ {
		switch x := t.Underlying().(type) {
		case *types.Pointer:
			t = x.Elem()
		case *types.Slice:
			t = x.Elem()
		case *types.Array:
			t = x.Elem()
		case *types.Struct:
			return t
		default:
			return nil
		}
	}
	return nil
}

type mechType struct {
	Kind   string // authenticators ...
	Name   string // "generic"
	Pos    token.Pos
	Config types.Type // struct decoded by the constructor (nil: the constructor decodes nothing)
	CfgPos token.Pos
	Fn     *ssa.Function
}

var c20Kinds = map[string]string{
	"authenticators":  "authenticators",
	"authorizers":     "authorizers",
	"contextualizers": "contextualizers",
	"finalizers":      "finalizers",
	"errorhandlers":   "error_handlers",
}

// decodedStruct: the struct type handed (as &local) to the package's decodeConfig within fn or the
// module functions it calls with the raw config (depth 2).
func decodedStruct(w *World, fn *ssa.Function, depth int) (types.Type, token.Pos) {
	for _, c := range callsIn(fn) {
		callee := c.Common().StaticCallee()
		if callee == nil || !w.inModule(callee) {
			continue
		}
		if isStructDecoder(callee) {
			args := c.Common().Args
			for _, a := range args {
				v := stripConv(a)
				if p, ok := v.Type().Underlying().(*types.Pointer); ok {
					if _, isStruct := p.Elem().Underlying().(*types.Struct); isStruct {
						return p.Elem(), c.Pos()
					}
				}
			}
		}
	}
	if depth > 0 {
		for _, c := range callsIn(fn) {
			callee := c.Common().StaticCallee()
			if callee == nil || !w.inModule(callee) || fnPkgPath(callee) != fnPkgPath(fn) {
				continue
			}
			if t, p := decodedStruct(w, callee, depth-1); t != nil {
				return t, p
			}
		}
	}
	return nil, token.NoPos
}

// mechanismTypes extracts, per mechanism kind, the type constants of the registered type factories
// and the struct their constructors decode the config into.
func c20MechanismTypes(w *World) ([]mechType, []string) {
	var out []mechType
	var problems []string
	for _, fn := range w.Funcs {
		p := fnPkgPath(fn)
		if !strings.Contains(p, "/internal/rules/mechanisms/") || w.isMockFn(fn) || fn.Name() != "init" && !strings.HasPrefix(fn.Name(), "init#") {
			continue
		}
		kind := c20Kinds[p[strings.LastIndex(p, "/")+1:]]
		if kind == "" {
			continue
		}
		for _, c := range callsIn(fn) {
			// the registry function: a package-local function taking one function-typed argument
			callee := c.Common().StaticCallee()
			if callee == nil || fnPkgPath(callee) != p || len(c.Common().Args) != 1 {
				continue
			}
			if sig, isFn := c.Common().Args[0].Type().Underlying().(*types.Signature); !isFn || sig.Params().Len() < 3 {
				continue
			}
			fac := closureFn(c.Common().Args[0])
			if fac == nil {
				if f, ok := c.Common().Args[0].(*ssa.Function); ok {
					fac = f
				}
			}
			if fac == nil || len(fac.Params) < 3 {
				problems = append(problems, "type factory registered at "+w.Pos(c.Pos())+" is not a function literal")
				continue
			}
			// the constant(s) compared with the typ parameter
			var typParam *ssa.Parameter
			for _, pa := range fac.Params {
				if pa.Name() == "typ" {
					typParam = pa
				}
			}
			if typParam == nil {
				for _, pa := range fac.Params[1:] {
					if b, ok := pa.Type().Underlying().(*types.Basic); ok && b.Kind() == types.String {
						typParam = pa // last string parameter
					}
				}
			}
			var names []string
			eachInstr(fac, func(in ssa.Instruction) {
				b, ok := in.(*ssa.BinOp)
				if !ok || (b.Op != token.EQL && b.Op != token.NEQ) {
					return
				}
				for _, pair := range [][2]ssa.Value{{b.X, b.Y}, {b.Y, b.X}} {
					if pair[0] == ssa.Value(typParam) {
						if k, ok := pair[1].(*ssa.Const); ok && k.Value != nil && k.Value.Kind() == constant.String {
							names = append(names, constant.StringVal(k.Value))
						}
					}
				}
			})
			if len(names) != 1 {
				problems = append(problems, fmt.Sprintf("type factory at %s compares its type parameter with %d constants", w.Pos(c.Pos()), len(names)))
				continue
			}
			cfg, cpos := decodedStruct(w, fac, 2)
			out = append(out, mechType{Kind: kind, Name: names[0], Pos: fac.Pos(), Config: cfg, CfgPos: cpos, Fn: fac})
		}
	}
	sort.Slice(out, func(i, j int) bool {
		if out[i].Kind != out[j].Kind {
			return out[i].Kind < out[j].Kind
		}
		return out[i].Name < out[j].Name
	})
	return out, problems
}

// endpointAuthTypes: the cases of the endpoint authentication-strategy decode hook.
func endpointAuthTypes(w *World) []mechType {
	var out []mechType
	for _, fn := range w.Funcs {
		if !strings.HasSuffix(fnPkgPath(fn), "/internal/rules/endpoint/authstrategy") || fn.Parent() == nil || fn.Parent().Name() != "DecodeAuthenticationStrategyHookFunc" {
			continue
		}
		// typed["type"] == "<const>" -> block of the case
		for _, b := range fn.Blocks {
			if len(b.Instrs) == 0 {
				continue
			}
			iff, ok := b.Instrs[len(b.Instrs)-1].(*ssa.If)
			if !ok {
				continue
			}
			cmp, ok := iff.Cond.(*ssa.BinOp)
			if !ok || cmp.Op != token.EQL {
				continue
			}
			var name string
			for _, v := range []ssa.Value{cmp.X, cmp.Y} {
				if k, ok := stripConv(v).(*ssa.Const); ok && k.Value != nil && k.Value.Kind() == constant.String {
					name = constant.StringVal(k.Value)
				}
			}
			if name == "" {
				continue
			}
			// the case body: calls in the true successor
			var cfg types.Type
			var cpos token.Pos
			for _, in := range b.Succs[0].Instrs {
				c, ok := in.(*ssa.Call)
				if !ok {
					continue
				}
				callee := c.Common().StaticCallee()
				if callee == nil || !w.inModule(callee) {
					continue
				}
				if callee.Blocks != nil && len(findCalls(callee, func(cc *ssa.CallCommon) bool { n := callName(cc); return strings.Contains(n, "mapstructure") && strings.HasSuffix(n, ".NewDecoder") })) > 0 {
					for _, a := range c.Common().Args {
						if t := elemStruct(stripConv(a).Type()); t != nil {
							if _, isPtr := stripConv(a).Type().Underlying().(*types.Pointer); isPtr {
								cfg, cpos = t, c.Pos()
							}
						}
					}
				} else if t, p := decodedStruct(w, callee, 1); t != nil {
					cfg, cpos = t, p
				}
			}
			out = append(out, mechType{Kind: "endpoint.auth", Name: name, Pos: cmp.Pos(), Config: cfg, CfgPos: cpos, Fn: fn})
		}
	}
	sort.Slice(out, func(i, j int) bool { return out[i].Name < out[j].Name })
	return out
}

// ---------------------------------------------------------------------------------------------
// comparison
// ---------------------------------------------------------------------------------------------

type c20cmp struct {
	w    *World
	r    *Report
	s    *schemaDoc
	ri   *RuleInfo
	tag  string
	seen map[string]bool
	// exact: the decoder rejects unknown keys (mapstructure ErrorUnused); otherwise a Go key that the
	// schema lacks is "usable from the environment only", a schema key the struct lacks is silently ignored
	skipped []string
	accum   map[*types.Struct]*c20accum
	order   []*types.Struct
	oneWay  bool
	// leaf is called for every option both sides know (field, its schema node)
	leaf func(f *types.Var, n map[string]any, path, label string)
}

func (c *c20cmp) compare(goT types.Type, pos token.Pos, n map[string]any, path, label string) {
	sk, ok := c.s.keysOf(n, path)
	gk, tagged := tagKeys(goT, c.tag)
	if !ok || gk == nil {
		c.skipped = append(c.skipped, label+" <-> "+path)
		return
	}
	if !tagged && len(gk) > 0 {
		// a struct without any tag of this decoder is not a configuration struct (e.g. url.URL)
		c.skipped = append(c.skipped, label+" (untagged) <-> "+path)
		return
	}
	key := types.TypeString(goT, func(p *types.Package) string { return strings.TrimPrefix(p.Path(), modPath+"/") }) + "|" + sk.Path
	if _, isNamed := goT.(*types.Named); !isNamed {
		key = label + "|" + sk.Path
	}
	if c.seen[key] {
		return
	}
	c.seen[key] = true
	if c.accum != nil {
		// non-exact decoder (koanf ignores unknown keys, one struct type serves several contexts):
		// record per struct field whether some position of the schema accepts it
		id := structOf(goT)
		a := c.accum[id]
		if a == nil {
			a = &c20accum{label: label, pos: pos, accepted: map[string]bool{}, fields: gk}
			if nt, ok := goT.(*types.Named); ok {
				a.label = types.TypeString(nt, func(p *types.Package) string { return strings.TrimPrefix(p.Path(), modPath+"/") })
			}
			c.accum[id] = a
			c.order = append(c.order, id)
		}
		a.positions = append(a.positions, sk.Path)
		for k := range gk {
			if _, ok := sk.Props[k]; ok || !sk.Closed {
				a.accepted[k] = true
			}
		}
		c.descend(gk, sk, label)
		return
	}
	var onlySchema, onlyGo []string
	for k := range sk.Props {
		if _, ok := gk[k]; !ok {
			onlySchema = append(onlySchema, k)
		}
	}
	for k := range gk {
		if _, ok := sk.Props[k]; !ok && sk.Closed {
			onlyGo = append(onlyGo, k)
		}
	}
	sort.Strings(onlySchema)
	sort.Strings(onlyGo)
	if c.oneWay && len(onlySchema) > 0 {
		// outside the mechanisms the property only needs "loader supports => file accepts": a key
		// the schema accepts and the decoder rejects is unusable from both sources alike
		c.r.Note(fmt.Sprintf("observation (not a C20 violation): the schema (%s) accepts %v which the decoder of %s rejects", sk.Path, onlySchema, label))
		onlySchema = nil
	}
	msg := ""
	if len(onlySchema) > 0 {
		msg += fmt.Sprintf("the schema (%s) accepts %v which the decoder of %s does not know; ", sk.Path, onlySchema, label)
	}
	if len(onlyGo) > 0 {
		msg += fmt.Sprintf("the decoder of %s supports %v which the schema (%s) rejects in a file; ", label, onlyGo, sk.Path)
	}
	if msg == "" {
		msg = "schema and decoder disagree on the option set"
	}
	c.r.Ob(c.ri, "options|"+key, pos, len(onlySchema) == 0 && len(onlyGo) == 0, strings.TrimSuffix(msg, "; "))
	c.descend(gk, sk, label)
}

type c20accum struct {
	label     string
	pos       token.Pos
	fields    map[string]*types.Var
	accepted  map[string]bool
	positions []string
}

// descend compares the nested option structs of the keys both sides know.
func (c *c20cmp) descend(gk map[string]*types.Var, sk *schemaKeys, label string) {
	var ks []string
	for k := range sk.Props {
		if _, ok := gk[k]; ok {
			ks = append(ks, k)
		}
	}
	sort.Strings(ks)
	for _, k := range ks {
		if c.leaf != nil {
			if sub, subPath := c.s.deref(sk.Props[k], sk.Paths[k]); sub != nil {
				c.leaf(gk[k], sub, subPath, label+"."+k)
			}
		}
		ft := elemStruct(gk[k].Type())
		if ft == nil {
			continue
		}
		sub, subPath := c.s.deref(sk.Props[k], sk.Paths[k])
		if sub == nil {
			continue
		}
		if _, isSlice := gk[k].Type().Underlying().(*types.Slice); isSlice {
			if items, ok := sub["items"].(map[string]any); ok {
				sub, subPath = items, subPath+"/items"
			}
		}
		c.compare(ft, gk[k].Pos(), sub, subPath, label+"."+k)
	}
}

func checkC20(w *World, r *Report) {
	s, err := loadSchema(w)
	if err != nil {
		r.Undecided(nil, "cannot read the configuration schema: "+err.Error())
		return
	}
	r.Analysed(schemaRel)
	defs, _ := s.root["definitions"].(map[string]any)
	md, _ := defs["mechanismDefinitions"].(map[string]any)
	mprops, _ := md["properties"].(map[string]any)
	if mprops == nil {
		r.Undecided(nil, "schema has no definitions.mechanismDefinitions.properties")
		return
	}
	c20TypeNamesAsGiven(w, r)
	c20OneYAML(w, r)
	c20ValidatedBeforeLoaded(w, r)
	c20FlagsFromMergedSet(w, r)
	c20EnvUnflattened(w, r)
	c20SliceMergeTotal(w, r)
	// "defaults fill what neither defines": the defaults are storage the loader decodes into
	c09DefaultsNoSharing(w, r)
	mts, problems := c20MechanismTypes(w)
	for _, p := range problems {
		r.Undecided(nil, p)
	}
	ri1 := r.Rule("C20.1", 40, "the mechanism types (and endpoint authentication types) the schema accepts in a file are exactly those a type factory / decode hook of the loader recognises")
	ri2 := r.Rule("C20.2", 30, "for every mechanism type the option names the schema accepts are exactly the option names its decoder (ErrorUnused) accepts, recursively through shared option structs")
	cm := &c20cmp{w: w, r: r, s: s, ri: ri2, tag: "mapstructure", seen: map[string]bool{}}

	type sdef struct {
		N    map[string]any
		Path string
	}
	check := func(kindLabel string, goTypes []mechType, alts []sdef) {
		schemaTypes := map[string]sdef{}
		for _, a := range alts {
			if name, ok := schemaTypeConst(a.N); ok {
				schemaTypes[name] = a
			} else {
				r.Undecided(ri1, "schema alternative "+a.Path+" has no type constant")
			}
		}
		goNames := map[string]bool{}
		for _, mt := range goTypes {
			r.Analysed(w.FnName(mt.Fn))
			goNames[mt.Name] = true
			a, inSchema := schemaTypes[mt.Name]
			r.Ob(ri1, kindLabel+"|"+mt.Name+"|in-schema", mt.Pos, inSchema,
				fmt.Sprintf("%s type %q is supported by the loader (usable from the environment) but no schema alternative accepts it, so a file using it is rejected", kindLabel, mt.Name))
			if !inSchema {
				continue
			}
			props, _ := a.N["properties"].(map[string]any)
			cfgSchema, hasCfg := props["config"].(map[string]any)
			label := kindLabel + ":" + mt.Name
			switch {
			case mt.Config != nil && hasCfg:
				cm.compare(mt.Config, mt.CfgPos, cfgSchema, a.Path+"/properties/config", label)
			case mt.Config == nil && hasCfg:
				if sk, ok := s.keysOf(cfgSchema, a.Path+"/properties/config"); ok && len(sk.Props) > 0 {
					r.Ob(ri2, "options|"+label+"|"+a.Path, mt.Pos, false, fmt.Sprintf("the schema documents options for %s but its constructor decodes no configuration", label))
				}
			case mt.Config != nil && !hasCfg:
				if gk, _ := tagKeys(mt.Config, "mapstructure"); len(gk) > 0 {
					ap, has := a.N["additionalProperties"]
					r.Ob(ri2, "options|"+label+"|"+a.Path, mt.CfgPos, !(has && ap == false), fmt.Sprintf("the decoder of %s accepts options but the schema allows no 'config' for it", label))
				}
			}
		}
		var names []string
		for n := range schemaTypes {
			names = append(names, n)
		}
		sort.Strings(names)
		for _, n := range names {
			r.Ob(ri1, kindLabel+"|"+n+"|in-loader", token.NoPos, goNames[n],
				fmt.Sprintf("the schema (%s) accepts %s type %q but no type factory / decode hook of the loader recognises it", schemaTypes[n].Path, kindLabel, n))
		}
	}

	byKind := map[string][]mechType{}
	for _, mt := range mts {
		byKind[mt.Kind] = append(byKind[mt.Kind], mt)
	}
	var kinds []string
	for _, k := range c20Kinds {
		kinds = append(kinds, k)
	}
	sort.Strings(kinds)
	for _, kind := range kinds {
		arr, _ := mprops[kind].(map[string]any)
		if arr == nil {
			r.Undecided(ri1, "schema has no mechanism list '"+kind+"'")
			continue
		}
		var alts []sdef
		for _, a := range s.itemAlternatives(arr, "#/definitions/mechanismDefinitions/properties/"+kind) {
			alts = append(alts, sdef{a.N, a.Path})
		}
		if len(byKind[kind]) == 0 {
			r.Undecided(ri1, "no type factory found for mechanism kind "+kind)
		}
		check(kind, byKind[kind], alts)
	}
	// endpoint authentication strategies
	ep, _ := defs["endpointConfiguration"].(map[string]any)
	var authAlts []sdef
	if sk, ok := s.keysOf(ep, "#/definitions/endpointConfiguration"); ok {
		if auth := sk.Props["auth"]; auth != nil {
			for _, comb := range []string{"oneOf", "anyOf"} {
				if l, ok := auth[comb].([]any); ok {
					for i, e := range l {
						if m, ok := e.(map[string]any); ok {
							if d, p := s.deref(m, fmt.Sprintf("%s/%s/%d", sk.Paths["auth"], comb, i)); d != nil {
								authAlts = append(authAlts, sdef{d, p})
							}
						}
					}
				}
			}
		}
	}
	eats := endpointAuthTypes(w)
	if len(eats) == 0 || len(authAlts) == 0 {
		r.Undecided(ri1, fmt.Sprintf("endpoint authentication types: %d in the decode hook, %d in the schema", len(eats), len(authAlts)))
	} else {
		check("endpoint.auth", eats, authAlts)
	}
	// C20.6: a closed object that requires a property it does not declare accepts nothing
	ri6 := r.Rule("C20.6", 40, "every closed schema object (additionalProperties: false) declares the properties it requires; otherwise the alternative is unsatisfiable and the file cannot express what the loader supports")
	var walkSchema func(n any, path string)
	walkSchema = func(n any, path string) {
		switch x := n.(type) {
		case map[string]any:
			if req, ok := x["required"].([]any); ok {
				if ap, has := x["additionalProperties"]; has && ap == false {
					if _, hasComb := x["allOf"]; !hasComb {
						pr, _ := x["properties"].(map[string]any)
						var missing []string
						for _, q := range req {
							if qs, ok := q.(string); ok {
								if _, ok := pr[qs]; !ok {
									missing = append(missing, qs)
								}
							}
						}
						sort.Strings(missing)
						r.Ob(ri6, "closed-required|"+path, token.NoPos, len(missing) == 0,
							fmt.Sprintf("schema object %s requires %v but, being closed, does not allow them: no file can satisfy it", path, missing))
					}
				}
			}
			keys := make([]string, 0, len(x))
			for k := range x {
				keys = append(keys, k)
			}
			sort.Strings(keys)
			for _, k := range keys {
				walkSchema(x[k], path+"/"+k)
			}
		case []any:
			for i, e := range x {
				walkSchema(e, fmt.Sprintf("%s/%d", path, i))
			}
		}
	}
	walkSchema(s.root, "#")
	// C20.7: several environment variables contribute to one key; after the distinguishing suffix is
	// stripped, colliding entries have to be merged with what is already there
	ri7 := r.Rule("C20.7", 2, "in the configuration parser, an entry stored under a key from which a distinguishing part was stripped is merged with the entry already present under that key, not assigned over it (else all but one of the variables describing a list are lost)")
	for _, fn := range w.Funcs {
		if !strings.HasSuffix(fnPkgPath(fn), "/internal/config/parser") || w.isMockFn(fn) {
			continue
		}
		n := 0
		eachInstr(fn, func(in ssa.Instruction) {
			mu, ok := in.(*ssa.MapUpdate)
			if !ok {
				return
			}
			stripped := dependsOn(w, mu.Key, func(x ssa.Value) bool {
				c, isC := x.(*ssa.Call)
				if !isC {
					return false
				}
				switch callName(c.Common()) {
				case "strings.Split", "strings.SplitN", "strings.Cut", "strings.TrimSuffix", "strings.TrimRight", "strings.TrimPrefix":
					return true
				}
				return false
			})
			if !stripped {
				return
			}
			if _, fresh := mu.Map.(*ssa.MakeMap); fresh {
				// a map created here and filled outside any loop (a literal) cannot hold a colliding entry
				inLoop := false
				for _, sb := range mu.Block().Succs {
					if reach(sb, nil)[mu.Block()] {
						inLoop = true
					}
				}
				if !inLoop {
					return
				}
			}
			n++
			merges := dependsOn(w, mu.Value, func(x ssa.Value) bool {
				lk, isL := x.(*ssa.Lookup)
				return isL && sameValue(lk.X, mu.Map) && (sameValue(lk.Index, mu.Key) || sameExpr(lk.Index, mu.Key))
			})
			r.Analysed(w.FnName(fn))
			r.Ob(ri7, fmt.Sprintf("%s|stripped-key-store#%d", w.FnName(fn), n), mu.Pos(), merges,
				"entries whose keys differ only in the stripped part overwrite each other here: of the environment variables describing one list only one survives, and which one depends on map iteration order")
		})
	}
	// C20.8: a key-wise merge of two maps treats both operands alike: if the keys it iterates were
	// normalised (maps.Unflatten of one operand), the map it looks them up in is normalised too
	ri8 := r.Rule("C20.8", 1, "where the configuration parser merges two maps key by key, both operands are brought into the same (nested) form first; otherwise flat and nested keys for one property coexist and which value survives depends on the merge order")
	n8 := 0
	for _, fn := range w.Funcs {
		if !strings.HasSuffix(fnPkgPath(fn), "/internal/config/parser") || w.isMockFn(fn) {
			continue
		}
		isUnflatten := func(x ssa.Value) bool {
			c, ok := x.(*ssa.Call)
			return ok && strings.HasSuffix(callName(c.Common()), "koanf/maps.Unflatten")
		}
		eachInstr(fn, func(in ssa.Instruction) {
			lk, ok := in.(*ssa.Lookup)
			if !ok {
				return
			}
			if _, isMap := lk.X.Type().Underlying().(*types.Map); !isMap {
				return
			}
			// the key ranges over a normalised map
			fromNormalised := false
			for _, o := range w.Origins(lk.Index, nil) {
				if ex, ok := o.(*ssa.Extract); ok {
					if nx, ok := ex.Tuple.(*ssa.Next); ok {
						if rg, ok := nx.Iter.(*ssa.Range); ok && dependsOn(w, rg.X, isUnflatten) {
							fromNormalised = true
						}
					}
				}
			}
			if !fromNormalised {
				return
			}
			n8++
			r.Analysed(w.FnName(fn))
			r.Ob(ri8, fmt.Sprintf("%s|keywise-merge#%d", w.FnName(fn), n8), lk.Pos(), dependsOn(w, lk.X, isUnflatten),
				"the keys of one operand are normalised (maps.Unflatten) but they are looked up in the other operand as it is: a list element that arrived with flat keys (config.subject.id) and one with nested keys do not meet, and properties of one element are dropped depending on the order of the environment variables")
		})
	}
	if n8 == 0 {
		r.Undecided(ri8, "no key-wise merge over a normalised map found in the configuration parser")
	}
	// cache back ends: cache.Register("<type>", factory) plus the built-in noop type
	var cacheAlts []sdef
	if cn, ok := props(s.root)["cache"].(map[string]any); ok {
		for _, comb := range []string{"oneOf", "anyOf"} {
			if l, ok := cn[comb].([]any); ok {
				for i, e := range l {
					if m, ok := e.(map[string]any); ok {
						if d, p := s.deref(m, fmt.Sprintf("#/properties/cache/%s/%d", comb, i)); d != nil {
							cacheAlts = append(cacheAlts, sdef{d, p})
						}
					}
				}
			}
		}
	}
	cts := cacheTypes(w)
	if len(cts) < 2 || len(cacheAlts) < 2 {
		r.Undecided(ri1, fmt.Sprintf("cache types: %d registered in the code, %d in the schema", len(cts), len(cacheAlts)))
	} else {
		cm.oneWay = true
		check("cache", cts, cacheAlts)
		cm.oneWay = false
	}
	// rule providers: the struct each provider decodes its section into against providers.<key>
	ri4 := r.Rule("C20.4", 4, "every option a rule provider's or cache back end's decoder (ErrorUnused) accepts is accepted by the schema in a file")
	cm4 := &c20cmp{w: w, r: r, s: s, ri: ri4, tag: "mapstructure", seen: map[string]bool{}, oneWay: true}
	if rp := w.Named("internal/config", "RuleProviders"); rp != nil {
		pk, _ := tagKeys(rp, "koanf")
		pn, _ := props(s.root)["providers"].(map[string]any)
		psk, _ := s.keysOf(pn, "#/properties/providers")
		var names []string
		for k := range pk {
			names = append(names, k)
		}
		sort.Strings(names)
		for _, k := range names {
			f := pk[k]
			// the constructor that reads this section
			var cfg types.Type
			var cpos token.Pos
			for _, fn := range w.Funcs {
				if w.isMockFn(fn) || !strings.Contains(fnPkgPath(fn), "/internal/rules/provider/") {
					continue
				}
				reads := false
				eachInstr(fn, func(in ssa.Instruction) {
					if fa, ok := in.(*ssa.FieldAddr); ok && fieldOf(fa.X.Type(), fa.Field) == f {
						reads = true
					}
					if fa, ok := in.(*ssa.Field); ok && fieldOf(fa.X.Type(), fa.Field) == f {
						reads = true
					}
				})
				if reads {
					if t, p := decodedStruct(w, fn, 1); t != nil {
						cfg, cpos = t, p
						r.Analysed(w.FnName(fn))
					}
				}
			}
			if cfg == nil || psk == nil || psk.Props[k] == nil {
				r.Undecided(ri4, fmt.Sprintf("provider section %q: decoder struct found=%v, schema section found=%v", k, cfg != nil, psk != nil && psk.Props[k] != nil))
				continue
			}
			cm4.compare(cfg, cpos, psk.Props[k], psk.Paths[k], "providers."+k)
		}
		cm.skipped = append(cm.skipped, cm4.skipped...)
	} else {
		r.Undecided(ri4, "type internal/config.RuleProviders not found")
	}
	// C20.3: the top-level configuration struct (koanf tags) against the schema root
	ri3 := r.Rule("C20.3", 20, "every configuration property the loader reads (koanf-tagged fields reachable from config.Configuration that module code reads) is accepted by the schema at some position of its struct, i.e. can be given in a file and not only through the environment")
	if cfgT := w.Named("internal/config", "Configuration"); cfgT != nil {
		cm3 := &c20cmp{w: w, r: r, s: s, ri: ri3, tag: "koanf", seen: map[string]bool{}, accum: map[*types.Struct]*c20accum{}}
		ri5 := r.Rule("C20.5", 3, "every literal a configuration decode hook maps to a value of an enumerated property is accepted by that property's schema enum (else the value is usable through the environment only)")
		hooks := enumHooks(w)
		if len(hooks) < 3 {
			r.Undecided(ri5, fmt.Sprintf("only %d enumerating decode hooks found in internal/config", len(hooks)))
		}
		matched := map[*enumHook]bool{}
		cm3.leaf = func(f *types.Var, n map[string]any, path, label string) {
			for _, h := range hooks {
				ft := f.Type()
				if sl, ok := ft.Underlying().(*types.Slice); ok && !h.matches(ft) {
					ft = sl.Elem()
				}
				if !h.matches(f.Type()) && !h.matches(ft) {
					continue
				}
				enum, _ := n["enum"].([]any)
				epath := path
				if enum == nil {
					if items, ok := n["items"].(map[string]any); ok {
						enum, _ = items["enum"].([]any)
						epath = path + "/items"
					}
				}
				if enum == nil {
					continue // the schema does not enumerate this property: any string passes
				}
				matched[h] = true
				have := map[string]bool{}
				for _, e := range enum {
					if sv, ok := e.(string); ok {
						have[sv] = true
					}
				}
				var missing []string
				for _, c := range h.Cases {
					if !have[c] {
						missing = append(missing, c)
					}
				}
				sort.Strings(missing)
				r.Analysed(w.FnName(h.Fn))
				r.Ob(ri5, "enum|"+h.Fn.Name()+"|"+epath, h.Fn.Pos(), len(missing) == 0,
					fmt.Sprintf("%s maps %v for %s, but the schema enum at %s does not list them: usable from the environment, rejected in a file", h.Fn.Name(), missing, label, epath))
			}
		}
		cm3.compare(cfgT, cfgT.Obj().Pos(), s.root, "#", "config")
		cm.skipped = append(cm.skipped, cm3.skipped...)
		read, fwd := readFields(w)
		for _, id := range cm3.order {
			a := cm3.accum[id]
			var missing, dead []string
			for k, f := range a.fields {
				if a.accepted[k] {
					continue
				}
				if !read[f] {
					// never read by the module, or only copied into a mechanism's raw config under a
					// constant key (then an option of C20.2): not a property of this decoder
					dead = append(dead, k)
					_ = fwd
					continue
				}
				missing = append(missing, k)
			}
			sort.Strings(missing)
			sort.Strings(dead)
			if len(dead) > 0 {
				r.Note(fmt.Sprintf("C20.3: %s has tagged fields %v that no module code reads (or that are only forwarded into a mechanism's raw config, where C20.2 applies); not properties of the top-level loader, not compared", a.label, dead))
			}
			sort.Strings(a.positions)
			r.Ob(ri3, "options|"+a.label, a.pos, len(missing) == 0,
				fmt.Sprintf("the loader reads %v of %s (settable through the environment) but no schema position of that struct (%s) accepts it in a file", missing, a.label, strings.Join(a.positions, ", ")))
		}
	} else {
		r.Undecided(ri3, "type internal/config.Configuration not found")
	}
	if len(cm.skipped) > 0 {
		sort.Strings(cm.skipped)
		r.Note("not reducible to a key set on both sides (not compared): " + strings.Join(cm.skipped, "; "))
	}
}

// readFields: struct fields some non-test, non-generated module function reads (a FieldAddr that is
// loaded, passed on or descended into, or a Field of a struct value).
func readFields(w *World) (map[*types.Var]bool, map[*types.Var]bool) {
	out := map[*types.Var]bool{}
	fwd := map[*types.Var]bool{} // fields whose value is only copied into a mechanism's raw config map
	for _, fn := range w.Funcs {
		if w.isMockFn(fn) || strings.HasPrefix(fn.Name(), "DeepCopy") {
			continue
		}
		eachInstr(fn, func(in ssa.Instruction) {
			switch x := in.(type) {
			case *ssa.Field:
				if f := fieldOf(x.X.Type(), x.Field); f != nil {
					out[f] = true
				}
			case *ssa.FieldAddr:
				f := fieldOf(x.X.Type(), x.Field)
				if f == nil || x.Referrers() == nil {
					return
				}
				for _, rf := range *x.Referrers() {
					if st, ok := rf.(*ssa.Store); ok && st.Addr == ssa.Value(x) {
						continue // written only
					}
					if okUses, stored := forwardedOnly(rf); okUses {
						if stored {
							fwd[f] = true
						} else if _, seen := fwd[f]; !seen {
							fwd[f] = false
						}
						continue
					}
					out[f] = true
				}
			}
		})
	}
	for f, stored := range fwd {
		if out[f] {
			delete(fwd, f)
		} else if !stored {
			// only its length is taken: a read
			out[f] = true
			delete(fwd, f)
		}
	}
	return out, fwd
}

// forwardedOnly: the load of a field is used only for its length and as the value stored under a
// constant key of a map[string]any (the mechanism's raw config, which an exact decoder consumes:
// the key is then an option of C20.2, not a property of the top-level loader).
func forwardedOnly(in ssa.Instruction) (bool, bool) {
	ld, ok := in.(*ssa.UnOp)
	if !ok || ld.Op != token.MUL || ld.Referrers() == nil {
		return false, false
	}
	stored := false
	for _, u := range *ld.Referrers() {
		switch x := u.(type) {
		case *ssa.Call:
			if callName(x.Common()) != "builtin.len" {
				return false, false
			}
		case *ssa.MakeInterface:
			if x.Referrers() == nil {
				return false, false
			}
			for _, uu := range *x.Referrers() {
				mu, ok := uu.(*ssa.MapUpdate)
				if !ok || mu.Value != ssa.Value(x) {
					return false, false
				}
				if _, isConst := mu.Key.(*ssa.Const); !isConst {
					return false, false
				}
				stored = true
			}
		case *ssa.DebugRef:
		default:
			return false, false
		}
	}
	return true, stored
}

func props(n map[string]any) map[string]any {
	p, _ := n["properties"].(map[string]any)
	return p
}

// cacheTypes: the type names passed to cache.Register in init functions, the struct the registered
// factory decodes, and the type names cache.Create handles itself.
func cacheTypes(w *World) []mechType {
	var out []mechType
	for _, fn := range w.Funcs {
		if w.isMockFn(fn) || !strings.Contains(fnPkgPath(fn), "/internal/cache") {
			continue
		}
		for _, c := range callsIn(fn) {
			callee := c.Common().StaticCallee()
			if callee == nil || callee.Name() != "Register" || !strings.HasSuffix(fnPkgPath(callee), "/internal/cache") {
				continue
			}
			k, ok := c.Common().Args[0].(*ssa.Const)
			if !ok || k.Value == nil || k.Value.Kind() != constant.String {
				continue
			}
			mt := mechType{Kind: "cache", Name: constant.StringVal(k.Value), Pos: c.Pos(), Fn: fn}
			if f, ok := stripConv(c.Common().Args[1]).(*ssa.Function); ok {
				mt.Config, mt.CfgPos = decodedStruct(w, f, 2)
				mt.Fn = f
			}
			out = append(out, mt)
		}
		if fn.Name() == "Create" && strings.HasSuffix(fnPkgPath(fn), "/internal/cache") && len(fn.Params) > 0 {
			eachInstr(fn, func(in ssa.Instruction) {
				b, ok := in.(*ssa.BinOp)
				if !ok || b.Op != token.EQL {
					return
				}
				for _, pair := range [][2]ssa.Value{{b.X, b.Y}, {b.Y, b.X}} {
					if pair[0] == ssa.Value(fn.Params[0]) {
						if k, ok := pair[1].(*ssa.Const); ok && k.Value != nil && k.Value.Kind() == constant.String {
							out = append(out, mechType{Kind: "cache", Name: constant.StringVal(k.Value), Pos: b.Pos(), Fn: fn})
						}
					}
				}
			})
		}
	}
	sort.Slice(out, func(i, j int) bool { return out[i].Name < out[j].Name })
	return out
}

// enumHook: a decode hook of internal/config that compares its input with string literals and
// produces a value of one target type.
type enumHook struct {
	Fn     *ssa.Function
	Cases  []string
	Target types.Type // from reflect.TypeOf(T(..)) in the hook
	Name   string     // or from to.Name() == "<Name>"
}

func (h *enumHook) matches(t types.Type) bool {
	if h.Target != nil && types.Identical(t, h.Target) {
		return true
	}
	if n, ok := t.(*types.Named); ok && h.Name != "" && n.Obj().Name() == h.Name && n.Obj().Pkg() != nil && n.Obj().Pkg().Path() == fnPkgPath(h.Fn) {
		return true
	}
	return false
}

func enumHooks(w *World) []*enumHook {
	var out []*enumHook
	for _, fn := range w.Funcs {
		if !strings.HasSuffix(fnPkgPath(fn), "/internal/config") || fn.Parent() != nil || len(fn.Params) != 3 || fn.Signature.Recv() != nil {
			continue
		}
		// func(from reflect.Type, to reflect.Type, data any) (any, error)
		if fn.Params[0].Type().String() != "reflect.Type" || fn.Params[1].Type().String() != "reflect.Type" {
			continue
		}
		h := &enumHook{Fn: fn}
		seen := map[string]bool{}
		for _, f := range withClosures(fn) {
			eachInstr(f, func(in ssa.Instruction) {
				switch x := in.(type) {
				case *ssa.BinOp:
					if x.Op != token.EQL {
						return
					}
					for _, pair := range [][2]ssa.Value{{x.X, x.Y}, {x.Y, x.X}} {
						k, ok := stripConv(pair[1]).(*ssa.Const)
						if !ok || k.Value == nil || k.Value.Kind() != constant.String {
							continue
						}
						// compared with the hook's data (or an element of it), not with to.Name()
						if c, isCall := pair[0].(*ssa.Call); isCall && strings.HasSuffix(callName(c.Common()), "Type.Name") {
							h.Name = constant.StringVal(k.Value)
							continue
						}
						if _, isIface := pair[0].Type().Underlying().(*types.Interface); !isIface {
							continue
						}
						if sv := constant.StringVal(k.Value); !seen[sv] {
							seen[sv] = true
							h.Cases = append(h.Cases, sv)
						}
					}
				case *ssa.Call:
					if callName(x.Common()) == "reflect.TypeOf" && len(x.Common().Args) == 1 {
						h.Target = stripConv(x.Common().Args[0]).Type()
					}
				}
			})
		}
		if len(h.Cases) > 0 && (h.Target != nil || h.Name != "") {
			sort.Strings(h.Cases)
			out = append(out, h)
		}
	}
	sort.Slice(out, func(i, j int) bool { return out[i].Fn.Name() < out[j].Fn.Name() })
	return out
}

// isStructDecoder: a module function that fills a struct from a raw configuration with
// mapstructure (it creates a mapstructure decoder, directly or in a generic instantiation).
func isStructDecoder(f *ssa.Function) bool {
	if f == nil || f.Blocks == nil {
		return false
	}
	for _, c := range callsIn(f) {
		if strings.HasSuffix(callName(c.Common()), "mapstructure/v2.NewDecoder") {
			return true
		}
	}
	return false
}

// ---- C20.9 / C20.10 ----------------------------------------------------------------------------------

// c20TypeNamesAsGiven (C20.9): the schema the file is validated against names the mechanism types
// by exact constants, and nothing validates the environment. A loader that normalises the type
// name (case folding, trimming) before the registry lookup accepts from the environment what the
// file may not contain. Decided at the calls that hand a prototype definition to a type factory:
// the type argument is the decoded field, no string normaliser is applied on the way.
func c20TypeNamesAsGiven(w *World, r *Report) {
	ri := r.Rule("C20.9", 1, "mechanism type names reach the type registries as decoded: no case folding or trimming between the configuration and the lookup")
	n := 0
	for _, fn := range w.Funcs {
		if w.isMockFn(fn) || fn.Blocks == nil || fnPkgPath(fn) != modPath+"/internal/rules/mechanisms" {
			continue
		}
		for _, c := range callsIn(fn) {
			cc := c.Common()
			if cc.IsInvoke() || cc.StaticCallee() != nil {
				continue
			}
			if _, isParam := cc.Value.(*ssa.Parameter); !isParam || len(cc.Args) < 4 {
				continue
			}
			if !isString(cc.Args[1].Type()) || !isString(cc.Args[2].Type()) {
				continue
			}
			n++
			r.Analysed(w.FnName(fn))
			bad := ""
			for _, a := range cc.Args[1:3] {
				dependsOn(w, a, func(x ssa.Value) bool {
					if xc, ok := x.(*ssa.Call); ok {
						switch nm := callName(xc.Common()); {
						case strings.HasPrefix(nm, "strings.To"), strings.HasPrefix(nm, "strings.Trim"), nm == "strings.Title", strings.HasPrefix(nm, "strings.Replace"), strings.HasPrefix(nm, "unicode."), strings.Contains(nm, "cases."):
							bad = nm
						}
					}
					return false
				})
			}
			r.Ob(ri, w.FnName(fn)+"|type-name-as-decoded", c.Pos(), bad == "", "the mechanism id / type handed to the type factory went through "+bad+": a spelling the schema rejects in a file is accepted from the environment (which no schema validates)")
		}
	}
	if n == 0 {
		r.Undecided(ri, "no call of a mechanism type factory found in the mechanism repository")
	}
}

// c20OneYAML (C20.10): a value given through the environment is typed by a YAML parser ("true",
// "10", "1s" ...), the file is parsed by a YAML parser: they must be the same implementation, or
// the same text means different values (YAML 1.1 reads yes/no/on/off as booleans, YAML 1.2 does not).
func c20OneYAML(w *World, r *Report) {
	ri := r.Rule("C20.10", 1, "the configuration file and the values of environment variables are interpreted by the same YAML implementation")
	p := w.P("internal/config/parser")
	if p == nil {
		r.Undecided(ri, "configuration parser package not found")
		return
	}
	impls := map[string]bool{}
	isYAMLImpl := func(path string) bool {
		return strings.HasPrefix(path, "gopkg.in/yaml.") || strings.HasPrefix(path, "sigs.k8s.io/yaml") || strings.HasPrefix(path, "github.com/goccy/go-yaml") || strings.HasPrefix(path, "go.yaml.in/")
	}
	direct := 0
	for path, ip := range p.Imports {
		if isYAMLImpl(path) {
			impls[path] = true
			direct++
			continue
		}
		if strings.Contains(path, "yaml") {
			// a wrapper (koanf's parser): the implementation it imports
			direct++
			for sub := range ip.Imports {
				if isYAMLImpl(sub) {
					impls[sub] = true
				}
			}
		}
	}
	if direct == 0 {
		r.Undecided(ri, "the configuration parser imports no YAML package")
		return
	}
	var l []string
	for k := range impls {
		l = append(l, k)
	}
	sort.Strings(l)
	r.Ob(ri, "config-parser|one-yaml-implementation", token.NoPos, len(l) == 1, "the configuration parser uses several YAML implementations ("+strings.Join(l, ", ")+"): the same text is typed differently in the file and in an environment variable")
}

// ---- C20.11: a configuration file is validated before it is loaded -----------------------------------
//
// The file is checked against the schema, the environment is not; what the schema would reject in a
// file must not get in through a file either. Decided in the loader: every use of the resolved file
// path other than the validation itself (the load) is reachable only through the success edge of
// the validation of that very path, the "no validator configured" edge, or the "no file" edge.
func c20ValidatedBeforeLoaded(w *World, r *Report) {
	ri := r.Rule("C20.11", 1, "the configuration file is loaded only after it was validated (same resolved path), unless no validator is configured")
	n := 0
	for _, fn := range w.Funcs {
		if w.isMockFn(fn) || fn.Blocks == nil || fnPkgPath(fn) != modPath+"/internal/config/parser" || fn.Parent() != nil {
			continue
		}
		// the validation: a call of a func-typed struct field, string -> error
		for _, ci := range callsIn(fn) {
			v, ok := ci.(*ssa.Call)
			if !ok || v.Common().StaticCallee() != nil || v.Common().IsInvoke() || len(v.Common().Args) != 1 {
				continue
			}
			_, vf := fieldLoad(v.Common().Value)
			if vf == nil || !isString(v.Common().Args[0].Type()) || !lastResultIsError(v.Common().Signature()) {
				continue
			}
			F := v.Common().Args[0]
			// the variable holding the path (spilled to an alloc when closures capture it)
			var FA *ssa.Alloc
			if u, isU := F.(*ssa.UnOp); isU && u.Op == token.MUL {
				FA, _ = u.X.(*ssa.Alloc)
			}
			isF := func(x ssa.Value) bool {
				if x == F {
					return true
				}
				if u, isU := x.(*ssa.UnOp); isU && u.Op == token.MUL && FA != nil && u.X == ssa.Value(FA) {
					return true
				}
				return false
			}
			// the uses of the path: calls taking it, closures capturing it
			var uses []ssa.Instruction
			eachInstr(fn, func(in ssa.Instruction) {
				if in == ssa.Instruction(v) {
					return
				}
				switch x := in.(type) {
				case ssa.CallInstruction:
					if b, isB := x.Common().Value.(*ssa.Builtin); isB && b.Name() == "len" {
						return
					}
					for _, a := range x.Common().Args {
						if isF(a) {
							uses = append(uses, in)
						}
					}
				case *ssa.MakeClosure:
					for _, b := range x.Bindings {
						if isF(b) || (FA != nil && b == ssa.Value(FA)) {
							uses = append(uses, in)
						}
					}
				}
			})
			if len(uses) == 0 {
				continue
			}
			n++
			r.Analysed(w.FnName(fn))
			fv := vf
			allowed := func(f Fact) bool {
				if f.Kind == FNil {
					if isResult(v, errIdx(v))(f.V) {
						return true
					}
					if _, lf := fieldLoad(f.V); lf == fv {
						return true // no validator configured
					}
				}
				if l, kd := lenFact(f); l != nil && kd == "empty" && isF(l) {
					return true // no file
				}
				return false
			}
			ok2, pos := true, v.Pos()
			for _, u := range uses {
				if !onlyVia(fn, u.Block(), allowed) {
					ok2 = false
					if u.Pos().IsValid() {
						pos = u.Pos()
					}
				}
			}
			r.Ob(ri, w.FnName(fn)+"|validated-before-loaded", pos, ok2, "the resolved configuration file is used (loaded) on a path that did not pass its validation although a validator is configured: a file found through the lookup directories is accepted with content the schema rejects")
		}
	}
	if n == 0 {
		r.Undecided(ri, "the configuration loader's validation step was not found")
	}
}

// ---- C20.12: flags are read from the merged flag set ---------------------------------------------------
//
// The config file path and the prefix of the environment variables are flags of a parent command.
// cobra's PersistentFlags()/LocalFlags() of a sub-command do not contain inherited flags; a Get* on
// them fails, the error is ignored by convention, and the option silently becomes its zero value:
// with an empty prefix every environment variable is read as configuration and the documented
// HEIMDALLCFG_ variables are ignored. Decided for every flag read in the cmd packages: the flag
// set is cmd.Flags() (or InheritedFlags()).
func c20FlagsFromMergedSet(w *World, r *Report) {
	ri := r.Rule("C20.12", 5, "command line options (config file, environment prefix, ...) are read from the command's merged flag set, not from a set that lacks inherited flags")
	n := 0
	for _, fn := range w.Funcs {
		if fn.Blocks == nil || !(fnPkgPath(fn) == modPath+"/cmd" || strings.HasPrefix(fnPkgPath(fn), modPath+"/cmd/")) {
			continue
		}
		for _, c := range callsIn(fn) {
			nm := callName(c.Common())
			if !strings.Contains(nm, "pflag.FlagSet.Get") {
				continue
			}
			n++
			r.Analysed(w.FnName(fn))
			set := ""
			if sc, _ := resultOfCall(callRecv(c.Common())); sc != nil {
				set = callName(sc.Common())
			}
			flag := ""
			if a := callArgs(c.Common()); len(a) > 0 {
				flag, _ = constString(a[0])
			}
			ok := !strings.HasSuffix(set, "Command.PersistentFlags") && !strings.HasSuffix(set, "Command.LocalFlags") && !strings.HasSuffix(set, "Command.LocalNonPersistentFlags")
			if !ok {
				// the command's own flag, registered in the same package on the same kind of set
				var regs []ssa.CallInstruction
				for _, g := range w.Funcs {
					if fnPkgPath(g) == fnPkgPath(fn) && g.Blocks != nil {
						regs = append(regs, callsIn(g)...)
					}
				}
				for _, rc := range regs {
					rn := callName(rc.Common())
					if !strings.Contains(rn, "pflag.FlagSet.") || strings.Contains(rn, "pflag.FlagSet.Get") {
						continue
					}
					if a := callArgs(rc.Common()); len(a) > 0 {
						if nm2, isC := constString(a[0]); isC && nm2 == flag {
							if sc2, _ := resultOfCall(callRecv(rc.Common())); sc2 != nil && callName(sc2.Common()) == set {
								ok = true
							}
						}
					}
				}
			}
			r.Ob(ri, fmt.Sprintf("%s|flag-read|%s", w.FnName(fn), flag), c.Pos(), ok, "the flag '"+flag+"' is read from "+set+", which does not contain flags inherited from the parent command: the lookup fails, its error is ignored and the option silently becomes empty")
		}
	}
	// the other side: a flag that one package registers and another package (a sub-command) reads must
	// be registered as a persistent flag - a local flag of the parent is unknown to the sub-command
	type reg struct {
		pkg, set string
		pos     token.Pos
	}
	regs := map[string][]reg{}
	reads := map[string][]string{}
	for _, fn := range w.Funcs {
		if fn.Blocks == nil || !(fnPkgPath(fn) == modPath+"/cmd" || strings.HasPrefix(fnPkgPath(fn), modPath+"/cmd/")) {
			continue
		}
		for _, c := range callsIn(fn) {
			nm := callName(c.Common())
			if !strings.Contains(nm, "pflag.FlagSet.") {
				continue
			}
			a := callArgs(c.Common())
			if len(a) == 0 {
				continue
			}
			flag, isC := constString(a[0])
			if !isC {
				continue
			}
			set := ""
			if sc, _ := resultOfCall(callRecv(c.Common())); sc != nil {
				set = callName(sc.Common())
			}
			if strings.Contains(nm, "pflag.FlagSet.Get") {
				reads[flag] = append(reads[flag], fnPkgPath(fn))
			} else {
				regs[flag] = append(regs[flag], reg{fnPkgPath(fn), set, c.Pos()})
			}
		}
	}
	var names []string
	for k := range regs {
		names = append(names, k)
	}
	sort.Strings(names)
	for _, flag := range names {
		for _, rg := range regs[flag] {
			foreign := false
			for _, rp := range reads[flag] {
				if rp != rg.pkg {
					foreign = true
				}
			}
			if !foreign {
				continue
			}
			n++
			r.Ob(ri, fmt.Sprintf("%s|flag-registered|%s", strings.TrimPrefix(rg.pkg, modPath+"/"), flag), rg.pos, strings.HasSuffix(rg.set, "Command.PersistentFlags"), "the flag '"+flag+"' is read by a sub-command of another package but registered with "+rg.set+": only persistent flags are inherited, so the sub-command's lookup fails silently and the option becomes empty")
		}
	}
	if n == 0 {
		r.Undecided(ri, "no flag is read in the cmd packages")
	}
}

// ---- C20.13: environment-derived list elements are nested before they are merged --------------------
//
// An environment variable addresses a property inside a list element by a path
// (..._AUTHENTICATORS_0_CONFIG_SUBJECT_ID); the environment parser keeps the rest of the path as one
// flat key of the element ("config.subject.id"). The decoder knows no such key: unless the
// environment's structure is un-flattened before it is merged and decoded, a property given this
// way is silently lost, while the same property written in the file takes effect. Decided where the
// loader obtains the environment's configuration: what it hands on passed through maps.Unflatten.
func c20EnvUnflattened(w *World, r *Report) {
	ri := r.Rule("C20.13", 1, "the configuration read from the environment is converted into nested structures (maps.Unflatten, also inside list elements) before it is merged and decoded")
	pkg := modPath + "/internal/config/parser"
	// the environment loader: the function of the parser package that uses koanf's env provider
	var envLoader *ssa.Function
	for _, fn := range w.Funcs {
		if fnPkgPath(fn) != pkg || fn.Parent() != nil || fn.Blocks == nil || w.isMockFn(fn) {
			continue
		}
		for _, g := range withClosures(fn) {
			if len(findCalls(g, func(c *ssa.CallCommon) bool { return strings.Contains(callName(c), "koanf/providers/env.Provider") })) > 0 {
				envLoader = fn
			}
		}
	}
	if envLoader == nil {
		r.Undecided(ri, "the function reading the environment (koanf env provider) was not found")
		return
	}
	reachesUnflatten := func(f *ssa.Function) bool {
		if f == nil {
			return false
		}
		reach, _ := w.CG().Reachable([]*ssa.Function{f}, func(g *ssa.Function) bool { return !w.inModule(g) })
		reach[f] = nil
		for g := range reach {
			if g.Blocks == nil {
				continue
			}
			if len(findCalls(g, func(c *ssa.CallCommon) bool { return strings.HasSuffix(callName(c), "koanf/maps.Unflatten") })) > 0 {
				return true
			}
		}
		return false
	}
	n := 0
	for _, fn := range w.Funcs {
		if fnPkgPath(fn) != pkg || fn.Blocks == nil || w.isMockFn(fn) || fn == envLoader {
			continue
		}
		root := fn
		for root.Parent() != nil {
			root = root.Parent()
		}
		if root == envLoader {
			continue
		}
		for _, ec := range findCalls(fn, func(c *ssa.CallCommon) bool { return c.StaticCallee() == envLoader }) {
			n++
			r.Analysed(w.FnName(fn))
			var ev ssa.Value = ec
			fromEnv := func(v ssa.Value) bool {
				return dependsOn(w, v, func(x ssa.Value) bool {
					if x == ev {
						return true
					}
					ex, isEx := x.(*ssa.Extract)
					return isEx && ex.Tuple == ev
				})
			}
			// some call in this function takes the environment's data through maps.Unflatten ...
			passes := false
			for _, c := range callsIn(fn) {
				callee := c.Common().StaticCallee()
				direct := strings.HasSuffix(callName(c.Common()), "koanf/maps.Unflatten")
				if !direct && (callee == nil || !w.inModule(callee) || !reachesUnflatten(callee)) {
					continue
				}
				for _, a := range c.Common().Args {
					if fromEnv(a) {
						passes = true
					}
				}
			}
			// ... and the loader's own result is not handed on as it is
			rawOut := false
			for _, ret := range returnsOf(fn) {
				for _, rv := range ret.Results {
					for _, o := range w.Origins(rv, nil) {
						if ex, isEx := o.(*ssa.Extract); isEx && ex.Tuple == ev && !isErrorType(ex.Type()) {
							rawOut = true
						}
					}
				}
			}
			r.Ob(ri, w.FnName(fn)+"|env-structure-nested", ec.Pos(), passes && !rawOut, "the configuration read from the environment is merged as the environment parser produced it: the elements of lists keep path-like keys (config.subject.id), which the decoder ignores - a property inside a list element that is set by a single environment variable is lost")
		}
	}
	if n == 0 {
		r.Undecided(ri, "the environment loader is never called")
	}
}

// ---- C20.14: in a list merge every defined source element takes effect ---------------------------------
//
// The environment wins per leaf - also for the leaves that are elements of a list. In the function
// that merges two lists element by element, an iteration whose source element is defined (non-nil)
// must end with a store into the same position of the result: a case analysis over the kind of the
// element already there that has no branch for plain values leaves the file's value in place.
func c20SliceMergeTotal(w *World, r *Report) {
	ri := r.Rule("C20.14", 1, "when two lists are merged, every defined element of the overriding list is stored into the result (whatever kind of value is already there)")
	n := 0
	for _, fn := range w.Funcs {
		if fn.Blocks == nil || fn.Parent() != nil || fnPkgPath(fn) != modPath+"/internal/config/parser" || len(fn.Params) != 2 {
			continue
		}
		isAnySlice := func(t types.Type) bool {
			sl, ok := t.Underlying().(*types.Slice)
			if !ok {
				return false
			}
			it, ok := sl.Elem().Underlying().(*types.Interface)
			return ok && it.NumMethods() == 0
		}
		if !isAnySlice(fn.Params[0].Type()) || !isAnySlice(fn.Params[1].Type()) || fn.Signature.Results().Len() != 1 {
			continue
		}
		src := fn.Params[1]
		// the element of the source in an iteration: a load of src[i]
		eachInstr(fn, func(in ssa.Instruction) {
			ld, ok := in.(*ssa.UnOp)
			if !ok || ld.Op != token.MUL {
				return
			}
			ia, ok := ld.X.(*ssa.IndexAddr)
			if !ok || stripConv(ia.X) != ssa.Value(src) {
				return
			}
			n++
			r.Analysed(w.FnName(fn))
			hb := ld.Block() // the loop body block loading the element
			// stores into an element of a slice of the same type at the same index
			isStoreHere := func(b *ssa.BasicBlock) bool {
				for _, x := range b.Instrs {
					if st, ok := x.(*ssa.Store); ok {
						if sia, ok := st.Addr.(*ssa.IndexAddr); ok && sia.Index == ia.Index && stripConv(sia.X) != ssa.Value(src) {
							return true
						}
					}
				}
				return false
			}
			// from the body, without passing a store and without the "element is nil" edge: can the next
			// iteration (a block that reaches the body again) or the return be reached?
			total := true
			seen := map[*ssa.BasicBlock]bool{}
			var walk func(b *ssa.BasicBlock)
			walk = func(b *ssa.BasicBlock) {
				if seen[b] || !total {
					return
				}
				seen[b] = true
				if isStoreHere(b) {
					return
				}
				for si, sx := range b.Succs {
					skip := false
					for _, f := range edgeFacts(b, si) {
						if f.Kind == FNil && (f.V == ssa.Value(ld) || sameValue(f.V, ld)) {
							skip = true // the source does not define this element
						}
					}
					if skip {
						continue
					}
					if sx == hb || (len(sx.Instrs) > 0 && func() bool { _, isRet := sx.Instrs[len(sx.Instrs)-1].(*ssa.Return); return isRet }()) || (reach(sx, nil)[hb] && !b.Dominates(sx) && sx.Dominates(hb)) {
						total = false
						return
					}
					walk(sx)
				}
			}
			walk(hb)
			pos := ld.Pos()
			if !pos.IsValid() {
				pos = fn.Pos()
			}
			r.Ob(ri, fmt.Sprintf("%s|defined-element-stored#%d", w.FnName(fn), n), pos, total, "an iteration with a defined element of the overriding list can end without a store into the result: an override of a plain list element (a value from the environment against one from the file) is ignored")
		})
	}
	if n == 0 {
		r.Undecided(ri, "no element-wise list merge found in the configuration parser")
	}
}
