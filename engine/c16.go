package main

import (
	"fmt"
	"go/token"
	"go/types"
	"sort"
	"strings"

	"golang.org/x/tools/go/ssa"
)

func init() { register("C16", checkC16) }

// ---- generic guarded-by analysis (used by C07, C16, C17) ------------------------------------------

type fieldAccess struct {
	Fn    *ssa.Function
	Instr ssa.Instruction
	Field *types.Var
	Write bool
	Held  lockState
	Fresh bool // the object is allocated in this function (constructor): not yet shared
}

func isMutexType(t types.Type) bool {
	s := t.String()
	return s == "sync.Mutex" || s == "sync.RWMutex"
}

var lockCache = map[*ssa.Function]*LockInfo{}

func lockInfo(fn *ssa.Function) *LockInfo {
	if li, ok := lockCache[fn]; ok {
		return li
	}
	li := lockSets(fn)
	lockCache[fn] = li
	return li
}

// entryHeld: the locks every caller of fn holds at the call (helpers that are only ever called
// with a lock held, e.g. a "publish" method called under the writer mutex). Only static calls
// count; a function whose value is taken, or that has no caller, has no entry locks. Keys are
// translated from the caller's parameter numbering to the callee's.
func entryHeld(w *World, fn *ssa.Function, depth int) lockState {
	edges := w.CG().In[fn]
	if len(edges) == 0 || depth > 2 {
		return nil
	}
	var acc lockState
	first := true
	for _, e := range edges {
		ci, isCall := e.Site.(ssa.CallInstruction)
		if e.Kind != "static" || !isCall || e.Caller == fn {
			return nil
		}
		held := lockInfo(e.Caller).At[e.Site].clone()
		for k, v := range entryHeld(w, e.Caller, depth+1) {
			if _, has := held[k]; !has {
				held[k] = v
			}
		}
		tr := lockState{}
		for k, v := range held {
			dot := strings.IndexByte(k, '.')
			if dot < 0 || !strings.HasPrefix(k, "p") {
				continue
			}
			for j, a := range ci.Common().Args {
				if pa, ok := stripConv(a).(*ssa.Parameter); ok {
					for i, q := range e.Caller.Params {
						if q == pa && k[:dot] == fmt.Sprintf("p%d", i) {
							tr[fmt.Sprintf("p%d", j)+k[dot:]] = v
						}
					}
				}
			}
		}
		if first {
			acc, first = tr, false
		} else {
			acc = meet(acc, tr)
		}
	}
	return acc
}

// fieldAccesses lists all accesses to fields of struct type t in non-mock module functions.
func fieldAccesses(w *World, t *types.Named) []fieldAccess {
	var out []fieldAccess
	for _, fn := range w.Funcs {
		if w.isMockFn(fn) {
			continue
		}
		var li *LockInfo
		eachInstr(fn, func(in ssa.Instruction) {
			fa, ok := in.(*ssa.FieldAddr)
			if !ok || derefNamed(fa.X.Type()) != t {
				return
			}
			f := fieldOf(fa.X.Type(), fa.Field)
			if f == nil || isMutexType(f.Type()) {
				return
			}
			if li == nil {
				li = lockInfo(fn)
			}
			acc := fieldAccess{Fn: fn, Instr: in, Field: f, Held: li.At[in]}
			if eh := entryHeld(w, fn, 0); len(eh) > 0 {
				acc.Held = acc.Held.clone()
				for k, v := range eh {
					if _, has := acc.Held[k]; !has {
						acc.Held[k] = v
					}
				}
			}
			if refs := fa.Referrers(); refs != nil {
				for _, rf := range *refs {
					if st, ok := rf.(*ssa.Store); ok && st.Addr == fa {
						acc.Write = true
					}
				}
			}
			root, _ := accessPath(fa.X)
			if _, isAlloc := root.(*ssa.Alloc); isAlloc {
				acc.Fresh = true
			}
			out = append(out, acc)
		})
	}
	return out
}

// guardedFields infers which mutexes guard which data field of t: the mutexes held in write mode at
// ALL writes of the field outside constructors. Writers must hold all of them (write mode), readers
// at least one of them (any mode) - the usual "writers hold every lock, readers any lock" discipline.
func guardedFields(w *World, t *types.Named, accs []fieldAccess) map[*types.Var][]string {
	st, ok := t.Underlying().(*types.Struct)
	if !ok {
		return nil
	}
	var mutexes []string
	for i := 0; i < st.NumFields(); i++ {
		if isMutexType(st.Field(i).Type()) {
			mutexes = append(mutexes, st.Field(i).Name())
		}
	}
	sets := map[*types.Var]map[string]int{}
	writes := map[*types.Var]int{}
	for _, a := range accs {
		if !a.Write || a.Fresh {
			continue
		}
		writes[a.Field]++
		for k, h := range a.Held {
			if h.Mode != "W" {
				continue
			}
			for _, m := range mutexes {
				if strings.HasSuffix(k, "."+m) {
					if sets[a.Field] == nil {
						sets[a.Field] = map[string]int{}
					}
					sets[a.Field][m]++
				}
			}
		}
	}
	out := map[*types.Var][]string{}
	for f, c := range sets {
		var ms []string
		// majority rule (Engler): a mutex held at more than half of the writes guards the field; the
		// deviating writes are then reported by checkGuardedBy
		for m, n := range c {
			if 2*n > writes[f] {
				ms = append(ms, m)
			}
		}
		sort.Strings(ms)
		if len(ms) > 0 {
			out[f] = ms
		}
	}
	return out
}

func holds(st lockState, mutex string) (bool, string, ssa.Instruction) {
	for k, h := range st {
		if strings.HasSuffix(k, "."+mutex) {
			return true, h.Mode, h.Acq
		}
	}
	return false, "", nil
}

// checkGuardedBy emits one obligation per access to a guarded field.
func checkGuardedBy(w *World, r *Report, ri *RuleInfo, t *types.Named) (map[*types.Var][]string, []fieldAccess) {
	accs := fieldAccesses(w, t)
	g := guardedFields(w, t, accs)
	nth := map[string]int{}
	for _, a := range accs {
		ms, ok := g[a.Field]
		if !ok || a.Fresh {
			continue
		}
		r.Analysed(w.FnName(a.Fn))
		kind := "read"
		okAcc := false
		if a.Write {
			kind = "write"
			okAcc = true
			for _, m := range ms {
				if h, mode, _ := holds(a.Held, m); !h || mode != "W" {
					okAcc = false
				}
			}
		} else {
			for _, m := range ms {
				if h, _, _ := holds(a.Held, m); h {
					okAcc = true
				}
			}
		}
		k := fmt.Sprintf("%s|%s|%s-of-%s", w.FnName(a.Fn), strings.TrimPrefix(t.String(), modPath+"/"), kind, a.Field.Name())
		nth[k]++
		r.Ob(ri, fmt.Sprintf("%s#%d", k, nth[k]), a.Instr.Pos(), okAcc, fmt.Sprintf("%s of %s.%s without holding %s (the field is written under that mutex elsewhere: data race with a concurrent change)", kind, t.Obj().Name(), a.Field.Name(), strings.Join(ms, " and ")))
	}
	return g, accs
}

// ---- C16 -------------------------------------------------------------------------------------------

func findSigner(w *World) (*types.Named, *types.Interface) {
	signer := w.Named("internal/rules/mechanisms/finalizers", "jwtSigner")
	// role-based: the type in the finalizers package that implements watcher.ChangeListener and has a method Sign
	cl := w.Iface("internal/watcher", "ChangeListener")
	if cl != nil {
		for _, t := range w.Implementors(cl) {
			if t.Obj().Pkg().Path() == modPath+"/internal/rules/mechanisms/finalizers" && w.Method(t, "Sign") != nil {
				signer = t
			}
		}
	}
	return signer, cl
}

func checkC16(w *World, r *Report) {
	signer, cl := findSigner(w)
	if signer == nil {
		r.Undecided(nil, "the JWT signer type was not found")
		return
	}
	c16SystemClaims(w, r, signer)
	c16Consistent(w, r, signer, cl)
	c16HeaderClaims(w, r, signer)
	c16PublicOnly(w, r)
	c16HandedOutNotMutated(w, r)
}

func c16SystemClaims(w *World, r *Report, signer *types.Named) {
	ri := r.Rule("C16.1", 7, "the system claims exp, jti, iat, iss, nbf, sub are written after the custom claims were merged, from the subject, the signer name, one issue time and that time plus the TTL")
	fn := w.Method(signer, "Sign")
	if fn == nil {
		r.Undecided(ri, "Sign not found")
		return
	}
	r.Analysed(w.FnName(fn))
	custom := fn.Params[len(fn.Params)-1]
	// the claims map: the map handed to (*jwt.Builder).Claims
	var claims ssa.Value
	var builderCall ssa.Instruction
	for _, c := range callsIn(fn) {
		if strings.HasSuffix(callName(c.Common()), "jwt.Builder.Claims") {
			claims = stripConv(callArgs(c.Common())[0])
			builderCall = c
		}
	}
	if claims == nil {
		r.Undecided(ri, "the claims handed to the JWT builder were not found")
		return
	}
	// merges of custom data: calls (other than the builder) receiving both the custom claims parameter and the map, or ranging stores
	var merges []ssa.Instruction
	for _, c := range callsIn(fn) {
		hasC, hasM := false, false
		for _, a := range c.Common().Args {
			if stripConv(a) == ssa.Value(custom) {
				hasC = true
			}
			if stripConv(a) == claims {
				hasM = true
			}
		}
		if hasC && hasM {
			merges = append(merges, c)
		}
	}
	updates := map[string]*ssa.MapUpdate{}
	var dyn []*ssa.MapUpdate
	eachInstr(fn, func(in ssa.Instruction) {
		mu, ok := in.(*ssa.MapUpdate)
		if !ok || stripConv(mu.Map) != claims {
			return
		}
		if s, ok := constString(mu.Key); ok {
			updates[s] = mu
		} else {
			dyn = append(dyn, mu)
			merges = append(merges, mu)
		}
	})
	r.Ob(ri, "Sign|custom-claims-merged", fn.Pos(), len(merges) > 0, "the custom claims must be merged into the signed claims")
	// the system claims may be written by a helper that is handed the claims map: analyse the helper
	// with its parameters mapped to Sign's (the helper call takes the place of the writes in Sign)
	host := fn // function holding the writes
	subV, ttlV, recvV := ssa.Value(fn.Params[1]), ssa.Value(fn.Params[2]), ssa.Value(fn.Params[0])
	var helperCall *ssa.Call
	if len(updates) == 0 {
		for _, ci := range callsIn(fn) {
			c, ok := ci.(*ssa.Call)
			if !ok || ssa.Instruction(c) == builderCall {
				continue
			}
			callee := c.Common().StaticCallee()
			if callee == nil || callee.Blocks == nil || fnPkgPath(callee) != fnPkgPath(fn) {
				continue
			}
			ci2 := -1
			for i, a := range c.Common().Args {
				if stripConv(a) == claims {
					ci2 = i
				}
			}
			if ci2 < 0 || ci2 >= len(callee.Params) {
				continue
			}
			helperCall, host = c, callee
			subV, ttlV, recvV = nil, nil, nil
			for i, a := range c.Common().Args {
				if i >= len(callee.Params) {
					break
				}
				switch stripConv(a) {
				case ssa.Value(fn.Params[1]):
					subV = callee.Params[i]
				case ssa.Value(fn.Params[2]):
					ttlV = callee.Params[i]
				case ssa.Value(fn.Params[0]):
					recvV = callee.Params[i]
				}
			}
			hc := ssa.Value(callee.Params[ci2])
			eachInstr(callee, func(in ssa.Instruction) {
				mu, ok := in.(*ssa.MapUpdate)
				if !ok || stripConv(mu.Map) != hc {
					return
				}
				if s, ok := constString(mu.Key); ok {
					updates[s] = mu
				}
			})
			r.Analysed(w.FnName(callee))
			break
		}
	}
	// one issue time
	var now ssa.Value
	for _, c := range findCalls(host, named("time.Now")) {
		now = c
	}
	fromNow := func(v ssa.Value) bool {
		return now != nil && dependsOn(w, v, func(x ssa.Value) bool { return x == now })
	}
	want := map[string]func(v ssa.Value) (bool, string){
		"sub": func(v ssa.Value) (bool, string) {
			return subV != nil && stripConv(v) == subV, "sub must be the subject parameter"
		},
		"iss": func(v ssa.Value) (bool, string) {
			root, p := accessPath(stripConv(v))
			return recvV != nil && len(p) == 1 && root == recvV, "iss must be the signer's configured name"
		},
		"iat": func(v ssa.Value) (bool, string) {
			return fromNow(v) && !dependsOn(w, v, func(x ssa.Value) bool { return ttlV != nil && x == ttlV }), "iat must be the issue time"
		},
		"nbf": func(v ssa.Value) (bool, string) {
			return fromNow(v) && !dependsOn(w, v, func(x ssa.Value) bool { return ttlV != nil && x == ttlV }), "nbf must be the issue time"
		},
		"exp": func(v ssa.Value) (bool, string) {
			ok := ttlV != nil && fromNow(v) && dependsOn(w, v, func(x ssa.Value) bool { return x == ttlV })
			// exactly now + ttl: an Add call on the issue time with the ttl parameter
			add := false
			dependsOn(w, v, func(x ssa.Value) bool {
				if c, isC := x.(*ssa.Call); isC && callName(c.Common()) == "time.Time.Add" && len(c.Common().Args) == 2 && c.Common().Args[1] == ttlV && dependsOn(w, c.Common().Args[0], func(y ssa.Value) bool { return y == now }) {
					add = true
				}
				return false
			})
			// ... and nothing else: every time value that can become exp is that sum (a cap or another
			// source makes the token's lifetime differ from the ttl the caller caches it for)
			only := true
			var leaves func(x ssa.Value, d int)
			seenL := map[ssa.Value]bool{}
			leaves = func(x ssa.Value, d int) {
				x = stripConv(x)
				if x == nil || seenL[x] || d > 8 {
					return
				}
				seenL[x] = true
				switch y := x.(type) {
				case *ssa.Phi:
					for _, e := range y.Edges {
						leaves(e, d+1)
					}
				case *ssa.Call:
					n := callName(y.Common())
					if n == "time.Time.Add" && len(y.Common().Args) == 2 && y.Common().Args[1] == ttlV {
						return
					}
					if strings.HasPrefix(n, "time.Time.") && len(y.Common().Args) >= 1 && (n == "time.Time.Unix" || n == "time.Time.UTC" || n == "time.Time.Round" || n == "time.Time.Truncate" || n == "time.Time.Local" || n == "time.Time.UnixMilli") {
						leaves(y.Common().Args[0], d+1)
						return
					}
					if strings.HasSuffix(n, "NewNumericDate") && len(y.Common().Args) == 1 {
						leaves(y.Common().Args[0], d+1)
						return
					}
					only = false
				case *ssa.UnOp:
					if al, isA := y.X.(*ssa.Alloc); isA && y.Op == token.MUL {
						w.eachStore(al, func(st *ssa.Store) { leaves(st.Val, d+1) })
						return
					}
					only = false
				default:
					only = false
				}
			}
			leaves(v, 0)
			return ok && add && only, "exp must be the issue time plus the ttl parameter (and nothing else)"
		},
		"jti": func(v ssa.Value) (bool, string) {
			c, _ := resultOfCall(stripConv(v))
			return c != nil && strings.Contains(callName(c.Common()), "uuid."), "jti must be a fresh UUID"
		},
	}
	names := []string{"exp", "iat", "iss", "jti", "nbf", "sub"}
	for _, n := range names {
		mu := updates[n]
		if mu == nil {
			r.Ob(ri, "Sign|claim|"+n, fn.Pos(), false, "system claim "+n+" is not set")
			continue
		}
		ok, msg := want[n](mu.Value)
		// position of the write within Sign: the write itself, or the call of the helper holding it
		var at ssa.Instruction = mu
		if helperCall != nil {
			at = helperCall
			// inside the helper the write is unconditional
			for _, ret := range returnsOf(host) {
				if !dominatesInstr(mu, ret) {
					ok, msg = false, "system claim "+n+" is not written on every path through "+host.Name()
				}
			}
		}
		after := true
		for _, m := range merges {
			if !dominatesInstr(m, at) || reachableAfter(at, m) {
				after = false
			}
		}
		if !after {
			ok, msg = false, "custom claims can overwrite the system claim "+n+" (merge does not strictly precede it)"
		}
		if !dominatesInstr(at, builderCall) {
			ok, msg = false, "system claim "+n+" is not written on every path to the signing step (a custom claim can take its place)"
		}
		r.Ob(ri, "Sign|claim|"+n, mu.Pos(), ok, msg)
	}
}

func c16Consistent(w *World, r *Report, signer *types.Named, cl *types.Interface) {
	ri2 := r.Rule("C16.2", 4, "key material is read in one lock region and replaced atomically after all fallible steps")
	ri3 := r.Rule("C16.3", 10, "every access to reloadable key material holds the owner's mutex")
	holders := []*types.Named{signer}
	if cl != nil {
		for _, t := range w.Implementors(cl) {
			if t != signer {
				if st, ok := t.Underlying().(*types.Struct); ok {
					for i := 0; i < st.NumFields(); i++ {
						if isMutexType(st.Field(i).Type()) {
							holders = append(holders, t)
							break
						}
					}
				}
			}
		}
	}
	for _, t := range holders {
		g, accs := checkGuardedBy(w, r, ri3, t)
		if len(g) == 0 {
			r.Ob(ri3, strings.TrimPrefix(t.String(), modPath+"/")+"|guarded-fields", token.NoPos, false, "no field of the reloadable holder is written under its mutex")
			continue
		}
		// per function: all reads of guarded fields share one lock region; all writes share one region and no
		// error return is reachable after the first write
		byFn := map[*ssa.Function][]fieldAccess{}
		for _, a := range accs {
			if _, ok := g[a.Field]; ok && !a.Fresh {
				byFn[a.Fn] = append(byFn[a.Fn], a)
			}
		}
		var fns []*ssa.Function
		for fn := range byFn {
			fns = append(fns, fn)
		}
		sort.Slice(fns, func(i, j int) bool { return fns[i].String() < fns[j].String() })
		for _, fn := range fns {
			as := byFn[fn]
			distinct := map[*types.Var]bool{}
			for _, a := range as {
				distinct[a.Field] = true
			}
			if len(distinct) < 2 {
				continue
			}
			var acq ssa.Instruction
			same := true
			for i, a := range as {
				var cur ssa.Instruction
				for _, m := range g[a.Field] {
					if h, _, acq := holds(a.Held, m); h {
						cur = acq
					}
				}
				if cur == nil {
					same = false
				}
				if i == 0 {
					acq = cur
				} else if cur != acq {
					same = false
				}
			}
			kind := "reads"
			if as[0].Write {
				kind = "writes"
			}
			r.Ob(ri2, w.FnName(fn)+"|one-lock-region", fn.Pos(), same, "all "+kind+" of the key material in one function must happen inside one lock region (otherwise a reload between them yields a mismatching key / key id pair)")
			if as[0].Write {
				ok := true
				for _, a := range as {
					for _, ret := range returnsOf(fn) {
						if len(ret.Results) == 0 {
							continue
						}
						last := ret.Results[len(ret.Results)-1]
						if !isErrorType(last.Type()) || !reachableAfter(a.Instr, ret) {
							continue
						}
						for _, s := range w.Sources(last, ret.Block()) {
							if s.Kind != "nil" {
								ok = false
							}
						}
					}
				}
				r.Ob(ri2, w.FnName(fn)+"|no-failure-after-first-write", fn.Pos(), ok, "a reload must replace the key material only after every fallible step succeeded (a failed reload keeps the old state)")
			}
		}
	}
}

func c16HeaderClaims(w *World, r *Report, signer *types.Named) {
	ri := r.Rule("C16.4", 3, "kid, alg and the signing algorithm come from the same JWK that belongs to the signing key")
	fn := w.Method(signer, "Sign")
	if fn == nil {
		r.Undecided(ri, "Sign not found")
		return
	}
	// the local copies
	jwkRoot := func(v ssa.Value) ssa.Value { root, _ := accessPath(v); return root }
	var kidRoot, algRoot, sigAlgRoot ssa.Value
	for _, c := range callsIn(fn) {
		if strings.HasSuffix(callName(c.Common()), ".SignerOptions.WithHeader") {
			args := callArgs(c.Common())
			k, _ := constString(stripConv(args[0]))
			if cv, ok := args[0].(*ssa.Convert); ok {
				k, _ = constString(cv.X)
			}
			if cst, ok := args[0].(*ssa.Const); ok && cst.Value != nil {
				k = strings.Trim(cst.Value.ExactString(), "\"")
			}
			v := stripConv(args[1])
			switch k {
			case "kid":
				if pathEndsWith(v, "KeyID") {
					kidRoot = jwkRoot(v)
				}
			case "alg":
				if pathEndsWith(v, "Algorithm") {
					algRoot = jwkRoot(v)
				}
			}
		}
	}
	var keyVal ssa.Value
	eachInstr(fn, func(in ssa.Instruction) {
		if a, ok := in.(*ssa.Alloc); ok && strings.HasSuffix(a.Type().String(), "jose/v4.SigningKey") {
			if v, _ := storedField(a, "Algorithm"); v != nil {
				x := stripConv(v)
				if cv, ok := x.(*ssa.Convert); ok {
					x = cv.X
				}
				if pathEndsWith(x, "Algorithm") {
					sigAlgRoot = jwkRoot(x)
				}
			}
			keyVal, _ = storedField(a, "Key")
		}
	})
	r.Ob(ri, "Sign|kid-alg-same-jwk", fn.Pos(), kidRoot != nil && kidRoot == algRoot, "the kid and alg header values must be read from the same JWK value")
	r.Ob(ri, "Sign|signing-alg-is-jwk-alg", fn.Pos(), sigAlgRoot != nil && sigAlgRoot == algRoot, "the algorithm handed to jose.NewSigner must be the algorithm of that JWK")
	okKey := false
	if keyVal != nil {
		for _, o := range w.Origins(keyVal, nil) {
			if _, f := fieldLoad(o); f != nil && strings.Contains(f.Type().String(), "crypto.Signer") {
				okKey = true
			}
		}
	}
	r.Ob(ri, "Sign|signs-with-active-key", fn.Pos(), okKey, "the signing key must be the signer's active private key")
}

func c16PublicOnly(w *World, r *Report) {
	ri := r.Rule("C16.5", 5, "only public key material is ever put into a JWK that can reach the JWKS endpoint")
	n := 0
	for _, fn := range w.Funcs {
		if w.isMockFn(fn) {
			continue
		}
		eachInstr(fn, func(in ssa.Instruction) {
			a, ok := in.(*ssa.Alloc)
			if !ok {
				return
			}
			p, ok := a.Type().(*types.Pointer)
			if !ok || !strings.HasSuffix(p.Elem().String(), "go-jose/v4.JSONWebKey") {
				return
			}
			v, _ := storedField(a, "Key")
			if v == nil {
				return // a variable that is filled by unmarshalling / copying
			}
			n++
			r.Analysed(w.FnName(fn))
			ok2 := true
			for _, o := range w.Origins(v, nil) {
				c, _ := resultOfCall(o)
				if c == nil || !methodCallNamed(c.Common(), "Public") {
					ok2 = false
				}
			}
			r.Ob(ri, w.FnName(fn)+"|jwk-literal", a.Pos(), ok2, "the Key of a JSONWebKey literal must be the result of Public()")
		})
	}
	if n == 0 {
		r.Undecided(ri, "no JSONWebKey literal with a Key found")
	}
	// key holders publish only what entry.JWK() produced
	kh := w.Iface("internal/keyholder", "KeyHolder")
	if kh == nil {
		r.Undecided(ri, "keyholder.KeyHolder not found")
		return
	}
	jwkFn := w.MethodOf("internal/keystore", "Entry", "JWK")
	for _, t := range w.Implementors(kh) {
		fn := w.Method(t, "Keys")
		if fn == nil || fn.Blocks == nil {
			continue
		}
		r.Analysed(w.FnName(fn))
		ok, msg := true, ""
		for _, ret := range returnsOf(fn) {
			for _, o := range w.Origins(ret.Results[0], nil) {
				_, f := fieldLoad(o)
				if f == nil {
					if c, isC := o.(*ssa.Const); isC && c.Value == nil {
						continue
					}
					// registry: aggregates the holders' Keys()
					if dependsOn(w, o, func(x ssa.Value) bool {
						c, isCall := x.(*ssa.Call)
						return isCall && c.Common().IsInvoke() && c.Common().Method.Name() == "Keys"
					}) {
						continue
					}
					ok, msg = false, "Keys() returns something else than the published key list"
					continue
				}
				// every store to that field holds elements produced by Entry.JWK()
				for _, g := range w.Funcs {
					if w.isMockFn(g) {
						continue
					}
					eachInstr(g, func(in ssa.Instruction) {
						st, isSt := in.(*ssa.Store)
						if !isSt {
							return
						}
						fa, isFA := st.Addr.(*ssa.FieldAddr)
						if !isFA || fieldOf(fa.X.Type(), fa.Field) != f {
							return
						}
						// the stored slice is filled element-wise from JWK() calls
						good := false
						for _, so := range w.Origins(st.Val, nil) {
							if ms, isMS := so.(*ssa.MakeSlice); isMS {
								if refs := ms.Referrers(); refs != nil {
									for _, rf := range *refs {
										if ia, isIA := rf.(*ssa.IndexAddr); isIA {
											if ir := ia.Referrers(); ir != nil {
												for _, u := range *ir {
													if es, isES := u.(*ssa.Store); isES {
														if c, _ := resultOfCall(es.Val); c != nil && c.Common().StaticCallee() == jwkFn && jwkFn != nil {
															good = true
														}
													}
												}
											}
										}
									}
								}
							}
							if c, isC := so.(*ssa.Const); isC && c.Value == nil {
								good = true
							}
						}
						if !good {
							ok, msg = false, "the published key list is filled from something else than Entry.JWK() in "+w.FnName(g)
						}
					})
				}
			}
		}
		r.Ob(ri, w.FnName(fn)+"|publishes-entry-jwks", fn.Pos(), ok, msg)
	}
	// the registry publishes every key of every holder: the holders' lists are appended as a whole, unconditionally
	for _, t := range w.Implementors(kh) {
		fn := w.Method(t, "Keys")
		if fn == nil || fn.Blocks == nil {
			continue
		}
		hk := findCalls(fn, func(c *ssa.CallCommon) bool { return c.IsInvoke() && c.Method.Name() == "Keys" })
		if len(hk) == 0 {
			continue
		}
		okAll := true
		for _, c := range hk {
			whole := false
			if refs := c.Referrers(); refs != nil {
				for _, rf := range *refs {
					if ac, isC := rf.(*ssa.Call); isC {
						if b, isB := ac.Call.Value.(*ssa.Builtin); isB && b.Name() == "append" && len(ac.Call.Args) == 2 && ac.Call.Args[1] == ssa.Value(c) {
							whole = true
							// unconditional within the loop: the append block is the block of the call
							if ac.Block() != c.Block() {
								whole = false
							}
						}
					}
				}
			}
			if !whole {
				okAll = false
			}
		}
		r.Ob(ri, w.FnName(fn)+"|aggregates-all-keys", fn.Pos(), okAll, "the registry must append every holder's complete key list (filtering or de-duplicating by key id can drop the key a token was signed with)")
	}
	// the management endpoint marshals exactly the registry's keys
	found := false
	for _, fn := range w.Funcs {
		if fnPkgPath(fn) != modPath+"/internal/handler/management" || w.isMockFn(fn) {
			continue
		}
		eachInstr(fn, func(in ssa.Instruction) {
			a, ok := in.(*ssa.Alloc)
			if !ok || !strings.HasSuffix(a.Type().String(), "go-jose/v4.JSONWebKeySet") {
				return
			}
			found = true
			v, _ := storedField(a, "Keys")
			okK := false
			if c, _ := resultOfCall(v); c != nil && c.Common().IsInvoke() && c.Common().Method.Name() == "Keys" {
				okK = true
			}
			r.Ob(ri, w.FnName(fn)+"|jwks-from-registry", a.Pos(), okK, "the JWKS endpoint must publish exactly Registry.Keys()")
		})
	}
	if !found {
		r.Undecided(ri, "the JWKS endpoint was not found")
	}
}

// ---- C16.6: what a key holder hands out is not modified by its consumers -------------------------------
//
// Keys() and Certificates() of the signers return slices that share their backing array with the
// published key material (the certificate chain of the JWK in the key set). A consumer that sorts,
// reverses, compacts or overwrites such a slice in place changes the published key set: the x5c
// chain no longer starts with the certificate of the key and verifiers reject it. Decided at every
// call of Keys()/Certificates() through the two interfaces (keyholder.KeyHolder,
// certificate.Supplier): the result reaches no in-place mutator and no element store.
func c16HandedOutNotMutated(w *World, r *Report) {
	ri := r.Rule("C16.6", 2, "the keys and certificate chains handed out by a key holder are not modified in place by a consumer (no sort, reverse, compact, copy-into or element store on the returned slice)")
	ifaces := []*types.Interface{w.Iface("internal/keyholder", "KeyHolder"), w.Iface("internal/otel/metrics/certificate", "Supplier")}
	isHandOut := func(c *ssa.CallCommon) bool {
		if !c.IsInvoke() {
			return false
		}
		if c.Method.Name() != "Keys" && c.Method.Name() != "Certificates" {
			return false
		}
		for _, it := range ifaces {
			if it != nil && types.Identical(c.Value.Type().Underlying(), it) {
				return true
			}
		}
		return false
	}
	n := 0
	for _, fn := range w.Funcs {
		if w.isMockFn(fn) || fn.Blocks == nil {
			continue
		}
		for _, hc := range findCalls(fn, isHandOut) {
			n++
			var hv ssa.Value = hc
			r.Analysed(w.FnName(fn))
			ok, msg, pos := true, "", hc.Pos()
			from := func(v ssa.Value) bool {
				return hv != nil && dependsOnNoCopy(w, v, hv)
			}
			for _, g := range withClosures(fn) {
				eachInstr(g, func(in ssa.Instruction) {
					switch x := in.(type) {
					case ssa.CallInstruction:
						nm := callName(x.Common())
						if isInPlaceMutator(nm) && len(x.Common().Args) > 0 && from(x.Common().Args[0]) {
							ok, msg, pos = false, nm+" modifies the slice returned by "+hc.Common().Method.Name()+"() in place", x.Pos()
						}
					case *ssa.Store:
						if ia, isIA := x.Addr.(*ssa.IndexAddr); isIA && from(ia.X) {
							ok, msg, pos = false, "an element of the slice returned by "+hc.Common().Method.Name()+"() is overwritten", x.Pos()
						}
					}
				})
			}
			r.Ob(ri, fmt.Sprintf("%s|%s-result-not-mutated", w.FnName(fn), hc.Common().Method.Name()), pos, ok, msg+": the slice shares its memory with the key material published at the JWKS endpoint (x5c chain order, key list)")
		}
	}
	if n == 0 {
		r.Undecided(ri, "no consumer of KeyHolder.Keys / Supplier.Certificates found")
	}
}

// dependsOnNoCopy: v is (a reslice / phi / conversion of) the value src itself - not a copy of it
// (slices.Clone, append to a fresh slice).
func dependsOnNoCopy(w *World, v, src ssa.Value) bool {
	seen := map[ssa.Value]bool{}
	var walk func(x ssa.Value, d int) bool
	walk = func(x ssa.Value, d int) bool {
		if x == nil || seen[x] || d > 12 {
			return false
		}
		seen[x] = true
		if x == src {
			return true
		}
		switch y := x.(type) {
		case *ssa.Phi:
			for _, e := range y.Edges {
				if walk(e, d+1) {
					return true
				}
			}
		case *ssa.Slice:
			return walk(y.X, d+1)
		case *ssa.ChangeType:
			return walk(y.X, d+1)
		case *ssa.UnOp:
			if y.Op == token.MUL {
				if al, ok := y.X.(*ssa.Alloc); ok {
					found := false
					w.eachStore(al, func(st *ssa.Store) {
						if walk(st.Val, d+1) {
							found = true
						}
					})
					return found
				}
				if fv, ok := y.X.(*ssa.FreeVar); ok {
					if b, ok := freeVarBinding(fv).(*ssa.Alloc); ok {
						found := false
						w.eachStore(b, func(st *ssa.Store) {
							if walk(st.Val, d+1) {
								found = true
							}
						})
						return found
					}
				}
			}
		}
		return false
	}
	return walk(v, 0)
}
