package main

import (
	"fmt"
	"go/token"
	"go/types"
	"sort"
	"strings"

	"golang.org/x/tools/go/ssa"
)

func init() {
	register("C07", checkC07)
	register("C06", checkC06)
}

type repoAnchors struct {
	t         *types.Named // the rule.Repository implementation
	treeField *types.Var   // *radixtree.Tree[...] field
	known     *types.Var   // []rule.Rule field
	findRule  *ssa.Function
	mutators  []*ssa.Function
	treeT     *types.Named // instantiated tree type
}

func findRepo(w *World) (*repoAnchors, error) {
	ri := w.Iface("internal/rules/rule", "Repository")
	if ri == nil {
		return nil, fmt.Errorf("rule.Repository not found")
	}
	a := &repoAnchors{}
	for _, t := range w.Implementors(ri) {
		st, ok := t.Underlying().(*types.Struct)
		if !ok {
			continue
		}
		nm := 0
		var tf, kf *types.Var
		for i := 0; i < st.NumFields(); i++ {
			f := st.Field(i)
			if isMutexType(f.Type()) {
				nm++
			}
			if n := derefNamed(f.Type()); n != nil && n.Obj().Pkg() != nil && strings.HasSuffix(n.Obj().Pkg().Path(), "/radixtree") {
				tf = f
				a.treeT = n
			}
			if sl, ok := f.Type().(*types.Slice); ok && strings.HasSuffix(sl.Elem().String(), "rule.Rule") {
				kf = f
			}
		}
		if nm >= 1 && tf != nil {
			a.t, a.treeField, a.known = t, tf, kf
		}
	}
	if a.t == nil {
		return nil, fmt.Errorf("no implementation of rule.Repository with a radix tree field and a mutex found")
	}
	for i := 0; i < ri.NumMethods(); i++ {
		fn := w.Method(a.t, ri.Method(i).Name())
		if fn == nil {
			continue
		}
		if ri.Method(i).Name() == "FindRule" {
			a.findRule = fn
		} else {
			a.mutators = append(a.mutators, fn)
		}
	}
	if a.findRule == nil || len(a.mutators) < 3 {
		return nil, fmt.Errorf("FindRule / mutators of the repository not resolved")
	}
	sort.Slice(a.mutators, func(i, j int) bool { return a.mutators[i].Name() < a.mutators[j].Name() })
	initNodeValuesField(a)
	return a, nil
}

// nodeValuesField: the name of the node field holding the values stored at a node - the tree
// struct's slice field whose element type is the tree's value type argument (resolved by type, so
// that renaming the field does not lose the anchor). Falls back to "values".
var nodeValuesFieldName = "values"

func initNodeValuesField(ra *repoAnchors) {
	if ra == nil || ra.treeT == nil || ra.treeT.TypeArgs() == nil || ra.treeT.TypeArgs().Len() == 0 {
		return
	}
	st, ok := ra.treeT.Underlying().(*types.Struct)
	if !ok {
		return
	}
	arg := ra.treeT.TypeArgs().At(0)
	for i := 0; i < st.NumFields(); i++ {
		if sl, ok := st.Field(i).Type().Underlying().(*types.Slice); ok && types.Identical(sl.Elem(), arg) {
			nodeValuesFieldName = st.Field(i).Name()
		}
	}
}

// treeMethod returns the instantiated method of the repository's tree type.
func treeMethod(w *World, ra *repoAnchors, name string) *ssa.Function {
	return w.Method(ra.treeT, name)
}

// treeRecursive: the recursive worker behind an exported tree method (Find -> the lookup, Delete ->
// the removal): a method of the tree type that the exported method calls and that calls itself.
// Resolved structurally so that renaming the worker does not lose the anchor.
func treeRecursive(w *World, ra *repoAnchors, exported string) *ssa.Function {
	top := treeMethod(w, ra, exported)
	if top == nil {
		return nil
	}
	for _, ci := range callsIn(top) {
		callee := ci.Common().StaticCallee()
		if callee == nil || callee.Blocks == nil || callee.Signature.Recv() == nil || derefNamed(callee.Signature.Recv().Type()) == nil {
			continue
		}
		if derefNamed(callee.Signature.Recv().Type()).Obj() != ra.treeT.Obj() && derefNamed(callee.Signature.Recv().Type()).Origin().Obj() != ra.treeT.Origin().Obj() {
			continue
		}
		for _, cj := range callsIn(callee) {
			if g := cj.Common().StaticCallee(); g != nil && (g == callee || (g.Origin() != nil && g.Origin() == callee.Origin())) {
				return callee
			}
		}
	}
	return nil
}

// nodeWriters: functions (tree methods and helpers, all instantiations) that store into a field of a
// tree node, directly or through an element of a node's slice field.
func nodeWrites(fn *ssa.Function) []ssa.Instruction {
	var out []ssa.Instruction
	eachInstr(fn, func(in ssa.Instruction) {
		st, ok := in.(*ssa.Store)
		if !ok {
			return
		}
		root, p := accessPath(st.Addr)
		if len(p) == 0 {
			// whole-node copy: *child = *grandChild
			if n := derefNamed(st.Addr.Type()); n != nil && n.Obj().Pkg() != nil && strings.HasSuffix(n.Obj().Pkg().Path(), "/radixtree") && n.Obj().Name() == "Tree" {
				if _, isAlloc := root.(*ssa.Alloc); !isAlloc {
					out = append(out, in)
				}
			}
			return
		}
		// is some prefix of the chain a tree node?
		isNode := func(t types.Type) bool {
			n := derefNamed(t)
			return n != nil && n.Obj().Pkg() != nil && strings.HasSuffix(n.Obj().Pkg().Path(), "/radixtree") && n.Obj().Name() == "Tree"
		}
		v := st.Addr
		for depth := 0; depth < 8; depth++ {
			switch x := v.(type) {
			case *ssa.FieldAddr:
				if isNode(x.X.Type()) {
					if a, isAlloc := x.X.(*ssa.Alloc); !isAlloc || a == nil {
						out = append(out, in)
					}
					return
				}
				v = x.X
			case *ssa.IndexAddr:
				v = x.X
			case *ssa.UnOp:
				v = x.X
			default:
				return
			}
		}
	})
	return out
}

func checkC07(w *World, r *Report) {
	ra, err := findRepo(w)
	if err != nil {
		r.Undecided(nil, err.Error())
		return
	}
	ri1 := r.Rule("C07.1", 10, "every access to the rule tree pointer and the known-rules list holds the guarding mutex (writers all of them, readers one)")
	g, accs := checkGuardedBy(w, r, ri1, ra.t)
	if len(g[ra.treeField]) == 0 {
		r.Ob(ri1, "tree-pointer-guarded", token.NoPos, false, "the tree pointer is not written under a mutex")
	}
	// the two roles: the tree lock (the one FindRule takes) and the writer lock (held at writes of the known rules)
	var writerMu, treeMu string
	if ra.known != nil && len(g[ra.known]) > 0 {
		writerMu = g[ra.known][0]
	}
	for _, m := range g[ra.treeField] {
		if m != writerMu {
			treeMu = m
		}
	}
	c07Readers(w, r, ra, treeMu)
	c07Writers(w, r, ra, accs, writerMu, treeMu)
	c07Order(w, r, ra)
	c07Reentrancy(w, r, ra)
	c07Immutable(w, r, ra)
	c07Clone(w, r, ra)
}

func c07Readers(w *World, r *Report, ra *repoAnchors, treeMu string) {
	ri := r.Rule("C07.2", 2, "a lookup holds the tree's read lock from loading the tree pointer to the end of the search")
	fn := ra.findRule
	r.Analysed(w.FnName(fn))
	li := lockInfo(fn)
	find := treeMethod(w, ra, "Find")
	var loadAcq, findAcq ssa.Instruction
	okLoad, okFind := false, false
	eachInstr(fn, func(in ssa.Instruction) {
		if u, ok := in.(*ssa.UnOp); ok {
			if _, f := fieldLoad(u); f == ra.treeField {
				if h, _, acq := holds(li.At[in], treeMu); h {
					okLoad, loadAcq = true, acq
				}
			}
		}
		if c, ok := in.(*ssa.Call); ok && find != nil && c.Common().StaticCallee() == find {
			if h, _, acq := holds(li.At[in], treeMu); h {
				okFind, findAcq = true, acq
			}
			// the searched tree is the loaded pointer
			if _, f := fieldLoad(c.Common().Args[0]); f != ra.treeField {
				okFind = false
			}
		}
	})
	r.Ob(ri, w.FnName(fn)+"|read-lock-covers-load-and-search", fn.Pos(), treeMu != "" && okLoad && okFind && loadAcq == findAcq && loadAcq != nil,
		"the tree pointer must be loaded and the search (including the Match callbacks) must run inside one region of the tree's read lock")
	r.Ob(ri, w.FnName(fn)+"|lock-paired", fn.Pos(), len(li.Unpaired) == 0 && len(li.Double) == 0, "lock without unlock on some path: "+strings.Join(li.Unpaired, ","))
}

func c07Writers(w *World, r *Report, ra *repoAnchors, accs []fieldAccess, writerMu, treeMu string) {
	ri := r.Rule("C07.3", 3, "each rule-set change holds the writer mutex in one region around all its accesses to the shared state")
	byFn := map[*ssa.Function][]fieldAccess{}
	for _, a := range accs {
		if a.Field == ra.treeField || a.Field == ra.known {
			byFn[a.Fn] = append(byFn[a.Fn], a)
		}
	}
	for _, fn := range ra.mutators {
		r.Analysed(w.FnName(fn))
		as := byFn[fn]
		ok := len(as) > 0 && writerMu != ""
		var acq ssa.Instruction
		for i, a := range as {
			h, mode, cur := holds(a.Held, writerMu)
			if !h || mode != "W" || cur == nil {
				ok = false
			}
			if i == 0 {
				acq = cur
			} else if cur != acq {
				ok = false
			}
		}
		li := lockInfo(fn)
		if len(li.Unpaired) != 0 {
			ok = false
		}
		// the writer mutex is held to every exit: deferred unlock, or every return is outside... held at each return
		if !li.Deferred[findKey(li, writerMu)] {
			// explicit unlocks: the unlock must not precede a later access (covered by the region test above)
			_ = li
		}
		r.Ob(ri, w.FnName(fn)+"|one-writer-region", fn.Pos(), ok, "all accesses of a rule-set change to the tree pointer and the known rules must lie in one region of the writer mutex (otherwise concurrent changes from two providers overwrite each other)")
	}
}

func findKey(li *LockInfo, mutex string) string {
	for _, op := range li.Ops {
		if strings.HasSuffix(op.Key, "."+mutex) {
			return op.Key
		}
	}
	return ""
}

func c07Order(w *World, r *Report, ra *repoAnchors) {
	ri := r.Rule("C07.4", 4, "the repository's mutexes are acquired in one global order and every lock is released on every path")
	edges := map[[2]string]token.Pos{}
	for _, fn := range w.Funcs {
		if w.isMockFn(fn) {
			continue
		}
		root := fn
		for root.Parent() != nil {
			root = root.Parent()
		}
		if root.Signature.Recv() == nil || derefNamed(root.Signature.Recv().Type()) != ra.t {
			continue
		}
		li := lockInfo(fn)
		if len(li.Ops) == 0 {
			continue
		}
		r.Analysed(w.FnName(fn))
		r.Ob(ri, w.FnName(fn)+"|paired", fn.Pos(), len(li.Unpaired) == 0, "lock held at a return without unlock: "+strings.Join(li.Unpaired, ","))
		r.Ob(ri, w.FnName(fn)+"|no-double-lock", fn.Pos(), len(li.Double) == 0, "mutex locked while already held: "+strings.Join(li.Double, ","))
		for _, op := range li.Ops {
			if op.Op != "lock" && op.Op != "rlock" {
				continue
			}
			if _, isDefer := op.Call.(*ssa.Defer); isDefer {
				continue
			}
			for held := range li.At[op.Call] {
				if held != op.Key {
					edges[[2]string{held, op.Key}] = op.Call.Pos()
				}
			}
		}
	}
	// interprocedural: a call made while holding a lock, from which a function acquiring another of the
	// repository's mutexes is reachable, orders the held lock before that mutex
	cg := w.CG()
	lockers := map[*ssa.Function][]*lockOp{}
	for _, fn := range w.Funcs {
		if w.isMockFn(fn) {
			continue
		}
		root := fn
		for root.Parent() != nil {
			root = root.Parent()
		}
		if root.Signature.Recv() == nil || derefNamed(root.Signature.Recv().Type()) != ra.t {
			continue
		}
		for _, op := range lockInfo(fn).Ops {
			if op.Op == "lock" || op.Op == "rlock" {
				lockers[fn] = append(lockers[fn], op)
			}
		}
	}
	for fn := range lockers {
		li := lockInfo(fn)
		for _, e := range cg.Out[fn] {
			ci, ok := e.Site.(ssa.CallInstruction)
			if !ok || len(li.At[ci]) == 0 || lockOpOf(fn, ci) != nil {
				continue
			}
			parent, _ := cg.Reachable([]*ssa.Function{e.Callee}, func(f *ssa.Function) bool { return !w.inModule(f) })
			for lf, ops := range lockers {
				if _, reached := parent[lf]; !reached {
					continue
				}
				for _, op := range ops {
					for held := range li.At[ci] {
						if heldName(held) != heldName(op.Key) {
							edges[[2]string{heldName(held), heldName(op.Key)}] = ci.Pos()
						} else {
							edges[[2]string{heldName(held), heldName(held)}] = ci.Pos()
						}
					}
				}
			}
		}
	}
	norm := map[[2]string]token.Pos{}
	for e, p := range edges {
		norm[[2]string{heldName(e[0]), heldName(e[1])}] = p
	}
	edges = norm
	cyc := false
	for e := range edges {
		if e[0] == e[1] {
			cyc = true
		}
		if _, rev := edges[[2]string{e[1], e[0]}]; rev {
			cyc = true
		}
	}
	var es []string
	for e := range edges {
		es = append(es, e[0]+"->"+e[1])
	}
	sort.Strings(es)
	r.Note("lock order: " + strings.Join(es, ", "))
	r.Ob(ri, "lock-order-acyclic", token.NoPos, !cyc, "two functions acquire the repository's mutexes in opposite order: "+strings.Join(es, ", "))
}

// heldName reduces a lock key to the mutex field name (the repository is a singleton object).
func heldName(k string) string {
	if i := strings.LastIndex(k, "."); i >= 0 {
		return k[i+1:]
	}
	return k
}

func c07Reentrancy(w *World, r *Report, ra *repoAnchors) {
	ri := r.Rule("C07.5", 4, "no code that runs under a repository lock can reach a function that takes a repository lock again")
	cg := w.CG()
	lockFns := map[*ssa.Function]bool{}
	for _, fn := range append([]*ssa.Function{ra.findRule}, ra.mutators...) {
		lockFns[fn] = true
	}
	for _, fn := range append([]*ssa.Function{ra.findRule}, ra.mutators...) {
		li := lockInfo(fn)
		var roots []*ssa.Function
		for _, e := range cg.Out[fn] {
			ci, ok := e.Site.(ssa.CallInstruction)
			if !ok {
				// a function value created here (callback handed to the search)
				if len(li.At[e.Site]) > 0 {
					roots = append(roots, e.Callee)
				}
				continue
			}
			if len(li.At[ci]) == 0 {
				continue
			}
			if op := lockOpOf(fn, ci); op != nil {
				continue
			}
			roots = append(roots, e.Callee)
		}
		parent, _ := cg.Reachable(roots, func(f *ssa.Function) bool { return !w.inModule(f) })
		ok := true
		var wit []string
		for lf := range lockFns {
			if _, reached := parent[lf]; reached {
				ok = false
				wit = w.Path(parent, lf)
			}
		}
		r.Analysed(w.FnName(fn))
		r.Ob(ri, w.FnName(fn)+"|no-reentrancy", fn.Pos(), ok, "code running under a repository lock can reach a repository method that locks again (deadlock with a pending writer)", wit...)
	}
}

func c07Immutable(w *World, r *Report, ra *repoAnchors) {
	ri := r.Rule("C07.6", 4, "a published tree is never modified: lookups write no node, and a change does not touch its clone after publishing it")
	find := treeMethod(w, ra, "Find")
	if find == nil {
		r.Undecided(ri, "Tree.Find not found")
		return
	}
	parent, order := w.CG().Reachable([]*ssa.Function{find}, func(f *ssa.Function) bool { return !w.inModule(f) || !strings.HasSuffix(fnPkgPath(f), "/radixtree") })
	ok := true
	var wit []string
	n := 0
	for _, f := range order {
		if f.Blocks == nil || !strings.HasSuffix(fnPkgPath(f), "/radixtree") {
			continue
		}
		n++
		r.Analysed(w.FnName(f))
		if ws := nodeWrites(f); len(ws) > 0 {
			ok = false
			wit = append(w.Path(parent, f), "writes a tree node at "+w.Pos(ws[0].Pos()))
		}
	}
	r.Ob(ri, "lookup-is-read-only", find.Pos(), ok && n > 0, "a function reachable from Tree.Find writes a node of the tree that concurrent lookups walk", wit...)
	// after the pointer store the clone is not used again
	for _, fn := range ra.mutators {
		okM := true
		eachInstr(fn, func(in ssa.Instruction) {
			st, isSt := in.(*ssa.Store)
			if !isSt {
				return
			}
			fa, isFA := st.Addr.(*ssa.FieldAddr)
			if !isFA || fieldOf(fa.X.Type(), fa.Field) != ra.treeField {
				return
			}
			pub := st.Val
			for _, c := range callsIn(fn) {
				if !reachableAfter(st, c) {
					continue
				}
				for _, a := range c.Common().Args {
					if a == pub {
						okM = false
					}
				}
			}
		})
		r.Ob(ri, w.FnName(fn)+"|clone-not-used-after-publication", fn.Pos(), okM, "the new tree must not be passed to any call after it was stored into the shared pointer")
	}
}

func c07Clone(w *World, r *Report, ra *repoAnchors) {
	ri := r.Rule("C07.7", 6, "Clone is deep: every reference-typed field of a tree node is replaced by a fresh copy in the clone")
	var ci *ssa.Function
	clone := treeMethod(w, ra, "Clone")
	if clone != nil {
		for _, e := range w.CG().Out[clone] {
			if e.Kind == "static" && e.Callee.Signature.Recv() != nil && e.Callee.Blocks != nil && e.Callee != clone {
				ci = e.Callee
			}
			if e.Kind == "static" && e.Callee == clone && ci == nil {
				ci = clone // Clone is itself the recursive function
			}
		}
	}
	// two shapes: cloneInto(src, out) fills a node handed in; clone(src) returns the fresh node
	var src *ssa.Parameter
	var out ssa.Value
	switch {
	case ci != nil && len(ci.Params) == 2:
		src, out = ci.Params[0], ci.Params[1]
	case ci != nil && len(ci.Params) == 1:
		src = ci.Params[0]
		for _, ret := range returnsOf(ci) {
			if len(ret.Results) != 1 {
				continue
			}
			for _, o := range w.Origins(ret.Results[0], nil) {
				if a, ok := o.(*ssa.Alloc); ok && derefNamed(a.Type()) == derefNamed(src.Type()) {
					out = a
				}
			}
		}
	}
	if ci == nil || src == nil || out == nil {
		r.Undecided(ri, "the recursive clone helper of the tree was not found")
		return
	}
	r.Analysed(w.FnName(ci))
	// recursiveCloneOf: v is the result of the recursive clone applied to (an element of) field fname of the source
	recursiveCloneOf := func(v ssa.Value, fname string) bool {
		for _, o := range w.Origins(v, nil) {
			c, ok := o.(*ssa.Call)
			if !ok || c.Common().StaticCallee() != ci || len(c.Common().Args) != 1 {
				continue
			}
			if dependsOn(w, c.Common().Args[0], func(x ssa.Value) bool {
				root, p := accessPath(x)
				return root == ssa.Value(src) && len(p) == 1 && p[0] == fname
			}) {
				return true
			}
		}
		return false
	}
	st := ra.treeT.Underlying().(*types.Struct)
	for i := 0; i < st.NumFields(); i++ {
		f := st.Field(i)
		switch f.Type().Underlying().(type) {
		case *types.Pointer, *types.Slice, *types.Map:
		default:
			continue
		}
		fresh, guardOK := false, true
		msg := "field " + f.Name() + " of a cloned node still refers to the original's memory (a writer mutates what a concurrent reader walks)"
		eachInstr(ci, func(in ssa.Instruction) {
			s, isSt := in.(*ssa.Store)
			if !isSt {
				return
			}
			fa, isFA := s.Addr.(*ssa.FieldAddr)
			if !isFA || fa.X != ssa.Value(out) {
				return
			}
			if sf := fieldOf(fa.X.Type(), fa.Field); sf == nil || sf.Name() != f.Name() {
				return
			}
			for _, o := range w.Origins(s.Val, nil) {
				switch x := o.(type) {
				case *ssa.Alloc:
					fresh = true
					// a fresh child node must be filled by the recursive clone, from the same field of the source
					if derefNamed(f.Type()) != nil && strings.HasSuffix(derefNamed(f.Type()).Obj().Pkg().Path(), "/radixtree") {
						rec := false
						for _, c := range callsIn(ci) {
							if c.Common().StaticCallee() != ci || len(c.Common().Args) != 2 {
								continue
							}
							_, sp := accessPath(c.Common().Args[0])
							ro, op := accessPath(c.Common().Args[1])
							srcOK := len(sp) == 1 && sp[0] == f.Name()
							dstOK := c.Common().Args[1] == ssa.Value(x) || (ro == ssa.Value(out) && len(op) == 1 && op[0] == f.Name())
							if srcOK && dstOK {
								rec = true
							}
						}
						if !rec {
							fresh = false
							msg = "the fresh node stored into field " + f.Name() + " is not filled by the recursive clone (a plain struct copy shares the child's slices and children with the original)"
						}
					}
				case *ssa.MakeSlice, *ssa.MakeMap:
					fresh = true
					// a slice of nodes: the elements must be fresh nodes
					if sl, isSl := f.Type().Underlying().(*types.Slice); isSl {
						if _, isPtr := sl.Elem().Underlying().(*types.Pointer); isPtr {
							elemFresh := false
							eachInstr(ci, func(in2 ssa.Instruction) {
								es, ok := in2.(*ssa.Store)
								if !ok {
									return
								}
								ia, ok := es.Addr.(*ssa.IndexAddr)
								if !ok {
									return
								}
								root, p := accessPath(ia.X)
								if (root == ssa.Value(out) && len(p) == 1 && p[0] == f.Name()) || ia.X == x.(ssa.Value) {
									if recursiveCloneOf(es.Val, f.Name()) {
										elemFresh = true
									}
									if ea, isA := es.Val.(*ssa.Alloc); isA {
										// and the fresh element is filled by the recursive clone
										for _, c := range callsIn(ci) {
											if c.Common().StaticCallee() == ci && len(c.Common().Args) == 2 && c.Common().Args[1] == ssa.Value(ea) {
												elemFresh = true
											}
										}
									}
								}
							})
							if !elemFresh {
								fresh = false
								msg = "the cloned child list of field " + f.Name() + " holds the original's child nodes"
							}
						}
					}
				case *ssa.Call:
					n := callName(x.Common())
					if n == "slices.Clone" || n == "maps.Clone" {
						fresh = true
					}
					if recursiveCloneOf(x, f.Name()) {
						fresh = true
					}
				}
			}
			// the guard: only emptiness / nil tests of fields of the source node
			for _, b := range ci.Blocks {
				for bi := range b.Succs {
					if !reachFromEdge(b, bi, nil)[s.Block()] || b.Dominates(s.Block()) == false {
						continue
					}
					for _, fct := range rawEdgeFacts(b, bi) {
						var tested ssa.Value
						switch fct.Kind {
						case FNil, FNonNil:
							tested = fct.V
						case FCmp:
							if l, _ := lenFact(fct); l != nil {
								tested = l
							} else if _, isIdx := fct.X.(*ssa.Phi); isIdx {
								continue // loop counter of the element-wise copy
							} else if _, isBin := fct.X.(*ssa.BinOp); isBin {
								continue
							} else {
								guardOK = false
							}
						default:
							continue
						}
						if tested != nil {
							if root, p := accessPath(tested); root != ssa.Value(src) || len(p) > 1 {
								guardOK = false
							}
						}
					}
				}
			}
		})
		r.Ob(ri, w.FnName(ci)+"|deep-copy|"+f.Name(), ci.Pos(), fresh && guardOK, msg)
	}
}

// ---- C06 ---------------------------------------------------------------------------------------------

func checkC06(w *World, r *Report) {
	ra, err := findRepo(w)
	if err != nil {
		r.Undecided(nil, err.Error())
		return
	}
	c06AllOrNothing(w, r, ra)
	c06Clone(w, r, ra)
	c06Constraint(w, r, ra)
	c06Bookkeeping(w, r, ra)
	c06ChangeDetection(w, r, ra)
	c06NodeRemoval(w, r, ra)
	c06TakeoverComplete(w, r, ra)
	c06UpdateKeepsOrder(w, r, ra)
	c06WalkersAgree(w, r, ra)
	// a rejected change leaves the live tree untouched only if the working copy shares nothing with it
	c07Clone(w, r, ra)
}

func sharedStateStores(fn *ssa.Function, ra *repoAnchors) []*ssa.Store {
	var out []*ssa.Store
	eachInstr(fn, func(in ssa.Instruction) {
		st, ok := in.(*ssa.Store)
		if !ok {
			return
		}
		fa, ok := st.Addr.(*ssa.FieldAddr)
		if !ok {
			return
		}
		f := fieldOf(fa.X.Type(), fa.Field)
		if f == ra.treeField || f == ra.known {
			out = append(out, st)
		}
	})
	return out
}

// stateEffect: a write to the shared tree pointer / the known-rules list, either a store in the
// function itself or a call to a helper of the same package that stores one of its parameters
// (or a value computed from them) into that field; Val is expressed in the caller's values.
type stateEffect struct {
	In    ssa.Instruction
	Field *types.Var
	Val   ssa.Value
}

func sharedStateEffects(w *World, fn *ssa.Function, ra *repoAnchors) []stateEffect {
	var out []stateEffect
	for _, st := range sharedStateStores(fn, ra) {
		fa := st.Addr.(*ssa.FieldAddr)
		out = append(out, stateEffect{st, fieldOf(fa.X.Type(), fa.Field), st.Val})
	}
	// in-place modification of the shared slice: slices.DeleteFunc & co. compact / reorder the backing
	// array of their argument, so calling them on the shared list changes it at once, whatever is
	// done with the result
	for _, ci := range callsIn(fn) {
		cc := ci.Common()
		name := callName(cc)
		inPlace := false
		for _, pfx := range []string{"slices.DeleteFunc", "slices.Delete", "slices.Compact", "slices.CompactFunc", "slices.Sort", "slices.SortFunc", "slices.SortStableFunc", "slices.Reverse", "sort.Slice", "sort.SliceStable", "sort.Sort", "sort.Stable"} {
			if name == pfx || strings.HasPrefix(name, pfx+"[") {
				inPlace = true
			}
		}
		if !inPlace || len(cc.Args) == 0 {
			continue
		}
		if ld, ok := stripConv(cc.Args[0]).(*ssa.UnOp); ok {
			if fa, ok := ld.X.(*ssa.FieldAddr); ok {
				if f := fieldOf(fa.X.Type(), fa.Field); f == ra.known || f == ra.treeField {
					out = append(out, stateEffect{ci, f, nil})
				}
			}
		}
	}
	for _, ci := range callsIn(fn) {
		callee := ci.Common().StaticCallee()
		if callee == nil || callee == fn || fnPkgPath(callee) != fnPkgPath(fn) || callee.Blocks == nil {
			continue
		}
		isMutator := false
		for _, m := range ra.mutators {
			if m == callee {
				isMutator = true
			}
		}
		if isMutator {
			continue
		}
		for _, st := range sharedStateStores(callee, ra) {
			fa := st.Addr.(*ssa.FieldAddr)
			val := st.Val
			for _, o := range w.Origins(st.Val, nil) {
				if p, ok := o.(*ssa.Parameter); ok {
					for i, q := range callee.Params {
						if q == p && i < len(ci.Common().Args) {
							val = ci.Common().Args[i]
						}
					}
				}
			}
			out = append(out, stateEffect{ci, fieldOf(fa.X.Type(), fa.Field), val})
		}
	}
	return out
}

func c06AllOrNothing(w *World, r *Report, ra *repoAnchors) {
	ri := r.Rule("C06.1", 3, "a change that cannot be applied leaves tree and bookkeeping untouched: no failure is reachable after the first store to the shared state")
	for _, fn := range ra.mutators {
		r.Analysed(w.FnName(fn))
		ok, msg := true, ""
		stores := sharedStateEffects(w, fn, ra)
		if len(stores) == 0 {
			ok, msg = false, "the change never updates the shared state"
		}
		for _, se := range stores {
			st := se.In
			for _, ret := range returnsOf(fn) {
				if !reachableAfter(st, ret) {
					continue
				}
				for _, s := range w.Sources(ret.Results[len(ret.Results)-1], ret.Block()) {
					if s.Kind != "nil" {
						ok, msg = false, "after the store at "+w.Pos(st.Pos())+" the function can still fail at "+w.Pos(ret.Pos())+": the change is then half applied"
					}
				}
			}
		}
		r.Ob(ri, w.FnName(fn)+"|all-or-nothing", fn.Pos(), ok, msg)
	}
}

func c06Clone(w *World, r *Report, ra *repoAnchors) {
	ri := r.Rule("C06.2", 4, "rule-set changes are applied to a clone of the tree, never to the shared tree")
	cloneFn := treeMethod(w, ra, "Clone")
	// mutating tree methods: exported methods of the tree from which a node write is reachable
	mutating := map[*ssa.Function]bool{}
	for _, name := range []string{"Add", "Delete"} {
		if m := treeMethod(w, ra, name); m != nil {
			mutating[m] = true
		}
	}
	ms := w.Prog.MethodSets.MethodSet(types.NewPointer(ra.treeT))
	for i := 0; i < ms.Len(); i++ {
		m := w.Prog.MethodValue(ms.At(i))
		if m == nil || m.Blocks == nil || !ms.At(i).Obj().Exported() {
			continue
		}
		// a method returning a freshly allocated tree (Clone) writes only its own result
		freshResult := false
		for _, ret := range returnsOf(m) {
			if len(ret.Results) == 1 {
				if _, isAlloc := ret.Results[0].(*ssa.Alloc); isAlloc {
					freshResult = true
				}
			}
		}
		if freshResult {
			continue
		}
		_, order := w.CG().Reachable([]*ssa.Function{m}, func(f *ssa.Function) bool { return !strings.HasSuffix(fnPkgPath(f), "/radixtree") })
		for _, f := range order {
			if f.Blocks != nil && strings.HasSuffix(fnPkgPath(f), "/radixtree") && len(nodeWrites(f)) > 0 && f.Name() != "cloneInto" {
				mutating[m] = true
			}
		}
	}
	isCloneResult := func(v ssa.Value) bool {
		c, _ := resultOfCall(v)
		return c != nil && cloneFn != nil && c.Common().StaticCallee() == cloneFn
	}
	n := 0
	for _, fn := range w.Funcs {
		if fnPkgPath(fn) != ra.t.Obj().Pkg().Path() || w.isMockFn(fn) {
			continue
		}
		for _, c := range callsIn(fn) {
			callee := c.Common().StaticCallee()
			if callee == nil || !mutating[callee] {
				continue
			}
			n++
			r.Analysed(w.FnName(fn))
			ok, msg := true, ""
			for _, o := range w.Origins(c.Common().Args[0], nil) {
				switch {
				case isCloneResult(o):
				default:
					if p, isP := o.(*ssa.Parameter); isP {
						// helper: every caller must hand in a clone
						idx := -1
						for i, q := range p.Parent().Params {
							if q == p {
								idx = i
							}
						}
						for _, e := range w.CG().In[p.Parent()] {
							ci, isCI := e.Site.(ssa.CallInstruction)
							if !isCI || e.Kind != "static" {
								continue
							}
							for _, ao := range w.Origins(ci.Common().Args[idx], nil) {
								if !isCloneResult(ao) {
									ok, msg = false, "the tree handed to "+p.Parent().Name()+" at "+w.Pos(ci.Pos())+" is not a clone"
								}
							}
						}
						continue
					}
					ok, msg = false, "a mutating tree operation is applied to "+o.String()+" instead of a clone"
				}
			}
			r.Ob(ri, fmt.Sprintf("%s|%s-on-clone", w.FnName(fn), callee.Name()), c.Pos(), ok, msg)
		}
	}
	if n == 0 {
		r.Undecided(ri, "no mutating tree call found in the repository")
	}
	// the published pointer is the clone that was modified
	for _, fn := range ra.mutators {
		ok := false
		for _, se := range sharedStateEffects(w, fn, ra) {
			if se.Field != ra.treeField {
				continue
			}
			if se.Val == nil {
				continue
			}
			for _, o := range w.Origins(se.Val, nil) {
				if isCloneResult(o) {
					ok = true
				}
			}
			if isCloneResult(se.Val) {
				ok = true
			}
		}
		r.Ob(ri, w.FnName(fn)+"|publishes-the-clone", fn.Pos(), ok, "the pointer stored into the shared field must be the clone the change was applied to")
	}
}

func c06Constraint(w *World, r *Report, ra *repoAnchors) {
	ri := r.Rule("C06.3", 3, "a path expression owned by another rule set is rejected: the same-source constraint is installed and enforced before a value is added")
	// installed: the repository constructor passes a non-nil function to WithValuesConstraints
	installed := false
	for _, fn := range w.Funcs {
		if fnPkgPath(fn) != ra.t.Obj().Pkg().Path() || w.isMockFn(fn) {
			continue
		}
		for _, c := range callsIn(fn) {
			callee := c.Common().StaticCallee()
			if callee == nil || callee.Origin() == nil && !strings.HasPrefix(callee.Name(), "WithValuesConstraints") {
				continue
			}
			if !strings.HasPrefix(callee.Name(), "WithValuesConstraints") {
				continue
			}
			if f := closureFn(stripConv(c.Common().Args[0])); f != nil {
				installed = true
				r.Analysed(w.FnName(f))
				// the constraint compares the source ids of old and new values
				cmp := false
				eachInstr(f, func(in ssa.Instruction) {
					if b, ok := in.(*ssa.BinOp); ok && b.Op == token.EQL {
						cx, _ := resultOfCall(b.X)
						cy, _ := resultOfCall(b.Y)
						if cx != nil && cy != nil && cx.Common().IsInvoke() && cy.Common().IsInvoke() && cx.Common().Method.Name() == "SrcID" && cy.Common().Method.Name() == "SrcID" {
							cmp = true
						}
					}
				})
				r.Ob(ri, w.FnName(fn)+"|constraint-compares-sources", c.Pos(), cmp, "the constraint must compare the rule-set source of the existing and the new value")
			}
		}
	}
	r.Ob(ri, "constraint-installed", token.NoPos, installed, "the repository must create its tree with a values constraint")
	add := treeMethod(w, ra, "Add")
	if add == nil {
		r.Undecided(ri, "Tree.Add not found")
		return
	}
	r.Analysed(w.FnName(add))
	// the option stores the given function
	// enforced: the append to values is reachable only through the true edge of canAdd(node.values, value)
	ok, n := true, 0
	eachInstr(add, func(in ssa.Instruction) {
		st, isSt := in.(*ssa.Store)
		if !isSt || !pathEndsWith(st.Addr, nodeValuesFieldName) {
			return
		}
		n++
		if !onlyVia(add, st.Block(), func(f Fact) bool {
			if f.Kind != FTrue {
				return false
			}
			c, _ := resultOfCall(f.V)
			if c == nil || c.Common().StaticCallee() != nil || c.Common().IsInvoke() {
				return false
			}
			return isBoolFuncField(c.Common().Value) && len(c.Common().Args) == 2 && c.Common().Args[1] == ssa.Value(add.Params[2])
		}) {
			ok = false
		}
	})
	r.Ob(ri, w.FnName(add)+"|constraint-before-append", add.Pos(), ok && n > 0, "a value may be appended to a node only through the true edge of the constraint check for that value")
	// the false edge fails
	okF := false
	ek := w.EK()
	for _, ret := range returnsOf(add) {
		k := ek.ValueKinds(ret.Results[0], nil)
		for v := range k.kinds {
			if v.Name() == "ErrConstraintsViolation" {
				okF = true
			}
		}
	}
	r.Ob(ri, w.FnName(add)+"|violation-is-an-error", add.Pos(), okF, "a constraint violation must be reported as ErrConstraintsViolation")
}

func c06Bookkeeping(w *World, r *Report, ra *repoAnchors) {
	ri := r.Rule("C06.4", 3, "the bookkeeping of known rules is updated with exactly the rules that were removed from / added to the tree")
	for _, fn := range ra.mutators {
		r.Analysed(w.FnName(fn))
		ok, msg := true, ""
		for _, c := range callsIn(fn) {
			callee := c.Common().StaticCallee()
			if callee == nil || callee.Signature.Recv() == nil || derefNamed(callee.Signature.Recv().Type()) != ra.t || len(c.Common().Args) != 3 {
				continue
			}
			rules := c.Common().Args[2]
			// does the helper add or delete?
			adds, dels := false, false
			for _, e := range w.CG().Out[callee] {
				if strings.HasPrefix(e.Callee.Name(), "Add") && e.Callee.Signature.Recv() != nil {
					adds = true
				}
				if strings.HasPrefix(e.Callee.Name(), "Delete") && e.Callee.Signature.Recv() != nil {
					dels = true
				}
			}
			found := false
			for _, st := range sharedStateEffects(w, fn, ra) {
				if st.Field != ra.known || st.Val == nil {
					continue
				}
				// the value stored into the known-rules list is computed (possibly through locals and
				// several steps) from an append of the added rules / a DeleteFunc over the removed ones
				if adds && dependsOn(w, st.Val, func(x ssa.Value) bool {
					ac, isC := x.(*ssa.Call)
					if !isC {
						return false
					}
					b, isB := ac.Call.Value.(*ssa.Builtin)
					return isB && b.Name() == "append" && len(ac.Call.Args) == 2 && sameLocal(ac.Call.Args[1], rules)
				}) {
					found = true
				}
				if dels && dependsOn(w, st.Val, func(x ssa.Value) bool {
					dc, _ := resultOfCall(x)
					if dc == nil {
						if c, isC := x.(*ssa.Call); isC {
							dc = c
						}
					}
					if dc == nil || !strings.HasPrefix(callName(dc.Common()), "slices.DeleteFunc") {
						return false
					}
					if mc, isMC := dc.Common().Args[1].(*ssa.MakeClosure); isMC {
						for _, bnd := range mc.Bindings {
							if sameLocal(bnd, rules) || bindingOf(bnd, rules) {
								return true
							}
						}
					}
					return false
				}) {
					found = true
				}
			}
			if !found {
				kind := "added to"
				if dels {
					kind = "removed from"
				}
				ok, msg = false, "the rules "+kind+" the tree by "+callee.Name()+" are not the ones the known-rules list is updated with"
			}
		}
		r.Ob(ri, w.FnName(fn)+"|bookkeeping-follows-tree", fn.Pos(), ok, msg)
	}
}

// sameLocal: a and b are the same value or loads of the same local variable.
func sameLocal(a, b ssa.Value) bool {
	if a == b {
		return true
	}
	ra, pa := accessPath(a)
	rb, pb := accessPath(b)
	return ra == rb && len(pa) == 0 && len(pb) == 0
}

// bindingOf: the closure binding is the variable holding value v.
func bindingOf(bnd, v ssa.Value) bool {
	if al, ok := bnd.(*ssa.Alloc); ok {
		r, p := accessPath(v)
		return r == ssa.Value(al) && len(p) == 0
	}
	return false
}

// ---- C06.5: change detection covers the whole rule definition --------------------------------------------

// c06ChangeDetection: an update replaces a loaded rule only if its hash differs. The hash must
// therefore cover every field of the rule definition, otherwise a replaced version keeps matching.
func c06ChangeDetection(w *World, r *Report, ra *repoAnchors) {
	ri := r.Rule("C06.5", 2, "the rule hash used to detect changed rules covers every field of the rule definition")
	ruleT := w.Named("internal/rules/config", "Rule")
	if ruleT == nil {
		r.Undecided(ri, "config.Rule not found")
		return
	}
	fn := w.Method(ruleT, "Hash")
	if fn == nil || fn.Blocks == nil {
		r.Undecided(ri, "config.Rule.Hash not found")
		return
	}
	r.Analysed(w.FnName(fn))
	recv := fn.Params[0]
	// sinks: digest writes, marshal calls and the returned value
	var sinks []ssa.Value
	for _, c := range callsIn(fn) {
		if n := callName(c.Common()); isOrderSensitiveSink(c.Common()) || strings.Contains(n, "Marshal") || strings.HasSuffix(n, ".Encode") {
			sinks = append(sinks, c.Common().Args...)
		}
	}
	whole := false
	for _, sv := range sinks {
		if stripConv(sv) == ssa.Value(recv) {
			whole = true
		}
		if u, ok := stripConv(sv).(*ssa.UnOp); ok && u.X == ssa.Value(recv) {
			whole = true
		}
	}
	st := ruleT.Underlying().(*types.Struct)
	for i := 0; i < st.NumFields(); i++ {
		f := st.Field(i)
		ok := whole
		if !ok {
			for _, sv := range sinks {
				if dependsOn(w, sv, func(x ssa.Value) bool {
					root, p := accessPath(x)
					return root == ssa.Value(recv) && len(p) > 0 && p[0] == f.Name()
				}) {
					ok = true
				}
			}
		}
		r.Ob(ri, w.FnName(fn)+"|covers|"+f.Name(), fn.Pos(), ok, "field "+f.Name()+" of the rule definition does not reach the rule hash: an update changing only this part is not detected and the replaced version keeps being used")
	}
	// and the hash is what EqualTo compares
	eq := w.Method(ra.t, "FindRule")
	_ = eq
}

// c06NodeRemoval (C06.6): a tree node is removed from its parent only when it holds no value any
// more. Several rules (of one rule set) may share a path expression; deleting one of them must
// leave the node, and with it the others' routes, in place.
func c06NodeRemoval(w *World, r *Report, ra *repoAnchors) {
	ri := r.Rule("C06.6", 2, "while deleting, a child node is detached from the tree only behind a check that it holds no values any more (rules sharing a path expression survive the removal of one of them)")
	del := treeRecursive(w, ra, "Delete")
	if del == nil {
		r.Undecided(ri, "the recursive removal behind Tree.Delete was not found")
		return
	}
	r.Analysed(w.FnName(del))
	n := 0
	detachSeen := map[*ssa.Function]bool{}
	for _, ci := range callsIn(del) {
		c, ok := ci.(*ssa.Call)
		if !ok {
			continue
		}
		callee := c.Common().StaticCallee()
		// the detaching helper: another method of the tree that is handed a (child) node
		if callee == nil || callee == del || (callee.Origin() != nil && callee.Origin() == del.Origin()) || callee.Signature.Recv() == nil || len(c.Common().Args) < 2 || len(nodeWrites(callee)) == 0 {
			continue
		}
		if pt, isPtr := c.Common().Args[1].Type().Underlying().(*types.Pointer); !isPtr || !types.Identical(pt.Elem(), c.Common().Args[0].Type().Underlying().(*types.Pointer).Elem()) {
			continue
		}
		n++
		if !detachSeen[callee] {
			detachSeen[callee] = true
			c06DetachOnlyChildless(w, r, callee)
		}
		child := c.Common().Args[1]
		okG := onlyVia(del, c.Block(), func(f Fact) bool {
			l, kind := lenFact(f)
			if l == nil || kind != "empty" {
				return false
			}
			// len(<child>.values)
			root, p := accessPath(l)
			if len(p) == 0 || p[len(p)-1] != nodeValuesFieldName {
				return false
			}
			cr, _ := accessPath(child)
			return root == cr || sameValue(root, child) || sameExpr(root, child)
		})
		r.Ob(ri, fmt.Sprintf("%s|deleteChild#%d", w.FnName(del), n), c.Pos(), okG,
			"a child node is detached although it may still hold values: all rules sharing that path expression lose their route when one of them is removed or changed")
	}
	if n == 0 {
		r.Undecided(ri, "delNode never detaches a child")
	}
}


// c06DetachOnlyChildless (C06.7): the helper that detaches a child node from its parent does so only
// behind checks that the child has no children of any kind - one emptiness test per child container
// of the node type (pointer-typed: nil; slice-typed: empty, also through the parallel index bytes).
// Detaching a node that still has, say, a catch-all child unlinks the rules below it although
// they are still loaded.
func c06DetachOnlyChildless(w *World, r *Report, helper *ssa.Function) {
	ri := r.Rule("C06.7", 3, "a node is detached from its parent only behind a check of every kind of child container that it is empty (a node that still has children keeps its place in the tree)")
	if len(helper.Params) < 2 {
		return
	}
	recv, child := helper.Params[0], helper.Params[1]
	nodeT := derefNamed(recv.Type())
	if nodeT == nil {
		return
	}
	st, ok := nodeT.Underlying().(*types.Struct)
	if !ok {
		return
	}
	r.Analysed(w.FnName(helper))
	isNodePtr := func(t types.Type) bool {
		p, ok := t.Underlying().(*types.Pointer)
		return ok && derefNamed(p) == nodeT || (ok && derefNamed(p.Elem()) != nil && derefNamed(p.Elem()).Origin() == nodeT.Origin())
	}
	var ptrKinds, sliceKinds []string
	hasByteIdx := ""
	for i := 0; i < st.NumFields(); i++ {
		f := st.Field(i)
		if isNodePtr(f.Type()) {
			ptrKinds = append(ptrKinds, f.Name())
		}
		if sl, ok := f.Type().Underlying().(*types.Slice); ok {
			if isNodePtr(sl.Elem()) {
				sliceKinds = append(sliceKinds, f.Name())
			} else if b, ok := sl.Elem().Underlying().(*types.Basic); ok && b.Kind() == types.Uint8 {
				hasByteIdx = f.Name()
			}
		}
	}
	// the detaching effects: nil stored into a node-pointer field of the receiver, or a call of another
	// node-writing method on the receiver
	var effects []ssa.Instruction
	eachInstr(helper, func(in ssa.Instruction) {
		switch x := in.(type) {
		case *ssa.Store:
			root, p := accessPath(x.Addr)
			if root == ssa.Value(recv) && len(p) == 1 && isNilConst(x.Val) {
				effects = append(effects, in)
			}
		case *ssa.Call:
			cal := x.Common().StaticCallee()
			if cal != nil && cal != helper && cal.Signature.Recv() != nil && len(x.Common().Args) > 0 && x.Common().Args[0] == ssa.Value(recv) && len(nodeWrites(cal)) > 0 {
				effects = append(effects, in)
			}
		}
	})
	if len(effects) == 0 {
		r.Undecided(ri, "the detaching helper "+w.FnName(helper)+" has no detaching effect")
		return
	}
	ofChild := func(v ssa.Value, names ...string) bool {
		root, p := accessPath(v)
		if root != ssa.Value(child) || len(p) != 1 {
			return false
		}
		for _, n := range names {
			if n != "" && p[0] == n {
				return true
			}
		}
		return false
	}
	for _, k := range ptrKinds {
		k := k
		ok := true
		for _, e := range effects {
			if !onlyVia(helper, e.Block(), func(f Fact) bool { return f.Kind == FNil && ofChild(f.V, k) }) {
				ok = false
			}
		}
		r.Ob(ri, w.FnName(helper)+"|childless|"+k, helper.Pos(), ok, "the child is detached without a check that its "+k+" is nil: the rules below that child are unlinked although they are still loaded")
	}
	for _, k := range sliceKinds {
		k := k
		ok := true
		for _, e := range effects {
			if !onlyVia(helper, e.Block(), func(f Fact) bool {
				l, kind := lenFact(f)
				return l != nil && kind == "empty" && ofChild(l, k, hasByteIdx)
			}) {
				ok = false
			}
		}
		r.Ob(ri, w.FnName(helper)+"|childless|"+k, helper.Pos(), ok, "the child is detached without a check that its "+k+" are empty: the rules below that child are unlinked although they are still loaded")
	}
}

// c06TakeoverComplete (C06.8): where a node takes over another node field by field (the emptied
// parent pulling up its only child), it takes over every field: a field left out keeps the value
// of the node that disappears (its backtracking flag, its wildcard children) and matching differs
// from a fresh load. A whole-struct copy (*a = *b) satisfies this trivially and produces no
// obligation.
func c06TakeoverComplete(w *World, r *Report, ra *repoAnchors) {
	ri := r.Rule("C06.8", 0, "a tree node that takes over another node field by field takes over every field of it")
	st, ok := ra.treeT.Underlying().(*types.Struct)
	if !ok {
		return
	}
	for _, fn := range w.Funcs {
		if fn.Blocks == nil || !strings.HasSuffix(fnPkgPath(fn), "/radixtree") || (fn.Origin() == nil && fn.TypeParams().Len() > 0) {
			continue
		}
		type pair struct{ dst, src ssa.Value }
		taken := map[pair]map[string]bool{}
		eachInstr(fn, func(in ssa.Instruction) {
			s, isSt := in.(*ssa.Store)
			if !isSt {
				return
			}
			fa, isFA := s.Addr.(*ssa.FieldAddr)
			if !isFA || derefNamed(fa.X.Type()) == nil || derefNamed(fa.X.Type()).Origin() != ra.treeT.Origin() {
				return
			}
			f := fieldOf(fa.X.Type(), fa.Field)
			if f == nil {
				return
			}
			// the stored value reads the same field of another node
			dependsOn(w, s.Val, func(x ssa.Value) bool {
				u, isU := x.(*ssa.UnOp)
				if !isU {
					return false
				}
				sfa, isSFA := u.X.(*ssa.FieldAddr)
				if !isSFA || sfa.X == fa.X || derefNamed(sfa.X.Type()) == nil || derefNamed(sfa.X.Type()).Origin() != ra.treeT.Origin() {
					return false
				}
				if sf := fieldOf(sfa.X.Type(), sfa.Field); sf != nil && sf.Name() == f.Name() {
					p := pair{fa.X, sfa.X}
					if taken[p] == nil {
						taken[p] = map[string]bool{}
					}
					taken[p][f.Name()] = true
				}
				return false
			})
		})
		n := 0
		var pairs []pair
		for p := range taken {
			pairs = append(pairs, p)
		}
		sort.Slice(pairs, func(i, j int) bool {
			if pairs[i].dst.Pos() != pairs[j].dst.Pos() {
				return pairs[i].dst.Pos() < pairs[j].dst.Pos()
			}
			return pairs[i].src.Pos() < pairs[j].src.Pos()
		})
		for _, p := range pairs {
			fields := taken[p]
			if len(fields) < 2 {
				continue
			}
			// preceded by a copy of the whole node: nothing can be left out
			whole := false
			eachInstr(fn, func(in ssa.Instruction) {
				if s, ok := in.(*ssa.Store); ok && s.Addr == p.dst {
					if u, isU := s.Val.(*ssa.UnOp); isU && u.Op == token.MUL && u.X == p.src {
						whole = true
					}
				}
			})
			if whole {
				continue
			}
			n++
			var missing []string
			for i := 0; i < st.NumFields(); i++ {
				if !fields[st.Field(i).Name()] {
					missing = append(missing, st.Field(i).Name())
				}
			}
			r.Analysed(w.FnName(fn))
			r.Ob(ri, fmt.Sprintf("%s|takeover-complete#%d", w.FnName(fn), n), fn.Pos(), len(missing) == 0, "a node takes over another node field by field but leaves out "+strings.Join(missing, ", ")+": these keep the values of the node that is removed, so matching after the removal differs from a fresh load")
		}
	}
}

// c06UpdateKeepsOrder (C06.9): the place of a rule in its rule set decides which of several rules
// sharing a path expression is used. The tree appends a value behind those already in a node, so an
// update that re-adds only the changed rules puts them behind the unchanged rules they precede in
// the rule set: matching then differs from a fresh load of the same rule set. Decided on the
// mutator that both removes and adds (the update): what it hands to the adding helper is the
// complete new rule set (the parameter, or a tail slice of it) - a computed subset only where that
// subset is empty.
func c06UpdateKeepsOrder(w *World, r *Report, ra *repoAnchors) {
	ri := r.Rule("C06.9", 1, "an update adds rules to the tree only as the complete new rule set in its order (a partial re-add puts a changed rule behind the unchanged rules it precedes)")
	n := 0
	for _, fn := range ra.mutators {
		var addCalls []ssa.CallInstruction
		removes := false
		for _, c := range callsIn(fn) {
			callee := c.Common().StaticCallee()
			if callee == nil || callee.Signature.Recv() == nil || derefNamed(callee.Signature.Recv().Type()) != ra.t || len(c.Common().Args) != 3 {
				continue
			}
			for _, e := range w.CG().Out[callee] {
				if e.Callee.Signature.Recv() == nil || derefNamed(e.Callee.Signature.Recv().Type()) == nil || derefNamed(e.Callee.Signature.Recv().Type()).Origin() != ra.treeT.Origin() {
					continue
				}
				if strings.HasPrefix(e.Callee.Name(), "Add") {
					addCalls = append(addCalls, c)
				}
				if strings.HasPrefix(e.Callee.Name(), "Delete") {
					removes = true
				}
			}
		}
		if !removes || len(addCalls) == 0 {
			continue
		}
		// the removing side: what is removed is the complete loaded rule set of the source - one
		// selection from the known rules - not a selection of that selection (the changed and vanished
		// rules only): settings tied to tree nodes (backtracking) and the order among the remaining
		// rules are otherwise not those of a fresh load
		for _, c := range callsIn(fn) {
			callee := c.Common().StaticCallee()
			if callee == nil || callee.Signature.Recv() == nil || derefNamed(callee.Signature.Recv().Type()) != ra.t || len(c.Common().Args) != 3 {
				continue
			}
			isRemover := false
			for _, e := range w.CG().Out[callee] {
				if e.Callee.Signature.Recv() != nil && derefNamed(e.Callee.Signature.Recv().Type()) != nil && derefNamed(e.Callee.Signature.Recv().Type()).Origin() == ra.treeT.Origin() && strings.HasPrefix(e.Callee.Name(), "Delete") {
					isRemover = true
				}
			}
			if !isRemover {
				continue
			}
			n++
			okR, posR := true, c.Pos()
			for _, s := range w.Sources(c.Common().Args[2], c.Block()) {
				if s.Kind == "nil" {
					continue
				}
				sel, _ := resultOfCall(s.V)
				direct := false
				if sel != nil && len(sel.Common().Args) > 0 {
					if _, fld := fieldLoad(stripConv(sel.Common().Args[0])); fld == ra.known {
						direct = true
					}
				}
				if _, fld := fieldLoad(stripConv(s.V)); fld == ra.known {
					direct = true
				}
				if direct {
					continue
				}
				sv := s.V
				if !srcOnlyVia(fn, s, func(f Fact) bool {
					l, kd := lenFact(f)
					return l != nil && kd == "empty" && (l == sv || sameValue(l, sv))
				}) {
					okR = false
					if in, isIn := s.V.(ssa.Instruction); isIn && in.Pos().IsValid() {
						posR = in.Pos()
					}
				}
			}
			r.Ob(ri, fmt.Sprintf("%s|removes-complete-rule-set#%d", w.FnName(fn), n), posR, okR, "the update removes a computed subset of the loaded rules of the source (the changed and vanished ones): an update that only reorders rules is ignored, and after one that only removes rules the tree nodes keep settings of the removed rules (backtracking) - in both cases matching differs from a fresh load of the new rule set")
		}
		// the new rule set: the slice-typed parameter of the mutator
		var newSet *ssa.Parameter
		for _, p := range fn.Params[1:] {
			if _, isSl := p.Type().Underlying().(*types.Slice); isSl {
				newSet = p
			}
		}
		if newSet == nil {
			continue
		}
		for _, c := range addCalls {
			n++
			r.Analysed(w.FnName(fn))
			arg := c.Common().Args[2]
			ok, pos := true, c.Pos()
			for _, s := range w.Sources(arg, c.Block()) {
				v := stripConv(s.V)
				if v == ssa.Value(newSet) {
					continue
				}
				if sl, isSl := v.(*ssa.Slice); isSl && stripConv(sl.X) == ssa.Value(newSet) && sl.High == nil {
					continue
				}
				if s.Kind == "nil" {
					continue
				}
				// a computed subset: only where it is empty
				sv := s.V
				if !srcOnlyVia(fn, s, func(f Fact) bool {
					l, kd := lenFact(f)
					return l != nil && kd == "empty" && (l == sv || sameValue(l, sv))
				}) {
					ok = false
					if in, isIn := s.V.(ssa.Instruction); isIn {
						pos = in.Pos()
					}
				}
			}
			r.Ob(ri, fmt.Sprintf("%s|re-adds-complete-rule-set#%d", w.FnName(fn), n), pos, ok, "the update hands a computed subset of the new rule set (the new and changed rules) to the tree: they are appended behind the unchanged rules sharing their path expression, so after the update the rule-set order - and with it the rule that is used - differs from a fresh load")
		}
	}
	if n == 0 {
		r.Undecided(ri, "no repository mutator both removes and adds rules (the update)")
	}
}
