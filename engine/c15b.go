package main

import (
	"fmt"
	"go/types"
	"net/textproto"
	"strings"

	"golang.org/x/tools/go/ssa"
)

// C15.4 - C15.6: request body restored before it is memoised, header maps written canonically,
// path data unescaped with the path rules.

func isHTTPHeaderType(t types.Type) bool {
	n, ok := t.(*types.Named)
	if !ok || n.Obj().Pkg() == nil {
		return false
	}
	return n.Obj().Pkg().Path() == "net/http" && n.Obj().Name() == "Header"
}

// isRequestBodyAddr: &req.Body of a *net/http.Request.
func isRequestBodyAddr(v ssa.Value) bool {
	fa, ok := v.(*ssa.FieldAddr)
	if !ok {
		return false
	}
	f := fieldOf(fa.X.Type(), fa.Field)
	return f != nil && f.Name() == "Body" && f.Pkg() != nil && f.Pkg().Path() == "net/http" && strings.HasSuffix(derefType(fa.X.Type()).String(), "net/http.Request")
}

func derefType(t types.Type) types.Type {
	if p, ok := t.Underlying().(*types.Pointer); ok {
		return p.Elem()
	}
	return t
}

func c15Body(w *World, r *Report) {
	ri := r.Rule("C15.4", 1, "a function that drains the inbound request body puts the bytes back into the request before it memoises the result (later calls skip the drain, so a missing restore leaves the upstream without a body)")
	n := 0
	for _, fn := range w.Funcs {
		if w.isMockFn(fn) || !strings.Contains(fnPkgPath(fn), "/internal/handler/") {
			continue
		}
		// drains: a read-all style call fed with a load of req.Body
		var drains []*ssa.Call
		for _, ci := range callsIn(fn) {
			c, ok := ci.(*ssa.Call)
			if !ok {
				continue
			}
			name := callName(c.Common())
			if name != "bytes.Buffer.ReadFrom" && name != "io.ReadAll" && name != "io.Copy" && name != "io.CopyN" {
				continue
			}
			for _, a := range c.Common().Args {
				if ld, ok := stripConv(a).(*ssa.UnOp); ok && isRequestBodyAddr(ld.X) {
					drains = append(drains, c)
				}
			}
		}
		if len(drains) == 0 || fn.Signature.Recv() == nil {
			continue
		}
		r.Analysed(w.FnName(fn))
		recv := fn.Params[0]
		for _, d := range drains {
			var restores []*ssa.Store
			var memo []*ssa.Store
			eachInstr(fn, func(in ssa.Instruction) {
				st, ok := in.(*ssa.Store)
				if !ok || !reachableAfter(d, st) {
					return
				}
				if isRequestBodyAddr(st.Addr) {
					restores = append(restores, st)
					return
				}
				if fa, ok := st.Addr.(*ssa.FieldAddr); ok {
					if root, _ := accessPath(fa); root == ssa.Value(recv) {
						memo = append(memo, st)
					}
				}
			})
			for i, m := range memo {
				ok := false
				for _, rs := range restores {
					if dominatesInstr(rs, m) {
						ok = true
					}
				}
				if !ok {
					// or: every path from the memoising store to a return passes a restore
					ok = true
					hasRestore := map[*ssa.BasicBlock]bool{}
					for _, rs := range restores {
						if rs.Block() != m.Block() || dominatesInstr(m, rs) {
							hasRestore[rs.Block()] = true
						}
					}
					if !hasRestore[m.Block()] {
						seen := map[*ssa.BasicBlock]bool{m.Block(): true}
						work := []*ssa.BasicBlock{m.Block()}
						for len(work) > 0 && ok {
							b := work[len(work)-1]
							work = work[:len(work)-1]
							if _, isRet := b.Instrs[len(b.Instrs)-1].(*ssa.Return); isRet {
								ok = false
							}
							for _, sb := range b.Succs {
								if !seen[sb] && !hasRestore[sb] {
									seen[sb] = true
									work = append(work, sb)
								}
							}
						}
					}
				}
				n++
				f := fieldOf(m.Addr.(*ssa.FieldAddr).X.Type(), m.Addr.(*ssa.FieldAddr).Field)
				r.Ob(ri, fmt.Sprintf("%s|memo#%d:%s", w.FnName(fn), i+1, f.Name()), m.Pos(), ok,
					"the drained body is memoised in "+f.Name()+" on a path on which the bytes were not put back into the request: the proxied request goes out without (or with a truncated) body")
			}
		}
	}
	if n == 0 {
		r.Undecided(ri, "no function drains and memoises the inbound request body")
	}
}

func c15HeaderWrites(w *World, r *Report) {
	ri := r.Rule("C15.5", 1, "net/http.Header maps are written by index only under canonical keys (keys ranged from another Header, canonical constants, CanonicalHeaderKey); everything else goes through the canonicalising methods - otherwise 'replace' by canonical key misses the entry")
	for _, fn := range w.Funcs {
		if w.isMockFn(fn) {
			continue
		}
		n := 0
		eachInstr(fn, func(in ssa.Instruction) {
			mu, ok := in.(*ssa.MapUpdate)
			if !ok || !isHTTPHeaderType(stripConv(mu.Map).Type()) && !isHTTPHeaderType(mu.Map.Type()) {
				return
			}
			n++
			ok = false
			why := ""
			switch k := stripConv(mu.Key).(type) {
			case *ssa.Const:
				if s, isS := constString(k); isS && textproto.CanonicalMIMEHeaderKey(s) == s {
					ok = true
				} else {
					why = fmt.Sprintf("constant key %q is not in canonical form", s)
				}
			default:
				for _, o := range w.Origins(mu.Key, nil) {
					switch x := o.(type) {
					case *ssa.Extract:
						if nx, isNext := x.Tuple.(*ssa.Next); isNext && x.Index == 1 {
							if rg, isRange := nx.Iter.(*ssa.Range); isRange && isHTTPHeaderType(stripConv(rg.X).Type()) {
								ok = true
							}
						}
					case *ssa.Call:
						if cn := callName(x.Common()); cn == "net/http.CanonicalHeaderKey" || cn == "net/textproto.CanonicalMIMEHeaderKey" {
							ok = true
						}
					}
				}
				if !ok {
					why = "the key is neither ranged from another Header nor canonicalised"
				}
			}
			r.Analysed(w.FnName(fn))
			r.Ob(ri, fmt.Sprintf("%s|header-index-write#%d", w.FnName(fn), n), mu.Pos(), ok,
				"a header is stored by index under a key that may not be canonical ("+why+"): a pipeline header configured as 'x-user-id' then coexists with the client's 'X-User-Id' instead of replacing it")
		})
	}
}

func c15Unescape(w *World, r *Report) {
	ri := r.Rule("C15.6", 3, "request path data is unescaped with url.PathUnescape; url.QueryUnescape (which turns '+' into a space) is never applied to path data or assigned to a URL path")
	for _, fn := range w.Funcs {
		if w.isMockFn(fn) {
			continue
		}
		n := 0
		for _, ci := range callsIn(fn) {
			c, ok := ci.(*ssa.Call)
			if !ok {
				continue
			}
			name := callName(c.Common())
			if name != "net/url.PathUnescape" && name != "net/url.QueryUnescape" {
				continue
			}
			n++
			r.Analysed(w.FnName(fn))
			if name == "net/url.PathUnescape" {
				r.Ob(ri, fmt.Sprintf("%s|unescape#%d", w.FnName(fn), n), c.Pos(), true, "")
				continue
			}
			// QueryUnescape: neither fed with path data nor flowing into a URL path
			pathIn := dependsOn(w, c.Common().Args[0], func(x ssa.Value) bool {
				switch y := x.(type) {
				case *ssa.FieldAddr:
					if f := fieldOf(y.X.Type(), y.Field); f != nil && (f.Name() == "Path" || f.Name() == "RawPath") {
						return true
					}
				case *ssa.Call:
					if cn := callName(y.Common()); strings.HasSuffix(cn, "URL.EscapedPath") {
						return true
					}
				case *ssa.Parameter:
					return strings.Contains(strings.ToLower(y.Name()), "path")
				}
				return false
			})
			pathOut := false
			for _, u := range forwardSlice(c) {
				if st, ok := u.(*ssa.Store); ok {
					if fa, ok := st.Addr.(*ssa.FieldAddr); ok {
						if f := fieldOf(fa.X.Type(), fa.Field); f != nil && (f.Name() == "Path" || f.Name() == "RawPath") {
							pathOut = true
						}
					}
				}
			}
			r.Ob(ri, fmt.Sprintf("%s|unescape#%d", w.FnName(fn), n), c.Pos(), !pathIn && !pathOut,
				"url.QueryUnescape is applied to path data: a literal '+' in the request path becomes a space and is re-encoded as %20 on the way to the upstream")
		}
	}
}
