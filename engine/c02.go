package main

import (
	"fmt"
	"go/token"
	"go/types"
	"regexp"
	"strings"

	"golang.org/x/tools/go/ssa"
)

func init() {
	register("C02", checkC02)
	register("C03", checkC03)
	register("C08", checkC08)
}

// ---- shared: the lookup's Match call sites -----------------------------------------------------------

type matchSite struct {
	Fn       *ssa.Function
	Call     *ssa.Call
	NodePath []string // field path from the receiver to the node whose values are iterated
	KeysPath []string
}

// lookupMatcherSites finds the calls of (LookupMatcher).Match in the radix tree package
// (instantiations only).
func lookupMatcherSites(w *World) []*matchSite {
	var out []*matchSite
	for _, fn := range w.Funcs {
		if !strings.HasSuffix(fnPkgPath(fn), "/radixtree") || w.isMockFn(fn) || fn.Origin() == nil {
			continue
		}
		for _, c := range findCalls(fn, func(c *ssa.CallCommon) bool {
			return c.IsInvoke() && c.Method.Name() == "Match" && len(c.Args) == 3
		}) {
			s := &matchSite{Fn: fn, Call: c}
			_, vp := accessPath(c.Common().Args[0])
			_, kp := accessPath(c.Common().Args[1])
			// value path ends with "values", "[]"
			if len(vp) >= 2 && vp[len(vp)-1] == "[]" {
				s.NodePath = vp[:len(vp)-2]
			} else {
				s.NodePath = []string{"?"}
			}
			s.KeysPath = kp
			out = append(out, s)
		}
	}
	return out
}

func pathStr(p []string) string {
	if len(p) == 0 {
		return "<node>"
	}
	return strings.Join(p, ".")
}

// backtrackFlagField finds the node field stored by the add option created with the bool argument.
func backtrackFlagField(w *World) string {
	for _, fn := range w.Funcs {
		if !strings.HasSuffix(fnPkgPath(fn), "/radixtree") || fn.Parent() == nil {
			continue
		}
		par := fn.Parent()
		if par.Signature.Params().Len() != 1 || !isBool(par.Signature.Params().At(0).Type()) {
			continue
		}
		name := ""
		eachInstr(fn, func(in ssa.Instruction) {
			if st, ok := in.(*ssa.Store); ok {
				if fa, ok := st.Addr.(*ssa.FieldAddr); ok {
					// the stored value is the captured bool parameter
					os := w.Origins(st.Val, nil)
					only := len(os) > 0
					for _, o := range os {
						if p, isP := o.(*ssa.Parameter); !isP || p.Parent() != par {
							only = false
						}
					}
					if only {
						if f := fieldOf(fa.X.Type(), fa.Field); f != nil {
							name = f.Name()
						}
					}
				}
			}
		})
		if name != "" {
			return name
		}
	}
	return ""
}

// ---- C02 ----------------------------------------------------------------------------------------------

func checkC02(w *World, r *Report) {
	ra, err := findRepo(w)
	if err != nil {
		r.Undecided(nil, err.Error())
		return
	}
	pa, err := findPipelineAnchors(w)
	if err != nil {
		r.Undecided(nil, err.Error())
		return
	}
	c02FindRule(w, r, ra)
	if fa, err := findFactoryAnchors(w, pa); err == nil {
		c14Backtracking(w, r, pa, fa, "C02.2a")
	} else {
		r.Undecided(nil, err.Error())
	}
	c02BacktrackingChain(w, r, ra)
	c02Order(w, r, ra)
	c02Specificity(w, r, ra)
}

func c02FindRule(w *World, r *Report, ra *repoAnchors) {
	ri := r.Rule("C02.1", 3, "a lookup answers with the found rule, else with the default rule if there is one, else with 'no rule found'")
	fn := ra.findRule
	r.Analysed(w.FnName(fn))
	find := treeMethod(w, ra, "Find")
	var fc *ssa.Call
	for _, c := range findCalls(fn, func(c *ssa.CallCommon) bool { return find != nil && c.StaticCallee() == find }) {
		fc = c
	}
	if fc == nil {
		r.Undecided(ri, "the tree lookup in FindRule was not found")
		return
	}
	noRule, _ := w.Obj("internal/heimdall", "ErrNoRuleFound").(*types.Var)
	ek := w.EK()
	st := ra.t.Underlying().(*types.Struct)
	var drField *types.Var
	for i := 0; i < st.NumFields(); i++ {
		if _, isNamed := st.Field(i).Type().(*types.Named); isNamed && strings.HasSuffix(st.Field(i).Type().String(), "rule.Rule") {
			drField = st.Field(i)
		}
	}
	isDR := func(v ssa.Value) bool { _, f := fieldLoad(stripConv(v)); return f != nil && f == drField }
	for _, ret := range returnsOf(fn) {
		key := w.FnName(fn) + "|" + retKey(w, fn, ret)
		ok, msg := true, ""
		for _, s := range w.Sources(ret.Results[1], ret.Block()) {
			switch s.Kind {
			case "nil":
				// found rule or default rule
				ruleSrc := w.Origins(ret.Results[0], nil)
				for _, o := range ruleSrc {
					switch {
					case isDR(o):
						if !onlyVia(fn, ret.Block(), nonNilOf(isResult(fc, 1))) || !onlyVia(fn, ret.Block(), nonNilOf(isDR)) {
							ok, msg = false, "the default rule is returned although a rule was found or no default rule exists"
						}
					default:
						c, _ := resultOfCall(o)
						if c == nil || !c.Common().IsInvoke() || c.Common().Method.Name() != "Rule" || !dependsOn(w, c.Common().Value, func(x ssa.Value) bool { return isResult(fc, 0)(x) }) {
							ok, msg = false, "a rule is returned that is neither the lookup's result nor the default rule"
						} else if !onlyVia(fn, ret.Block(), nilOf(isResult(fc, 1))) {
							ok, msg = false, "the lookup's result is used although the lookup failed"
						}
					}
				}
			default:
				k := ek.ValueKinds(ret.Results[1], nil)
				if noRule == nil || !k.kinds[noRule] {
					ok, msg = false, "a failed lookup without default rule must be reported as ErrNoRuleFound"
				}
				if !onlyVia(fn, ret.Block(), nonNilOf(isResult(fc, 1))) || !onlyVia(fn, ret.Block(), nilOf(isDR)) {
					ok, msg = false, "'no rule found' is reported although a rule was found or a default rule exists"
				}
				for _, o := range w.Sources(ret.Results[0], ret.Block()) {
					if o.Kind != "nil" {
						ok, msg = false, "a rule is returned together with an error"
					}
				}
			}
		}
		r.Ob(ri, key, ret.Pos(), ok, msg)
	}
}

func c02BacktrackingChain(w *World, r *Report, ra *repoAnchors) {
	ri := r.Rule("C02.2", 5, "whether a less specific expression is tried depends on the backtracking flag of the expression that failed, end to end")
	flag := backtrackFlagField(w)
	r.Ob(ri, "option-stores-flag", token.NoPos, flag != "", "the add option created from the bool argument must store exactly that argument into a node field (not a combination with the node's previous value: value-less nodes are preset to true)")
	if flag == "" {
		return
	}
	// (b) the repository hands the rule's own AllowsBacktracking() to the option, for the rule whose route is added
	add := treeMethod(w, ra, "Add")
	n := 0
	for _, fn := range w.Funcs {
		if fnPkgPath(fn) != ra.t.Obj().Pkg().Path() || w.isMockFn(fn) {
			continue
		}
		for _, c := range findCalls(fn, func(c *ssa.CallCommon) bool { return add != nil && c.StaticCallee() == add }) {
			n++
			r.Analysed(w.FnName(fn))
			ok, msg := false, "the backtracking option of Tree.Add is missing or not the rule's AllowsBacktracking()"
			// the route being added comes from rul.Routes(); the option argument from rul.AllowsBacktracking() of the same rul
			var routeRule ssa.Value
			dependsOn(w, c.Common().Args[2], func(x ssa.Value) bool {
				if rc, isC := x.(*ssa.Call); isC && rc.Common().IsInvoke() && rc.Common().Method.Name() == "Routes" {
					routeRule = rc.Common().Value
				}
				return false
			})
			if len(c.Common().Args) > 3 {
				for _, el := range sliceLiteralElems(c.Common().Args[3]) {
					oc, _ := resultOfCall(stripConv(el))
					if oc == nil || !strings.HasPrefix(oc.Common().StaticCallee().Name(), "WithBacktracking") {
						continue
					}
					ac, _ := resultOfCall(oc.Common().Args[0])
					if ac != nil && ac.Common().IsInvoke() && ac.Common().Method.Name() == "AllowsBacktracking" {
						if routeRule != nil && ac.Common().Value == routeRule {
							ok, msg = true, ""
						} else {
							msg = "the backtracking flag handed to Tree.Add belongs to another rule than the route being added"
						}
					}
				}
			}
			r.Ob(ri, w.FnName(fn)+"|add-with-rule-flag", c.Pos(), ok, msg)
		}
	}
	if n == 0 {
		r.Ob(ri, "repository-adds-routes", token.NoPos, false, "no Tree.Add call found in the repository")
	}
	// (c) Tree.Add applies the options to the node it appends the value to
	if add != nil {
		r.Analysed(w.FnName(add))
		var node ssa.Value
		eachInstr(add, func(in ssa.Instruction) {
			if st, ok := in.(*ssa.Store); ok && pathEndsWith(st.Addr, nodeValuesFieldName) {
				if fa, ok := st.Addr.(*ssa.FieldAddr); ok {
					node = fa.X
				}
			}
		})
		ok := false
		for _, c := range callsIn(add) {
			if c.Common().StaticCallee() == nil && !c.Common().IsInvoke() && len(c.Common().Args) == 1 && node != nil && c.Common().Args[0] == node {
				if _, isB := c.Common().Value.(*ssa.Builtin); !isB {
					ok = true
				}
			}
		}
		r.Ob(ri, w.FnName(add)+"|options-applied-to-target-node", add.Pos(), ok, "the add options must be applied to the node the value is appended to")
	}
	// (d) after all values of a node failed to match, the lookup reports that node's flag
	for i, s := range lookupMatcherSites(w) {
		r.Analysed(w.FnName(s.Fn))
		fn := s.Fn
		ok, msg := true, ""
		nRet := 0
		for _, b := range fn.Blocks {
			for bi := range b.Succs {
				isFalse := false
				for _, f := range rawEdgeFacts(b, bi) {
					if f.Kind == FFalse && f.V == ssa.Value(s.Call) {
						isFalse = true
					}
				}
				if !isFalse {
					continue
				}
				// returns reachable without another successful match
				seen := reachFromEdge(b, bi, factCut(func(f Fact) bool { return f.Kind == FTrue && f.V == ssa.Value(s.Call) }))
				for _, ret := range returnsOf(fn) {
					if !seen[ret.Block()] || len(ret.Results) == 0 {
						continue
					}
					last := ret.Results[len(ret.Results)-1]
					if !isBool(last.Type()) {
						continue
					}
					// only the return that directly follows the exhausted loop of this site
					if !ret.Block().Dominates(ret.Block()) {
						continue
					}
					if !dominatedByLoopOf(s.Call, ret) {
						continue
					}
					nRet++
					_, p := accessPath(last)
					want := append(append([]string{}, s.NodePath...), flag)
					if strings.Join(p, ".") != strings.Join(want, ".") {
						ok, msg = false, fmt.Sprintf("after all values of node %s failed to match, the lookup reports %s instead of %s: the backtracking setting of the failed expression is ignored", pathStr(s.NodePath), describePath(last, p), strings.Join(want, "."))
					}
				}
			}
		}
		r.Ob(ri, fmt.Sprintf("%s|site%d|%s|backtrack-flag-of-iterated-node", w.FnName(fn), i, pathStr(s.NodePath)), s.Call.Pos(), ok && nRet > 0, msg)
	}
}

func describePath(v ssa.Value, p []string) string {
	if len(p) > 0 {
		return strings.Join(p, ".")
	}
	return v.String()
}

// dominatedByLoopOf: the return is the exit of the loop containing the Match call: it is reachable
// from the call's block only through the loop header's exit and no other Match call lies between.
func dominatedByLoopOf(call *ssa.Call, ret *ssa.Return) bool {
	// the loop header: nearest block that dominates the call block and is the target of a back edge from a block reachable from the call
	var hdr *ssa.BasicBlock
	for _, b := range call.Parent().Blocks {
		for _, sb := range b.Succs {
			if sb.Dominates(b) && sb.Dominates(call.Block()) && (b == call.Block() || reach(call.Block(), nil)[b]) {
				if hdr == nil || hdr.Dominates(sb) {
					hdr = sb
				}
			}
		}
	}
	if hdr == nil {
		return false
	}
	// exit edges of the header (successors outside the loop)
	for _, sb := range hdr.Succs {
		if reach(sb, nil)[hdr] {
			continue // stays in the loop
		}
		// ret must be reachable from this exit without passing an If (straight-line exit)
		x := sb
		for steps := 0; steps < 4; steps++ {
			if x == ret.Block() {
				return true
			}
			if len(x.Succs) != 1 {
				break
			}
			x = x.Succs[0]
		}
	}
	return false
}

func c02Order(w *World, r *Report, ra *repoAnchors) {
	ri := r.Rule("C02.3", 5, "rules sharing a path expression keep their rule-set order: appended in order, iterated in order, first match wins")
	add := treeMethod(w, ra, "Add")
	if add == nil {
		r.Undecided(ri, "Tree.Add not found")
		return
	}
	// append(load(node.values), value) stored back
	ok := false
	eachInstr(add, func(in ssa.Instruction) {
		st, isSt := in.(*ssa.Store)
		if !isSt || !pathEndsWith(st.Addr, nodeValuesFieldName) {
			return
		}
		if c, isC := st.Val.(*ssa.Call); isC {
			if b, isB := c.Call.Value.(*ssa.Builtin); isB && b.Name() == "append" && pathEndsWith(c.Call.Args[0], nodeValuesFieldName) {
				els := sliceLiteralElems(c.Call.Args[1])
				if len(els) == 1 && stripConv(els[0]) == ssa.Value(add.Params[2]) {
					ok = true
				}
			}
		}
	})
	r.Ob(ri, w.FnName(add)+"|appends-at-end", add.Pos(), ok, "Tree.Add must store append(node.values, value) back into node.values (no prepend, no reordering)")
	// every store into the values of a node keeps the relative order of what was there: an append of
	// one value, an order-preserving removal, a copy / move of another node's list, or nil
	for _, fn := range w.Funcs {
		if !strings.HasSuffix(fnPkgPath(fn), "/radixtree") || fn.Origin() == nil && fn.TypeParams().Len() > 0 || fn.Blocks == nil {
			continue
		}
		nStores := 0
		eachInstr(fn, func(in ssa.Instruction) {
			st, isSt := in.(*ssa.Store)
			if !isSt || !pathEndsWith(st.Addr, nodeValuesFieldName) {
				return
			}
			if _, isFA := st.Addr.(*ssa.FieldAddr); !isFA {
				return
			}
			nStores++
			okS := true
			for _, o := range w.Origins(st.Val, nil) {
				o = stripConv(o)
				switch x := o.(type) {
				case *ssa.Const:
					// nil
				case *ssa.MakeSlice, *ssa.Slice:
				case *ssa.UnOp:
					// another node's list, moved as a whole
					if !pathEndsWith(x, nodeValuesFieldName) {
						okS = false
					}
				case *ssa.Call:
					n := callName(x.Common())
					if b, isB := x.Call.Value.(*ssa.Builtin); isB && b.Name() == "append" {
						n = "append"
					}
					switch {
					case n == "append", n == "slices.Clone", strings.HasPrefix(n, "slices.Delete"), n == "slices.Clip", n == "slices.Grow":
					default:
						okS = false
					}
				default:
					okS = false
				}
			}
			r.Ob(ri, fmt.Sprintf("%s|values-store-keeps-order#%d", w.FnName(fn), nStores), st.Pos(), okS, "the values of a node are replaced by something that is not an append, an order-preserving removal or a copy of a values list: the rule-set order of rules sharing the expression may be lost")
		})
		for _, c := range callsIn(fn) {
			if isSortCall(c.Common()) || strings.HasPrefix(callName(c.Common()), "slices.Reverse") {
				for _, a := range c.Common().Args {
					if pathEndsWith(a, nodeValuesFieldName) {
						r.Ob(ri, w.FnName(fn)+"|values-reordered", c.Pos(), false, "the values of a node are reordered")
					}
				}
			}
		}
	}
	// the repository adds rules and routes in slice order
	for _, fn := range w.Funcs {
		if fnPkgPath(fn) != ra.t.Obj().Pkg().Path() || w.isMockFn(fn) {
			continue
		}
		for _, c := range findCalls(fn, func(c *ssa.CallCommon) bool { return c.StaticCallee() == add }) {
			// the route value is an element of an ascending range
			okA := false
			dependsOn(w, c.Common().Args[2], func(x ssa.Value) bool {
				if u, isU := x.(*ssa.UnOp); isU {
					if ia, isIA := u.X.(*ssa.IndexAddr); isIA && ascendingIndex(ia.Index) {
						okA = true
					}
				}
				return false
			})
			r.Ob(ri, w.FnName(fn)+"|adds-in-order", c.Pos(), okA, "routes must be added in the order of the rule set")
		}
	}
	// lookups iterate values ascending and return on the first match
	for i, s := range lookupMatcherSites(w) {
		okI := false
		if u, isU := s.Call.Common().Args[0].(*ssa.UnOp); isU {
			if ia, isIA := u.X.(*ssa.IndexAddr); isIA && ascendingIndex(ia.Index) {
				okI = true
			}
		}
		// from the true edge no further Match runs
		okF := true
		for _, b := range s.Fn.Blocks {
			for bi := range b.Succs {
				for _, f := range rawEdgeFacts(b, bi) {
					if f.Kind == FTrue && f.V == ssa.Value(s.Call) {
						if reachFromEdge(b, bi, nil)[s.Call.Block()] {
							okF = false
						}
					}
				}
			}
		}
		r.Ob(ri, fmt.Sprintf("%s|site%d|first-match-in-order", w.FnName(s.Fn), i), s.Call.Pos(), okI && okF, "candidate values must be tried in ascending order and the first match must end the iteration")
	}
}

// ---- C03 ----------------------------------------------------------------------------------------------

func checkC03(w *World, r *Report) {
	pa, err := findPipelineAnchors(w)
	if err != nil {
		r.Undecided(nil, err.Error())
		return
	}
	fa, err := findFactoryAnchors(w, pa)
	if err != nil {
		r.Undecided(nil, err.Error())
		return
	}
	c03RouteMatchers(w, r, pa, fa)
	c03NodeConsistency(w, r)
	c03Decode(w, r, pa)
	c03MatchersPure(w, r)
	c03Unnamed(w, r)
	if ra, err := findRepo(w); err == nil {
		c03CapturesSurvive(w, r, ra)
	} else {
		r.Undecided(nil, err.Error())
	}
}

// combinatorPolarity classifies Matches of a slice-of-RouteMatcher type: "all" (fails on first
// failure, nil after the loop) or "any" (succeeds on first success).
func combinatorPolarity(w *World, t *types.Named) string {
	fn := w.Method(t, "Matches")
	if fn == nil || fn.Blocks == nil {
		return ""
	}
	var elem *ssa.Call
	for _, c := range findCalls(fn, func(c *ssa.CallCommon) bool { return c.IsInvoke() && c.Method.Name() == "Matches" }) {
		elem = c
	}
	if elem == nil {
		return ""
	}
	inLoopNil, inLoopErr := false, false
	for _, b := range fn.Blocks {
		for bi := range b.Succs {
			for _, f := range edgeFacts(b, bi) {
				if !isResult(elem, 0)(f.V) {
					continue
				}
				tgt := b.Succs[bi]
				if len(tgt.Instrs) > 0 {
					if _, isRet := tgt.Instrs[len(tgt.Instrs)-1].(*ssa.Return); isRet && len(tgt.Instrs) <= 2 {
						if f.Kind == FNil {
							inLoopNil = true
						}
						if f.Kind == FNonNil {
							inLoopErr = true
						}
					}
				}
			}
		}
	}
	switch {
	case inLoopErr && !inLoopNil:
		return "all"
	case inLoopNil && !inLoopErr:
		return "any"
	}
	return "?"
}

func c03RouteMatchers(w *World, r *Report, pa *pipelineAnchors, fa *factoryAnchors) {
	ri1 := r.Rule("C03.1", 5, "every route carries the scheme, method, host and path_params matchers built from its rule's configuration, all of which must hold")
	ri2 := r.Rule("C03.2", 3, "combinator polarity: route level and path_params are all-of, the hosts list is any-of")
	rmI := w.Named("internal/rules", "RouteMatcher")
	if rmI == nil {
		r.Undecided(ri1, "RouteMatcher not found")
		return
	}
	pol := map[string]string{}
	sc := w.P("internal/rules").Types.Scope()
	for _, n := range sc.Names() {
		tn, ok := sc.Lookup(n).(*types.TypeName)
		if !ok {
			continue
		}
		nt, ok := tn.Type().(*types.Named)
		if !ok {
			continue
		}
		if sl, ok := nt.Underlying().(*types.Slice); ok && types.Identical(sl.Elem(), rmI) {
			pol[nt.Obj().Name()] = combinatorPolarity(w, nt)
			r.Ob(ri2, "combinator|"+nt.Obj().Name(), tn.Pos(), pol[nt.Obj().Name()] == "all" || pol[nt.Obj().Name()] == "any", "combinator "+nt.Obj().Name()+" is neither all-of nor any-of: "+pol[nt.Obj().Name()])
		}
	}
	fn := fa.createRule
	r.Analysed(w.FnName(fn))
	var hostCtor, ppCtor, methodsCtor *ssa.Function
	defer func() { c03GlobDelimiters(w, r, hostCtor, ppCtor); c03MethodsNeverEmptied(w, r, methodsCtor) }()
	// the route literal: an allocation of a struct with a RouteMatcher field
	n := 0
	eachInstr(fn, func(in ssa.Instruction) {
		a, ok := in.(*ssa.Alloc)
		if !ok {
			return
		}
		nt := derefNamed(a.Type())
		if nt == nil {
			return
		}
		st, ok := nt.Underlying().(*types.Struct)
		if !ok {
			return
		}
		mf := ""
		for i := 0; i < st.NumFields(); i++ {
			if types.Identical(st.Field(i).Type(), rmI) {
				mf = st.Field(i).Name()
			}
		}
		if mf == "" || nt == pa.ruleImpl {
			return
		}
		n++
		mv, _ := storedField(a, mf)
		key := w.FnName(fn) + "|route-literal"
		// must be a composite (all-of) literal of four
		sl, isSl := stripConv(mv).(*ssa.Slice)
		tname := ""
		if mv != nil {
			if nn := derefNamed(stripConv(mv).Type()); nn != nil {
				tname = nn.Obj().Name()
			}
			if ct, isCT := mv.(*ssa.MakeInterface); isCT {
				if nn, isN := ct.X.Type().(*types.Named); isN {
					tname = nn.Obj().Name()
				}
				if s2, ok := ct.X.(*ssa.ChangeType); ok {
					sl, isSl = s2.X.(*ssa.Slice)
				} else if s3, ok := ct.X.(*ssa.Slice); ok {
					sl, isSl = s3, true
				}
			}
		}
		r.Ob(ri2, key+"|route-level-all-of", a.Pos(), pol[tname] == "all", "the route's conditions must be combined with an all-of combinator (found "+tname+")")
		var els []ssa.Value
		if isSl {
			els = sliceLiteralElems(sl)
		} else {
			// a list put together with append: the elements of the base list plus what is appended;
			// the list of each route must then be its own storage
			var inner ssa.Value = mv
			if ct, isCT := mv.(*ssa.MakeInterface); isCT {
				inner = ct.X
			}
			var shared string
			var okL bool
			els, shared, okL = listElems(w, stripConvKeepSlice(inner), a.Block(), 0)
			if !okL {
				r.Ob(ri1, key+"|four-matchers", a.Pos(), false, "the route matcher is neither a literal list of matchers nor one built by append from such lists")
				return
			}
			r.Ob(ri1, key+"|matcher-list-own-storage", a.Pos(), shared == "", "the matcher list of a route is appended to a list that is shared by all routes and has spare capacity ("+shared+"): every route ends up with the conditions appended for the last one")
		}
		want := map[string]bool{"scheme": false, "methods": false, "hosts": false, "path_params": false}
		for _, el := range els {
			if el == nil {
				continue
			}
			for _, o := range w.Origins(el, nil) {
				oo := stripConv(o)
				// scheme matcher: conversion of Matcher.Scheme
				if pathEndsWith(oo, "Matcher", "Scheme") {
					want["scheme"] = true
				}
				if c, _ := resultOfCall(oo); c != nil && c.Common().StaticCallee() != nil {
					arg0 := ssa.Value(nil)
					if len(c.Common().Args) > 0 {
						arg0 = c.Common().Args[0]
					}
					switch {
					case arg0 != nil && pathEndsWith(arg0, "Matcher", "Methods"):
						want["methods"] = true
						methodsCtor = c.Common().StaticCallee()
					case arg0 != nil && pathEndsWith(arg0, "Matcher", "Hosts"):
						want["hosts"] = true
						hostCtor = c.Common().StaticCallee()
						// polarity of the hosts slot: the element's dynamic type
						ht := ""
						if ct, isCT := stripToNamed(el); isCT != "" {
							_ = ct
							ht = isCT
						}
						r.Ob(ri2, key+"|hosts-any-of", a.Pos(), pol[ht] == "any", "the hosts conditions must be combined with an any-of combinator (found "+ht+"="+pol[ht]+"): with all-of, two exact hosts can never both match")
					case arg0 != nil && pathEndsWith(arg0, "PathParams"):
						want["path_params"] = true
						ppCtor = c.Common().StaticCallee()
						// all-of and the rule's slash handling
						if len(c.Common().Args) > 1 {
							_, shField := slashField(w, pa)
							lit := ruleLiteralAllocs(fn, pa.ruleImpl)
							same := false
							if len(lit) == 1 && shField != "" {
								sv, _ := storedField(lit[0], shField)
								same = sv != nil && sameOriginSet(w, sv, c.Common().Args[1])
							}
							r.Ob(ri1, key+"|path-params-use-rule-slash-setting", c.Pos(), same, "the path_params matcher must get the same encoded-slash setting as the rule")
						}
						// createPathParamsMatcher returns an all-of combinator
						rt := ""
						for _, ret := range returnsOf(c.Common().StaticCallee()) {
							for _, ro := range w.Origins(ret.Results[0], nil) {
								if isNilConst(ro) {
									continue
								}
								if nn := derefNamed(stripConv(ro).Type()); nn != nil {
									rt = nn.Obj().Name()
								}
							}
						}
						r.Ob(ri2, key+"|path-params-all-of", c.Pos(), pol[rt] == "all", "every path_params expression must hold (found combinator "+rt+")")
					}
				}
			}
		}
		for k, v := range want {
			r.Ob(ri1, key+"|has-"+k+"-matcher", a.Pos(), v, "the route's matcher list lacks the "+k+" condition built from the rule's match configuration")
		}
	})
	if n == 0 {
		r.Undecided(ri1, "no route literal in CreateRule")
	}
	// routeImpl.Matches: true only if the matcher returned nil
	ri := w.Iface("internal/rules/rule", "Route")
	if ri != nil {
		for _, t := range w.Implementors(ri) {
			m := w.Method(t, "Matches")
			if m == nil || m.Blocks == nil {
				continue
			}
			r.Analysed(w.FnName(m))
			mc := findCalls(m, func(c *ssa.CallCommon) bool {
				return c.IsInvoke() && c.Method.Name() == "Matches" && types.Identical(c.Value.Type(), rmI)
			})
			ok := len(mc) == 1
			if ok {
				for _, ret := range returnsOf(m) {
					c, isC := ret.Results[0].(*ssa.Const)
					if isC && c.Value != nil && c.Value.String() == "false" {
						continue
					}
					if !onlyVia(m, ret.Block(), nilOf(isResult(mc[0], 0))) {
						ok = false
					}
				}
				// keys and values are forwarded unchanged
				if mc[0].Common().Args[1] != ssa.Value(m.Params[2]) || mc[0].Common().Args[2] != ssa.Value(m.Params[3]) {
					ok = false
				}
			}
			r.Ob(ri1, w.FnName(m)+"|matches-only-if-conditions-hold", m.Pos(), ok, "a route matches only if its matcher returned nil for the keys and values handed in")
		}
	}
}

func stripToNamed(v ssa.Value) (ssa.Value, string) {
	for i := 0; i < 4; i++ {
		switch x := v.(type) {
		case *ssa.MakeInterface:
			if n, ok := x.X.Type().(*types.Named); ok {
				return x.X, n.Obj().Name()
			}
			v = x.X
		case *ssa.ChangeType:
			if n, ok := x.Type().(*types.Named); ok {
				return x, n.Obj().Name()
			}
			v = x.X
		default:
			if n := derefNamed(v.Type()); n != nil {
				return v, n.Obj().Name()
			}
			return v, ""
		}
	}
	return v, ""
}

func slashField(w *World, pa *pipelineAnchors) (*types.Named, string) {
	esh := w.Named("internal/rules/config", "EncodedSlashesHandling")
	if esh == nil {
		return nil, ""
	}
	names := fieldsOfType(pa.ruleImpl, esh)
	if len(names) != 1 {
		return esh, ""
	}
	return esh, names[0]
}

func sameOriginSet(w *World, a, b ssa.Value) bool {
	oa, ob := w.Origins(a, nil), w.Origins(b, nil)
	if len(oa) != len(ob) {
		return false
	}
	for _, x := range oa {
		found := false
		for _, y := range ob {
			if x == y || sameExpr(x, y) {
				found = true
			}
		}
		if !found {
			return false
		}
	}
	return true
}

func c03NodeConsistency(w *World, r *Report) {
	ri := r.Rule("C03.3", 2, "the lookup hands every candidate the wildcard keys of its own node and one captured value per key")
	for i, s := range lookupMatcherSites(w) {
		r.Analysed(w.FnName(s.Fn))
		// the node's key list: its only []string field
		keysField := "wildcardKeys"
		if s.Fn.Signature.Recv() != nil {
			if st, ok := derefType(s.Fn.Signature.Recv().Type()).Underlying().(*types.Struct); ok {
				cnt := 0
				for i := 0; i < st.NumFields(); i++ {
					if sl, ok := st.Field(i).Type().Underlying().(*types.Slice); ok {
						if b, ok := sl.Elem().Underlying().(*types.Basic); ok && b.Kind() == types.String {
							keysField = st.Field(i).Name()
							cnt++
						}
					}
				}
				if cnt != 1 {
					keysField = "wildcardKeys"
				}
			}
		}
		want := append(append([]string{}, s.NodePath...), keysField)
		okK := strings.Join(s.KeysPath, ".") == strings.Join(want, ".")
		r.Ob(ri, fmt.Sprintf("%s|site%d|%s|keys-of-iterated-node", w.FnName(s.Fn), i, pathStr(s.NodePath)), s.Call.Pos(), okK,
			fmt.Sprintf("values of node %s are matched with the keys %s instead of %s: conditions on the captured values of such routes see the wrong (or no) keys", pathStr(s.NodePath), pathStr(s.KeysPath), strings.Join(want, ".")))
		// the captures handed to Match are the ones returned with the found node
		okV := false
		for _, b := range s.Fn.Blocks {
			for bi := range b.Succs {
				for _, f := range rawEdgeFacts(b, bi) {
					if f.Kind == FTrue && f.V == ssa.Value(s.Call) {
						tgt := b.Succs[bi]
						if len(tgt.Instrs) > 0 {
							if ret, isRet := tgt.Instrs[len(tgt.Instrs)-1].(*ssa.Return); isRet && len(ret.Results) >= 3 {
								if ret.Results[2] == s.Call.Common().Args[2] {
									okV = true
								}
							}
						}
					}
				}
			}
		}
		r.Ob(ri, fmt.Sprintf("%s|site%d|%s|values-as-returned", w.FnName(s.Fn), i, pathStr(s.NodePath)), s.Call.Pos(), okV,
			"the captured values checked by the matcher differ from the ones returned for the found node (e.g. the value of the free wildcard is missing)")
	}
}

func c03Decode(w *World, r *Report, pa *pipelineAnchors) {
	ri := r.Rule("C03.4", 3, "captured values are percent-decoded once, by the rule's encoded-slash setting, before the pipeline runs - and the path_params matcher sees the same decoding")
	fn := w.Method(pa.ruleImpl, "Execute")
	if fn == nil {
		r.Undecided(ri, "Execute not found")
		return
	}
	_, shField := slashField(w, pa)
	var dec *ssa.Function
	ok, msg := false, "the captures are not replaced by their decoded values"
	var upd *ssa.MapUpdate
	eachInstr(fn, func(in ssa.Instruction) {
		mu, isMU := in.(*ssa.MapUpdate)
		if !isMU || !pathEndsWith(mu.Map, "Captures") {
			return
		}
		c, _ := resultOfCall(mu.Value)
		if c == nil || c.Common().StaticCallee() == nil || len(c.Common().Args) != 2 {
			return
		}
		if pathEndsWith(c.Common().Args[1], shField) && shField != "" {
			ok, msg = true, ""
			dec = c.Common().StaticCallee()
			upd = mu
		} else {
			msg = "the captures are decoded with something else than the rule's encoded-slash setting"
		}
	})
	r.Ob(ri, w.FnName(fn)+"|captures-decoded-by-setting", fn.Pos(), ok, msg)
	if upd != nil {
		before := true
		for _, c := range findCalls(fn, func(c *ssa.CallCommon) bool {
			rv := callRecv(c)
			return rv != nil && types.Identical(rv.Type(), pa.compSC) && methodCallNamed(c, "Execute")
		}) {
			if c.Block() == upd.Block() || !reach(upd.Block(), nil)[c.Block()] || reach(c.Block(), nil)[upd.Block()] {
				before = false
			}
		}
		r.Ob(ri, w.FnName(fn)+"|decoded-before-pipeline", upd.Pos(), before, "the captures must be decoded before the first pipeline stage runs")
	}
	// sibling: the path_params matcher applies the same helper with its own setting
	if dec != nil {
		n := 0
		for _, g := range w.Funcs {
			if fnPkgPath(g) != modPath+"/internal/rules" || w.isMockFn(g) || g.Name() != "Matches" || g.Signature.Recv() == nil {
				continue
			}
			rt := derefNamed(g.Signature.Recv().Type())
			if rt == nil {
				continue
			}
			stt, isS := rt.Underlying().(*types.Struct)
			if !isS {
				continue
			}
			hasSlash := false
			for i := 0; i < stt.NumFields(); i++ {
				if strings.HasSuffix(stt.Field(i).Type().String(), "EncodedSlashesHandling") {
					hasSlash = true
				}
			}
			if !hasSlash {
				continue
			}
			n++
			r.Analysed(w.FnName(g))
			same := false
			for _, c := range findCalls(g, func(c *ssa.CallCommon) bool { return c.StaticCallee() == dec }) {
				if root, p := accessPath(c.Common().Args[1]); root == ssa.Value(g.Params[0]) && len(p) == 1 {
					same = true
				}
			}
			r.Ob(ri, w.FnName(g)+"|same-decoding-as-pipeline", g.Pos(), same, "the path_params matcher must decode the captured value with the same helper and its own encoded-slash setting, otherwise conditions are evaluated on another value than the pipeline sees")
		}
		if n == 0 {
			r.Ob(ri, "path-params-matcher-found", token.NoPos, false, "no matcher with an encoded-slash setting found")
		}
	}
}

// c03MatchersPure: route matchers only read the keys / values they are handed; the same slices
// are used for the captures exposed to the pipeline and for other candidates during backtracking.
func c03MatchersPure(w *World, r *Report) {
	ri := r.Rule("C03.4b", 4, "route matchers do not modify the captured keys and values they inspect")
	rmI := w.Iface("internal/rules", "RouteMatcher")
	if rmI == nil {
		r.Undecided(ri, "RouteMatcher not found")
		return
	}
	eff := newEff(w)
	for _, t := range w.Implementors(rmI) {
		fn := w.Method(t, "Matches")
		if fn == nil || fn.Blocks == nil {
			continue
		}
		r.Analysed(w.FnName(fn))
		bad := ""
		for _, pw := range eff.writes(fn) {
			if pw.Param >= 2 {
				bad = fmt.Sprintf("writes parameter %d (%s) at %s", pw.Param, pw.Path, w.Pos(pw.Pos))
			}
		}
		r.Ob(ri, w.FnName(fn)+"|read-only-captures", fn.Pos(), bad == "", "the matcher "+bad+": the decoded value is then decoded a second time by the rule execution and seen by other candidates")
	}
}

func c03Unnamed(w *World, r *Report) {
	ri := r.Rule("C03.5", 1, "unnamed wildcards are not exposed to the pipeline")
	n := 0
	for _, fn := range w.Funcs {
		if !strings.HasSuffix(fnPkgPath(fn), "/radixtree") || fn.Origin() == nil || !strings.HasPrefix(fn.Name(), "Find[") {
			continue
		}
		eachInstr(fn, func(in ssa.Instruction) {
			mu, ok := in.(*ssa.MapUpdate)
			if !ok || !pathEndsWith(mu.Map, "Parameters") {
				return
			}
			n++
			r.Analysed(w.FnName(fn))
			okG := onlyVia(fn, mu.Block(), func(f Fact) bool {
				if f.Kind != FCmp || f.Op != token.NEQ {
					return false
				}
				s, isS := constString(f.Y)
				return isS && s == "*" && f.X == mu.Key
			})
			r.Ob(ri, w.FnName(fn)+"|skips-unnamed", mu.Pos(), okG, "a capture may be exposed only through the key != \"*\" edge")
		})
	}
	if n == 0 {
		r.Undecided(ri, "the capture map of the lookup result was not found")
	}
}

// ---- C08 ----------------------------------------------------------------------------------------------

var tripletRe = regexp.MustCompile(`%[0-9A-Fa-f]{2}`)

func otherCase(s string) string {
	return tripletRe.ReplaceAllStringFunc(s, func(t string) string {
		if strings.ToUpper(t) == t {
			return strings.ToLower(t)
		}
		return strings.ToUpper(t)
	})
}

func hasHexLetterTriplet(s string) bool {
	for _, t := range tripletRe.FindAllString(s, -1) {
		if strings.ToUpper(t) != strings.ToLower(t) {
			return true
		}
	}
	return false
}

func checkC08(w *World, r *Report) {
	pa, err := findPipelineAnchors(w)
	if err != nil {
		r.Undecided(nil, err.Error())
		return
	}
	fa, err := findFactoryAnchors(w, pa)
	if err != nil {
		r.Undecided(nil, err.Error())
		return
	}
	c08CaseInsensitive(w, r)
	c08PolicyFirst(w, r, pa)
	c08Defaults(w, r, pa, fa)
	c03Decode(w, r, pa)
	c08LookupKey(w, r)
	c08ReceivedRawPath(w, r)
}

func c08CaseInsensitive(w *World, r *Report) {
	ri := r.Rule("C08.1", 1, "percent-encoded triplets are searched for in both hex cases (RFC 3986 2.1)")
	nth := map[string]int{}
	for _, fn := range w.Funcs {
		if w.isMockFn(fn) || !strings.HasPrefix(fnPkgPath(fn), modPath+"/internal") {
			continue
		}
		// constants used as search patterns in this function (and its package-level replacers)
		type site struct {
			call ssa.CallInstruction
			pat  string
			subj ssa.Value
			all  []string
		}
		var sites []site
		for _, c := range callsIn(fn) {
			n := callName(c.Common())
			if !strings.HasPrefix(n, "strings.") && !strings.HasPrefix(n, "bytes.") {
				continue
			}
			short := n[strings.Index(n, ".")+1:]
			switch short {
			case "Contains", "Index", "HasPrefix", "HasSuffix", "Count", "ReplaceAll", "Replace", "Split", "Cut", "LastIndex", "EqualFold":
				if len(c.Common().Args) >= 2 {
					if s, ok := constString(c.Common().Args[1]); ok && hasHexLetterTriplet(s) {
						sites = append(sites, site{call: c, pat: s, subj: c.Common().Args[0]})
					}
				}
			case "NewReplacer":
				var all []string
				for i, el := range sliceLiteralElems(c.Common().Args[0]) {
					if s, ok := constString(el); ok && i%2 == 0 {
						all = append(all, s)
					}
				}
				for _, s := range all {
					if hasHexLetterTriplet(s) {
						sites = append(sites, site{call: c, pat: s, all: all})
					}
				}
			}
		}
		for _, s := range sites {
			r.Analysed(w.FnName(fn))
			nth[w.FnName(fn)]++
			ok := false
			oc := otherCase(s.pat)
			if s.all != nil {
				for _, o := range s.all {
					if o == oc {
						ok = true
					}
				}
			} else {
				// the same operation on the same subject with the other-case pattern, or a normalised subject
				for _, s2 := range sites {
					if s2.pat == oc && s2.all == nil && callName(s2.call.Common()) == callName(s.call.Common()) && sameExpr(s2.subj, s.subj) {
						ok = true
					}
				}
				if c, _ := resultOfCall(s.subj); c != nil {
					if n := callName(c.Common()); n == "strings.ToUpper" || n == "strings.ToLower" {
						ok = true
					}
				}
			}
			r.Ob(ri, fmt.Sprintf("%s|pattern|%s#%d", w.FnName(fn), s.pat, nth[w.FnName(fn)]), s.call.Pos(), ok, fmt.Sprintf("the pattern %q is searched in one hex case only; %q is equivalent and would slip through", s.pat, oc))
		}
	}
}

func c08PolicyFirst(w *World, r *Report, pa *pipelineAnchors) {
	ri := r.Rule("C08.2", 3, "the encoded-slash policy is evaluated before the pipeline: 'off' rejects with the precondition error, 'on' resets the raw path")
	fn := w.Method(pa.ruleImpl, "Execute")
	if fn == nil {
		r.Undecided(ri, "Execute not found")
		return
	}
	r.Analysed(w.FnName(fn))
	_, shField := slashField(w, pa)
	off, _ := w.Obj("internal/rules/config", "EncodedSlashesOff").(*types.Const)
	on, _ := w.Obj("internal/rules/config", "EncodedSlashesOn").(*types.Const)
	if shField == "" || off == nil || on == nil {
		r.Undecided(ri, "slash-handling anchors not found")
		return
	}
	isSetting := func(v ssa.Value, c *types.Const) func(Fact) bool {
		return func(f Fact) bool {
			if f.Kind != FCmp || f.Op != token.EQL {
				return false
			}
			for _, pr := range [][2]ssa.Value{{f.X, f.Y}, {f.Y, f.X}} {
				if k, ok := pr[1].(*ssa.Const); ok && k.Value != nil && k.Value.ExactString() == c.Val().ExactString() && pathEndsWith(pr[0], shField) {
					return true
				}
			}
			return false
		}
	}
	var first *ssa.Call
	for _, c := range findCalls(fn, func(c *ssa.CallCommon) bool {
		rv := callRecv(c)
		return rv != nil && types.Identical(rv.Type(), pa.compSC) && methodCallNamed(c, "Execute")
	}) {
		first = c
	}
	if first == nil {
		r.Undecided(ri, "first pipeline stage not found")
		return
	}
	errArg, _ := w.Obj("internal/heimdall", "ErrArgument").(*types.Var)
	ek := w.EK()
	rejected := false
	for _, ret := range returnsOf(fn) {
		if reach(first.Block(), nil)[ret.Block()] || first.Block() == ret.Block() {
			continue
		}
		// a return before the pipeline: the rejection
		k := ek.ValueKinds(ret.Results[1], nil)
		okR := k.kinds[errArg] && onlyVia(fn, ret.Block(), isSetting(nil, off))
		// and only if the raw path contains an encoded slash
		viaSlash := onlyVia(fn, ret.Block(), func(f Fact) bool {
			if f.Kind != FTrue {
				return false
			}
			c, _ := resultOfCall(f.V)
			if c == nil || len(c.Common().Args) == 0 {
				return false
			}
			return pathEndsWith(c.Common().Args[0], "RawPath")
		})
		for _, s := range w.Sources(ret.Results[0], ret.Block()) {
			if s.Kind != "nil" {
				okR = false
			}
		}
		rejected = true
		r.Ob(ri, w.FnName(fn)+"|off-rejects-with-precondition-error", ret.Pos(), okR && viaSlash, "before the pipeline the rule may only reject an encoded slash under the setting 'off', with ErrArgument and without backend")
	}
	r.Ob(ri, w.FnName(fn)+"|rejection-present", fn.Pos(), rejected, "with 'off' a path containing an encoded slash must be rejected before the pipeline runs")
	// 'on': RawPath is reset before the pipeline
	reset := false
	eachInstr(fn, func(in ssa.Instruction) {
		if st, ok := in.(*ssa.Store); ok && pathEndsWith(st.Addr, "RawPath") {
			if s, isS := constString(st.Val); isS && s == "" {
				if onlyVia(fn, st.Block(), isSetting(nil, on)) && reach(st.Block(), nil)[first.Block()] && !reach(first.Block(), nil)[st.Block()] {
					reset = true
				}
			}
		}
	})
	r.Ob(ri, w.FnName(fn)+"|on-resets-raw-path", fn.Pos(), reset, "with 'on' the raw path must be dropped (so the decoded path is forwarded) before the pipeline and only under that setting")
}

func c08Defaults(w *World, r *Report, pa *pipelineAnchors, fa *factoryAnchors) {
	ri := r.Rule("C08.3", 2, "the encoded-slash setting defaults to 'off'; the default rule always uses 'off'")
	if lits := ruleLiteralAllocs(fa.initDefault, pa.ruleImpl); len(lits) == 1 {
		c08DefaultSlashes(w, r, ri, pa, fa.initDefault, lits[0])
	}
	fn := fa.createRule
	_, shField := slashField(w, pa)
	off, _ := w.Obj("internal/rules/config", "EncodedSlashesOff").(*types.Const)
	lits := ruleLiteralAllocs(fn, pa.ruleImpl)
	if len(lits) != 1 || shField == "" || off == nil {
		r.Undecided(ri, "rule literal / slash field not found")
		return
	}
	v, _ := storedField(lits[0], shField)
	ok, msg := v != nil, "the encoded-slash setting is not stored into the rule"
	if v != nil {
		sawCfg, sawOff := false, false
		for _, o := range w.Origins(v, nil) {
			switch {
			case pathEndsWith(o, "EncodedSlashesHandling"):
				sawCfg = true
			default:
				if c, isC := o.(*ssa.Const); isC && c.Value != nil && c.Value.ExactString() == off.Val().ExactString() {
					sawOff = true
				} else {
					ok, msg = false, "the setting can be "+o.String()
				}
			}
		}
		if !sawCfg || !sawOff {
			ok, msg = false, "the setting must be the rule's allow_encoded_slashes if given, else 'off'"
		}
		// the fallback applies only when nothing is configured
		if c, isC := v.(*ssa.Call); isC {
			if cond := selectCond(c); cond != nil {
				good := false
				for _, f := range condFacts(cond, true) {
					if l, k := lenFact(f); l != nil && k == "nonempty" && pathEndsWith(l, "EncodedSlashesHandling") {
						good = true
					}
				}
				if !good {
					ok, msg = false, "the configured setting is not selected by 'is configured'"
				}
			}
		}
	}
	r.Ob(ri, w.FnName(fn)+"|setting-or-off", lits[0].Pos(), ok, msg)
}

func c08LookupKey(w *World, r *Report) {
	ri := r.Rule("C08.5", 2, "the path handed to the rule lookup is the received one (RawPath when present, else Path), normalised (percent-encoded unreserved characters decoded), so equivalent encodings select the same rule and an encoded slash never becomes a separator")
	ra, err := findRepo(w)
	if err != nil {
		r.Undecided(ri, err.Error())
		return
	}
	fn := ra.findRule
	find := treeMethod(w, ra, "Find")
	for _, c := range findCalls(fn, func(c *ssa.CallCommon) bool { return find != nil && c.StaticCallee() == find }) {
		raw, norm := false, true
		for _, alt := range alternatives(w, c.Common().Args[1], c.Block()) {
			if pathEndsWith(alt.V, "RawPath") {
				raw = true
				norm = false
			}
			if cc, _ := resultOfCall(alt.V); cc != nil && cc.Common().StaticCallee() != nil && w.inModule(cc.Common().StaticCallee()) {
				// a module normaliser applied to the raw path
				for _, a := range cc.Common().Args {
					if pathEndsWith(a, "RawPath") {
						raw, norm = true, true
					}
				}
			}
		}
		r.Ob(ri, w.FnName(fn)+"|lookup-key-normalised", c.Pos(), !raw || norm, "the still percent-encoded RawPath is compared byte-wise with the rules' path expressions: /%41bc does not select the rule for /Abc")
		// ... and on the path as received, never on a re-encoding of the decoded path: EscapedPath()
		// (String(), RequestURI()) silently fall back to encoding URL.Path when the received raw path
		// is not in net/url's canonical form, which turns an encoded slash into a separator
		reenc := dependsOn(w, c.Common().Args[1], func(v ssa.Value) bool {
			cc, ok := v.(*ssa.Call)
			if !ok {
				return false
			}
			switch callName(cc.Common()) {
			case "net/url.URL.EscapedPath", "net/url.URL.String", "net/url.URL.RequestURI", "net/url.PathEscape":
				return true
			}
			return false
		})
		r.Ob(ri, w.FnName(fn)+"|lookup-key-as-received", c.Pos(), !reenc, "the lookup key is a re-encoding of the request URL (EscapedPath/String/RequestURI): for a raw path that is not in canonical form the decoded path is encoded again and %2F becomes a path separator")
	}
}

// c02Specificity (C02.4): the lookup tries the children of a node in the order of specificity
// (static text, then single-segment wildcard, then catch-all), and a less specific alternative
// only after the more specific one found nothing and allowed backtracking.
func c02Specificity(w *World, r *Report, ra *repoAnchors) {
	ri := r.Rule("C02.4", 3, "the tree lookup prefers static text over a wildcard over a catch-all, and tries the next alternative only after the previous one found nothing and allowed backtracking")
	fn := treeRecursive(w, ra, "Find")
	if fn == nil {
		r.Undecided(ri, "the recursive lookup behind Tree.Find was not found")
		return
	}
	r.Analysed(w.FnName(fn))
	// the child a value denotes, by the type of the node field it is read from: the slice of nodes
	// holds the static children; of the two single-node fields the one the lookup descends into
	// recursively is the wildcard child, the other one (matched in place) the catch-all
	fieldOfNode := func(v ssa.Value) *types.Var {
		var found *types.Var
		var walk func(v ssa.Value, depth int)
		walk = func(v ssa.Value, depth int) {
			if depth > 6 || v == nil {
				return
			}
			switch x := v.(type) {
			case *ssa.UnOp:
				walk(x.X, depth+1)
			case *ssa.IndexAddr:
				walk(x.X, depth+1)
			case *ssa.FieldAddr:
				if f := fieldOf(x.X.Type(), x.Field); f != nil && found == nil {
					// a field read directly from the receiver node
					if root, pp := accessPath(x.X); (root == ssa.Value(fn.Params[0]) && len(pp) == 0) || x.X == ssa.Value(fn.Params[0]) {
						found = f
					}
				}
				if found == nil {
					walk(x.X, depth+1)
				}
			case *ssa.Phi:
				for _, e := range x.Edges {
					walk(e, depth+1)
				}
			}
		}
		walk(v, 0)
		return found
	}
	recursedInto := map[*types.Var]bool{}
	for _, ci := range callsIn(fn) {
		if c, ok := ci.(*ssa.Call); ok {
			if callee := c.Common().StaticCallee(); callee != nil && callee.Name() == fn.Name() && len(c.Common().Args) > 0 {
				if f := fieldOfNode(c.Common().Args[0]); f != nil {
					recursedInto[f] = true
				}
			}
		}
	}
	kindOf := func(v ssa.Value) string {
		f := fieldOfNode(v)
		if f == nil {
			return ""
		}
		if _, isSlice := f.Type().Underlying().(*types.Slice); isSlice {
			if _, elemPtr := f.Type().Underlying().(*types.Slice).Elem().Underlying().(*types.Pointer); elemPtr {
				return "static"
			}
			return ""
		}
		if _, isPtr := f.Type().Underlying().(*types.Pointer); isPtr {
			if recursedInto[f] {
				return "wildcard"
			}
			return "catchall"
		}
		return ""
	}
	// attempts: the recursive descent into a child, or (catch-all) the match loop over its values
	type attempt struct {
		kind string
		in   ssa.Instruction
	}
	var attempts []attempt
	for _, ci := range callsIn(fn) {
		c, ok := ci.(*ssa.Call)
		if !ok {
			continue
		}
		if callee := c.Common().StaticCallee(); callee != nil && callee.Name() == fn.Name() && len(c.Common().Args) > 0 {
			if k := kindOf(c.Common().Args[0]); k != "" {
				attempts = append(attempts, attempt{k, c})
			}
		}
		if c.Common().IsInvoke() && c.Common().Method.Name() == "Match" {
			for _, a := range c.Common().Args {
				if k := kindOf(a); k == "catchall" {
					attempts = append(attempts, attempt{k, c})
					break
				}
			}
		}
	}
	rank := map[string]int{"static": 0, "wildcard": 1, "catchall": 2}
	seen := map[string]bool{}
	for _, a := range attempts {
		seen[a.kind] = true
	}
	for _, k := range []string{"static", "wildcard", "catchall"} {
		if !seen[k] {
			r.Undecided(ri, "no "+k+" attempt found in "+w.FnName(fn))
			return
		}
	}
	for _, a := range attempts {
		for _, b := range attempts {
			if rank[a.kind] >= rank[b.kind] {
				continue
			}
			// a is more specific than b: a is never attempted after b within one node
			r.Ob(ri, fmt.Sprintf("%s|%s-before-%s", w.FnName(fn), a.kind, b.kind), b.in.Pos(), !reachableAfter(b.in, a.in),
				"the "+b.kind+" alternative of a node can be tried before its "+a.kind+" alternative: a less specific path expression wins over a more specific one")
		}
	}
	// a less specific attempt is gated by "nothing found and backtracking allowed"
	for _, b := range attempts {
		if b.kind == "static" {
			continue
		}
		var prev []*ssa.Call
		for _, a := range attempts {
			if rank[a.kind] < rank[b.kind] {
				if c, ok := a.in.(*ssa.Call); ok && c.Common().StaticCallee() != nil && c.Common().StaticCallee().Name() == fn.Name() {
					prev = append(prev, c)
				}
			}
		}
		ok := true
		for _, pc := range prev {
			// from the point after the earlier attempt, b is reachable only through the edges
			// "found == nil" and "backtrack == true" of that attempt's results
			for _, req := range []struct {
				idx  int
				kind FactKind
			}{{0, FNil}, {3, FTrue}} {
				cut := factCut(func(f Fact) bool {
					if f.Kind != req.kind {
						return false
					}
					for _, o := range w.Origins(f.V, nil) {
						if isResult(pc, req.idx)(o) {
							return true
						}
					}
					return isResult(pc, req.idx)(f.V)
				})
				if reach(pc.Block(), cut)[b.in.Block()] && pc.Block() != b.in.Block() {
					ok = false
				}
			}
		}
		r.Ob(ri, fmt.Sprintf("%s|%s-only-after-miss-and-backtracking", w.FnName(fn), b.kind), b.in.Pos(), ok,
			"the "+b.kind+" alternative is tried although a more specific alternative found a match or forbade backtracking")
	}
}

// c03CapturesSurvive (C03.6): the values captured for the wildcards further up the path are the
// lookup's own `captures` parameter. What a descent into an alternative returns is only valid if
// that alternative found the node; the next alternative must start from the parameter again.
func c03CapturesSurvive(w *World, r *Report, ra *repoAnchors) {
	ri := r.Rule("C03.6", 2, "within one lookup step every alternative (static child, wildcard, catch-all) is tried with the captured values this step received, never with what a failed earlier alternative returned")
	fn := treeRecursive(w, ra, "Find")
	if fn == nil || len(fn.Params) < 3 {
		r.Undecided(ri, "the recursive lookup behind Tree.Find was not found")
		return
	}
	r.Analysed(w.FnName(fn))
	var capParam *ssa.Parameter
	for _, p := range fn.Params {
		if sl, ok := p.Type().Underlying().(*types.Slice); ok {
			if b, ok := sl.Elem().Underlying().(*types.Basic); ok && b.Kind() == types.String {
				capParam = p
			}
		}
	}
	if capParam == nil {
		r.Undecided(ri, "findNode has no []string captures parameter")
		return
	}
	n := 0
	check := func(kind string, at ssa.Instruction, v ssa.Value) {
		n++
		ok := true
		why := ""
		// the slice handed on: the parameter itself or append(parameter, ...)
		var walk func(v ssa.Value, depth int)
		walk = func(v ssa.Value, depth int) {
			if depth > 6 {
				return
			}
			for _, o := range w.Origins(v, nil) {
				switch x := o.(type) {
				case *ssa.Parameter:
					if x != capParam {
						ok, why = false, "the values come from another parameter"
					}
				case *ssa.Call:
					if b, isB := x.Call.Value.(*ssa.Builtin); isB && b.Name() == "append" {
						walk(x.Call.Args[0], depth+1)
						continue
					}
					ok, why = false, "the values are the result of "+callName(x.Common())
				case *ssa.Extract:
					ok, why = false, "the values are what an earlier alternative returned (lost when that alternative failed)"
				case *ssa.Const:
				default:
					ok, why = false, "the values originate from "+o.String()
				}
			}
		}
		walk(v, 0)
		r.Ob(ri, fmt.Sprintf("%s|%s#%d", w.FnName(fn), kind, n), at.Pos(), ok,
			"an alternative of the lookup step is tried with captured values that are not this step's own ("+why+"): the matcher of the finally matching expression sees fewer values than keys")
	}
	for _, ci := range callsIn(fn) {
		c, ok := ci.(*ssa.Call)
		if !ok {
			continue
		}
		if callee := c.Common().StaticCallee(); callee != nil && callee.Name() == fn.Name() {
			for i, a := range c.Common().Args {
				if i < len(fn.Params) && fn.Params[i] == capParam {
					check("descent", c, a)
				}
			}
		}
	}
	for _, ci := range callsIn(fn) {
		c, ok := ci.(*ssa.Call)
		if ok && c.Common().IsInvoke() && c.Common().Method.Name() == "Match" && len(c.Common().Args) == 3 {
			check("match", c, c.Common().Args[2])
		}
	}
	if n == 0 {
		r.Undecided(ri, "no recursive descent with a captures argument found")
	}
}


func stripConvKeepSlice(v ssa.Value) ssa.Value {
	for {
		switch x := v.(type) {
		case *ssa.ChangeType:
			v = x.X
		case *ssa.MakeInterface:
			v = x.X
		default:
			return v
		}
	}
}

// listElems: the elements of a slice value that is a literal, or built by append(base, elems...)
// from such values (base followed through phis of a single definition and locals). shared names a
// base list that was created outside the loop the append runs in and may have spare capacity (make
// with a capacity, or itself the result of an append): appending to it in every iteration writes
// into the same backing array.
func listElems(w *World, v ssa.Value, at *ssa.BasicBlock, depth int) (els []ssa.Value, shared string, ok bool) {
	if depth > 4 {
		return nil, "", false
	}
	v = stripConvKeepSlice(v)
	switch x := v.(type) {
	case *ssa.Slice:
		if e := sliceLiteralElems(x); e != nil {
			return e, "", true
		}
		return listElems(w, x.X, at, depth+1)
	case *ssa.MakeSlice:
		return nil, "", true
	case *ssa.Const:
		if x.Value == nil {
			return nil, "", true
		}
	case *ssa.Call:
		b, isB := x.Call.Value.(*ssa.Builtin)
		if isB && b.Name() == "append" && len(x.Call.Args) == 2 {
			base, sh, ok1 := listElems(w, x.Call.Args[0], x.Block(), depth+1)
			add, _, ok2 := listElems(w, x.Call.Args[1], x.Block(), depth+1)
			if !ok1 || !ok2 {
				return nil, "", false
			}
			// is the base list defined outside a loop that contains this append, with possible spare capacity?
			if sh == "" {
				bv := stripConvKeepSlice(x.Call.Args[0])
				if bi, isInstr := bv.(ssa.Instruction); isInstr && bi.Block() != x.Block() && inLoopWithout(x.Block(), bi.Block()) {
					switch y := bv.(type) {
					case *ssa.MakeSlice:
						sh = "make with a capacity"
					case *ssa.Call:
						if yb, ok := y.Call.Value.(*ssa.Builtin); ok && yb.Name() == "append" {
							sh = "the result of an earlier append"
						}
					}
				}
			}
			return append(append([]ssa.Value{}, base...), add...), sh, true
		}
		if n := callName(x.Common()); n == "slices.Clone" || n == "slices.Clip" {
			e, _, ok := listElems(w, x.Call.Args[0], at, depth+1)
			return e, "", ok
		}
	case *ssa.Phi:
		// a loop-carried list is not handled
	}
	return nil, "", false
}

// inLoopWithout: block b lies on a cycle that does not contain block d (d is evaluated once, b repeatedly).
func inLoopWithout(b, d *ssa.BasicBlock) bool {
	seen := map[*ssa.BasicBlock]bool{}
	var walk func(x *ssa.BasicBlock) bool
	walk = func(x *ssa.BasicBlock) bool {
		if x == d {
			return false
		}
		if seen[x] {
			return false
		}
		seen[x] = true
		for _, s := range x.Succs {
			if s == b {
				return true
			}
			if walk(s) {
				return true
			}
		}
		return false
	}
	return walk(b)
}
