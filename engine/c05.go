package main

import (
	"go/constant"
	"reflect"
	"fmt"
	"go/token"
	"go/types"
	"sort"
	"strings"

	"golang.org/x/tools/go/ssa"
)

func init() { register("C05", checkC05) }

func checkC05(w *World, r *Report) {
	exp := w.Named("internal/rules/mechanisms/oauth2", "Expectation")
	if exp == nil {
		r.Undecided(nil, "oauth2.Expectation not found")
		return
	}
	c05Gate(w, r, exp)
	c05Taint(w, r)
	c05Assertions(w, r, exp)
	c05Tables(w, r)
	c05Precedence(w, r, exp)
	c05KeyValidation(w, r)
	// the assertions in force for a rule: what the rule does not set is inherited from the
	// prototype (shared with C17.3b, restricted to the authenticators validating tokens)
	var jwtTypes []*types.Named
	for _, t := range mechanismTypes(w) {
		if fn := w.Method(t, "WithConfig"); fn != nil && fn.Blocks != nil {
			uses := false
			eachInstr(fn, func(in ssa.Instruction) {
				if v, ok := in.(ssa.Value); ok && derefNamed(v.Type()) == exp {
					uses = true
				}
			})
			if uses {
				jwtTypes = append(jwtTypes, t)
			}
		}
	}
	noDefaultsInOverride(w, r, jwtTypes, "C05.7", 1, "rule-level assertions inherit from the prototype what they do not set: the decoded override is not filled up with built-in defaults before it is merged")
	// key sets are fetched through the HTTP response cache: its key must tell issuers apart
	if ci := w.Named("internal/cache", "Cache"); ci != nil {
		httpCacheKey(w, r, ci, "C05.8", "a key set cached for one endpoint is never served for another: the key of the HTTP response cache covers the absolute URL (host, path, query), the method and the credential")
	}
}

func isJWTClaimsCall(c *ssa.CallCommon) bool {
	return strings.HasSuffix(callName(c), "jwt.JSONWebToken.Claims")
}

// assertionMethods: methods of Expectation whose only result is error.
func assertionMethods(exp *types.Named) []string {
	var out []string
	for i := 0; i < exp.NumMethods(); i++ {
		m := exp.Method(i)
		sig := m.Type().(*types.Signature)
		if sig.Results().Len() == 1 && isErrorType(sig.Results().At(0).Type()) {
			out = append(out, m.Name())
		}
	}
	sort.Strings(out)
	return out
}

func c05Gate(w *World, r *Report, exp *types.Named) {
	ri := r.Rule("C05.1", 6, "a token's payload is accepted only after: header alg equals the key's alg, the key's alg is allowed, the signature verifies with that key, and the claims satisfy the assertions")
	n := 0
	for _, fn := range w.Funcs {
		if w.isMockFn(fn) || !strings.HasSuffix(fnPkgPath(fn), "/authenticators") {
			continue
		}
		ks := findCalls(fn, isJWTClaimsCall)
		if len(ks) == 0 {
			continue
		}
		n++
		r.Analysed(w.FnName(fn))
		key := w.FnName(fn)
		K := ks[0]
		keyArg := stripConv(K.Common().Args[1])
		// destination variables of Claims
		var dests []ssa.Value
		for _, el := range sliceLiteralElems(K.Common().Args[2]) {
			if el != nil {
				dests = append(dests, stripConv(el))
			}
		}
		// the assertion of the algorithm and the validation of the claims
		var algAssert, validate *ssa.Call
		for _, c := range findCalls(fn, func(c *ssa.CallCommon) bool {
			callee := c.StaticCallee()
			return callee != nil && callee.Signature.Recv() != nil && derefNamed(callee.Signature.Recv().Type()) == exp && lastResultIsError(c.Signature())
		}) {
			// takes the key's algorithm
			for _, a := range callArgs(c.Common()) {
				if root, p := accessPath(a); root == keyArg && len(p) == 1 && p[0] == "Algorithm" {
					algAssert = c
					_ = algAssert
				}
			}
		}
		for _, c := range findCalls(fn, func(c *ssa.CallCommon) bool {
			return methodCallNamed(c, "Validate") && lastResultIsError(c.Signature())
		}) {
			rv := callRecv(c.Common())
			for _, d := range dests {
				if root, _ := accessPath(rv); root == d || rv == d {
					validate = c
				}
			}
		}
		// the two algorithm gates, as predicates of a function and "its" key value: they may live in a
		// helper that is handed the key and returns an error
		findAlgAssert := func(f *ssa.Function, kv ssa.Value) *ssa.Call {
			var out *ssa.Call
			for _, c := range findCalls(f, func(c *ssa.CallCommon) bool {
				callee := c.StaticCallee()
				return callee != nil && callee.Signature.Recv() != nil && derefNamed(callee.Signature.Recv().Type()) == exp && lastResultIsError(c.Signature())
			}) {
				for _, a := range callArgs(c.Common()) {
					if root, p := accessPath(a); root == kv && len(p) == 1 && p[0] == "Algorithm" {
						out = c
					}
				}
			}
			return out
		}
		algAllowed := func(f *ssa.Function, kv ssa.Value) func(Fact) bool {
			c := findAlgAssert(f, kv)
			if c == nil {
				return func(Fact) bool { return false }
			}
			return nilOf(isResult(c, 0))
		}
		algEqual := func(f *ssa.Function, kv ssa.Value) func(Fact) bool {
			return func(f Fact) bool {
				if l, k := lenFact(f); l != nil && k == "empty" && pathEndsWith(l, "Algorithm") {
					if root, _ := accessPath(l); root != kv {
						return true
					}
				}
				if f.Kind == FCmp && f.Op == token.EQL {
					rx, px := accessPath(f.X)
					ry, py := accessPath(f.Y)
					if len(px) > 0 && len(py) > 0 && px[len(px)-1] == "Algorithm" && py[len(py)-1] == "Algorithm" && (rx == kv) != (ry == kv) {
						return true
					}
				}
				return false
			}
		}
		// gated: block is reachable only through the gate, directly or through the == nil edge of a
		// helper call that is handed the key and whose own nil returns are gated
		gated := func(block *ssa.BasicBlock, mk func(*ssa.Function, ssa.Value) func(Fact) bool) bool {
			if onlyVia(fn, block, mk(fn, keyArg)) {
				return true
			}
			for _, ci := range callsIn(fn) {
				h, ok := ci.(*ssa.Call)
				if !ok {
					continue
				}
				H := h.Common().StaticCallee()
				if H == nil || H.Blocks == nil || H == fn || fnPkgPath(H) != fnPkgPath(fn) || !lastResultIsError(h.Common().Signature()) {
					continue
				}
				j := -1
				for i, a := range h.Common().Args {
					if stripConv(a) == keyArg {
						j = i
					}
				}
				if j < 0 || j >= len(H.Params) || !onlyVia(fn, block, nilOf(isResult(h, errIdx(h)))) {
					continue
				}
				all := true
				for _, hret := range returnsOf(H) {
					mayNil := mayBeNilAt(w, H, hret.Results[len(hret.Results)-1], hret.Block())
					if mayNil && !onlyVia(H, hret.Block(), mk(H, H.Params[j])) {
						all = false
					}
				}
				if all {
					r.Analysed(w.FnName(H))
					return true
				}
			}
			return false
		}
		for _, ret := range returnsOf(fn) {
			rk := retKey(w, fn, ret)
			if !mayBeNilAt(w, fn, ret.Results[len(ret.Results)-1], ret.Block()) {
				continue
			}
			errV := ret.Results[len(ret.Results)-1]
			ok1 := successOnlyVia(w, fn, errV, ret.Block(), nilOf(isResult(K, errIdx(K))))
			r.Ob(ri, key+"|"+rk+"|signature-verified", ret.Pos(), ok1, "success is reachable without passing the == nil edge of token.Claims(key, ...) (the signature verification)")
			ok2 := gated(ret.Block(), algAllowed)
			r.Ob(ri, key+"|"+rk+"|key-algorithm-allowed", ret.Pos(), ok2, "success is reachable without the key's algorithm having been asserted against the allowed algorithms")
			ok3 := validate != nil && successOnlyVia(w, fn, errV, ret.Block(), nilOf(isResult(validate, 0)))
			r.Ob(ri, key+"|"+rk+"|claims-validated", ret.Pos(), ok3, "success is reachable without the verified claims having been validated against the assertions")
			// algorithm agreement: header alg empty or equal to the key's
			ok4 := gated(ret.Block(), algEqual)
			r.Ob(ri, key+"|"+rk+"|header-alg-equals-key-alg", ret.Pos(), ok4, "success is reachable although the token header names another algorithm than the key declares (algorithm confusion)")
			// payload from the verified destination
			ok5 := false
			for _, d := range dests {
				if dependsOn(w, ret.Results[0], func(x ssa.Value) bool { return x == d }) {
					ok5 = true
				}
			}
			r.Ob(ri, key+"|"+rk+"|payload-is-verified-claims", ret.Pos(), ok5, "the returned payload does not originate from the claims filled by the verifying Claims call")
		}
		// payload and error are exclusive: whoever decides by the payload (a caller trying one key after
		// the other) must not get a payload together with a failure
		for _, ret := range returnsOf(fn) {
			if len(ret.Results) < 2 {
				continue
			}
			r.Ob(ri, key+"|"+retKey(w, fn, ret)+"|no-payload-with-error", ret.Pos(), !valueWithError(w, fn, ret), "a payload is returned together with a non-nil error: a caller that tells success by the payload accepts a token whose verification or validation failed")
		}
		// the verification key is the parameter that was checked
		_, isParam := keyArg.(*ssa.Parameter)
		r.Ob(ri, key+"|verifies-with-the-checked-key", K.Pos(), isParam, "the key used for verification must be the key whose algorithm was checked")
	}
	if n == 0 {
		r.Undecided(ri, "no caller of (*jwt.JSONWebToken).Claims found")
	}
}

func c05Taint(w *World, r *Report) {
	ri := r.Rule("C05.2", 4, "claims read without signature verification never reach the subject")
	// tainted: allocations handed to UnsafeClaimsWithoutVerification and parameters receiving them
	tainted := map[ssa.Value]bool{}
	var seeds []ssa.Value
	for _, fn := range w.Funcs {
		if w.isMockFn(fn) || !strings.HasSuffix(fnPkgPath(fn), "/authenticators") {
			continue
		}
		for _, c := range findCalls(fn, func(c *ssa.CallCommon) bool { return strings.HasSuffix(callName(c), "UnsafeClaimsWithoutVerification") }) {
			for _, el := range sliceLiteralElems(c.Common().Args[1]) {
				if el != nil {
					seeds = append(seeds, stripConv(el))
				}
			}
		}
	}
	if len(seeds) == 0 {
		r.Undecided(ri, "no UnsafeClaimsWithoutVerification call found (anchor lost)")
		return
	}
	isTainted := func(x ssa.Value) bool {
		if tainted[x] {
			return true
		}
		root, _ := accessPath(x)
		return tainted[root]
	}
	// taintDep: data dependence with module callees summarised (a result depends on an argument only
	// if the callee's returned value depends on that parameter) and the remote system as sanitizer
	// (what an HTTP round trip returns is the remote system's answer, not the request's content).
	var taintDep func(v ssa.Value, depth int) bool
	taintDep = func(v ssa.Value, depth int) bool {
		return dependsOn(w, v, func(x ssa.Value) bool {
			if isTainted(x) {
				return true
			}
			return false
		}) && taintPath(w, v, isTainted, depth)
	}
	_ = taintDep
	for _, s := range seeds {
		tainted[s] = true
	}
	// propagate to parameters (depth 3)
	for round := 0; round < 3; round++ {
		for _, fn := range w.Funcs {
			if w.isMockFn(fn) || !strings.HasSuffix(fnPkgPath(fn), "/authenticators") {
				continue
			}
			for _, c := range callsIn(fn) {
				callee := c.Common().StaticCallee()
				if callee == nil || !w.inModule(callee) || callee.Blocks == nil {
					continue
				}
				for i, a := range c.Common().Args {
					if i < len(callee.Params) && taintPath(w, a, isTainted, 0) {
						tainted[callee.Params[i]] = true
					}
				}
				// results of functions returning tainted data (extractTokenClaims)
			}
			for _, ret := range returnsOf(fn) {
				for _, rv := range ret.Results {
					if taintPath(w, rv, isTainted, 0) && !isErrorType(rv.Type()) {
						// callers' results
						for _, e := range w.CG().In[fn] {
							if ci, ok := e.Site.(*ssa.Call); ok && e.Kind == "static" {
								tainted[ci] = true
								if refs := ci.Referrers(); refs != nil {
									for _, rf := range *refs {
										if ex, isEx := rf.(*ssa.Extract); isEx && !isErrorType(ex.Type()) {
											tainted[ex] = true
										}
									}
								}
							}
						}
					}
				}
			}
		}
	}
	// sinks
	n := 0
	for _, fn := range w.Funcs {
		if w.isMockFn(fn) || !strings.HasSuffix(fnPkgPath(fn), "/authenticators") {
			continue
		}
		for _, c := range findCalls(fn, func(c *ssa.CallCommon) bool { return methodCallNamed(c, "CreateSubject") }) {
			n++
			r.Analysed(w.FnName(fn))
			bad := false
			for _, a := range callArgs(c.Common()) {
				if taintPath(w, a, isTainted, 0) {
					bad = true
				}
			}
			r.Ob(ri, w.FnName(fn)+"|subject-from-verified-data", c.Pos(), !bad, "the subject is created from data that was read without signature verification")
		}
		// payload-returning verification functions: functions that call the gate (directly) or return its result
		if fn.Signature.Results().Len() == 2 && strings.HasSuffix(fn.Signature.Results().At(0).Type().String(), "RawMessage") {
			for _, ret := range returnsOf(fn) {
				if isNilConst(ret.Results[0]) {
					continue
				}
				n++
				r.Ob(ri, w.FnName(fn)+"|"+retKey(w, fn, ret)+"|payload-not-from-unverified-claims", ret.Pos(), !taintPath(w, ret.Results[0], isTainted, 0), "a verification function returns a payload derived from the unverified claims")
			}
		}
	}
	if n == 0 {
		r.Undecided(ri, "no subject creation found")
	}
}

// taintPath: v depends on a tainted value; calls to module functions are followed into the callee
// (result depends on argument i only if a returned value depends on parameter i), HTTP round trips
// and cache reads are barriers.
func taintPath(w *World, v ssa.Value, isTainted func(ssa.Value) bool, depth int) bool {
	seen := map[ssa.Value]bool{}
	var walk func(v ssa.Value) bool
	walk = func(v ssa.Value) bool {
		if v == nil || seen[v] {
			return false
		}
		seen[v] = true
		if isTainted(v) {
			return true
		}
		var call *ssa.Call
		switch x := v.(type) {
		case *ssa.Call:
			call = x
		case *ssa.Extract:
			if c, ok := x.Tuple.(*ssa.Call); ok {
				call = c
			}
		}
		if call != nil {
			if ops := selectOperands(call); ops != nil {
				for _, o := range ops {
					if walk(o) {
						return true
					}
				}
				return false
			}
			n := callName(call.Common())
			if n == "net/http.Client.Do" || strings.HasSuffix(n, "cache.Cache.Get") || strings.HasSuffix(n, "RoundTripper.RoundTrip") {
				return false
			}
			callee := call.Common().StaticCallee()
			if callee != nil && callee.Blocks != nil && w.inModule(callee) && depth < 4 {
				for i, p := range callee.Params {
					if i >= len(call.Common().Args) {
						break
					}
					pp := p
					dep := false
					for _, ret := range returnsOf(callee) {
						for _, rv := range ret.Results {
							if isErrorType(rv.Type()) {
								continue
							}
							if taintPath(w, rv, func(y ssa.Value) bool { return y == ssa.Value(pp) }, depth+1) {
								dep = true
							}
						}
					}
					if dep && walk(call.Common().Args[i]) {
						return true
					}
				}
				return false
			}
			for _, a := range call.Common().Args {
				if walk(a) {
					return true
				}
			}
			if call.Common().IsInvoke() {
				return walk(call.Common().Value)
			}
			return false
		}
		switch x := v.(type) {
		case *ssa.UnOp:
			if a, ok := x.X.(*ssa.Alloc); ok {
				if isTainted(a) {
					return true
				}
				found := false
				w.eachStore(a, func(st *ssa.Store) {
					if walk(st.Val) {
						found = true
					}
				})
				return found
			}
			if fv, ok := x.X.(*ssa.FreeVar); ok {
				if b, ok := freeVarBinding(fv).(*ssa.Alloc); ok {
					if isTainted(b) {
						return true
					}
					found := false
					w.eachStore(b, func(st *ssa.Store) {
						if walk(st.Val) {
							found = true
						}
					})
					return found
				}
			}
			return walk(x.X)
		case *ssa.Slice:
			if _, ok := x.X.(*ssa.Alloc); ok {
				for _, el := range sliceLiteralElems(x) {
					if el != nil && walk(el) {
						return true
					}
				}
				return false
			}
		}
		var ops []*ssa.Value
		if in, ok := v.(ssa.Instruction); ok {
			ops = in.Operands(ops)
			for _, o := range ops {
				if o != nil && *o != nil && walk(*o) {
					return true
				}
			}
		}
		return false
	}
	return walk(v)
}

func c05Assertions(w *World, r *Report, exp *types.Named) {
	ri := r.Rule("C05.3", 6, "every assertion of an expectation is evaluated and its failure returned")
	ms := assertionMethods(exp)
	claims := w.Named("internal/rules/mechanisms/oauth2", "Claims")
	if claims == nil {
		r.Undecided(ri, "oauth2.Claims not found")
		return
	}
	val := w.Method(claims, "Validate")
	if val == nil || val.Blocks == nil {
		r.Undecided(ri, "Claims.Validate not found")
		return
	}
	r.Analysed(w.FnName(val))
	called := map[string]*ssa.Call{}
	for _, c := range findCalls(val, func(c *ssa.CallCommon) bool {
		callee := c.StaticCallee()
		return callee != nil && callee.Signature.Recv() != nil && derefNamed(callee.Signature.Recv().Type()) == exp
	}) {
		called[c.Common().StaticCallee().Name()] = c
	}
	for _, m := range ms {
		c, ok := called[m]
		if !ok {
			// the algorithm assertion is evaluated by the gate with the key's algorithm
			usedByGate := false
			for _, fn := range w.Funcs {
				if len(findCalls(fn, isJWTClaimsCall)) == 0 {
					continue
				}
				// in the gate function itself or in a helper of the same package it calls
				scope := []*ssa.Function{fn}
				for _, hc := range callsIn(fn) {
					if h := hc.Common().StaticCallee(); h != nil && h.Blocks != nil && fnPkgPath(h) == fnPkgPath(fn) {
						scope = append(scope, h)
					}
				}
				for _, g := range scope {
					for _, gc := range callsIn(g) {
						if callee := gc.Common().StaticCallee(); callee != nil && callee.Name() == m && callee.Signature.Recv() != nil && derefNamed(callee.Signature.Recv().Type()) == exp {
							usedByGate = true
						}
					}
				}
			}
			r.Ob(ri, "assertion|"+m, val.Pos(), usedByGate, "the assertion "+m+" of an expectation is never evaluated on the verification path")
			continue
		}
		// every success return passes the == nil edge of this assertion, or returns its result
		okA := true
		for _, ret := range returnsOf(val) {
			if isResult(c, 0)(ret.Results[0]) {
				continue
			}
			mayNil := false
			for _, s := range w.Sources(ret.Results[0], ret.Block()) {
				if s.Kind == "nil" {
					mayNil = true
				}
				if s.Kind == "call" && !isResult(c, 0)(s.V) {
					sv := s.V
					if !onlyVia(val, ret.Block(), nonNilOf(func(v ssa.Value) bool { return v == sv })) {
						mayNil = true
					}
				}
			}
			if mayNil && !onlyVia(val, ret.Block(), nilOf(isResult(c, 0))) {
				// a later assertion's direct return is fine if this one dominates it through its nil edge
				okA = false
			}
		}
		r.Ob(ri, "assertion|"+m, c.Pos(), okA, "validation can succeed without the assertion "+m+" having passed")
	}
	// introspection: the active flag
	ir := w.Named("internal/rules/mechanisms/oauth2", "IntrospectionResponse")
	if ir != nil {
		if iv := w.Method(ir, "Validate"); iv != nil && iv.Blocks != nil {
			r.Analysed(w.FnName(iv))
			okI := true
			n := 0
			for _, ret := range returnsOf(iv) {
				for _, s := range w.Sources(ret.Results[0], ret.Block()) {
					if s.Kind == "nil" || s.Kind == "call" {
						n++
						if !onlyVia(iv, ret.Block(), func(f Fact) bool { return f.Kind == FTrue && pathEndsWith(f.V, "Active") }) {
							okI = false
						}
					}
				}
			}
			// and delegates to the claims validation
			del := false
			for _, c := range callsIn(iv) {
				if c.Common().StaticCallee() == val {
					del = true
				}
			}
			r.Ob(ri, "introspection|active-and-claims", iv.Pos(), okI && del && n > 0, "an introspection response is valid only if it is active and its claims satisfy the assertions")
		}
	}
}

func constStringsOf(w *World, fn *ssa.Function) []string {
	var out []string
	for _, ret := range returnsOf(fn) {
		for _, o := range w.Origins(ret.Results[0], nil) {
			if sl, ok := o.(*ssa.Slice); ok {
				for _, el := range sliceLiteralElems(sl) {
					if el == nil {
						continue
					}
					v := stripConv(el)
					if cv, ok := v.(*ssa.Convert); ok {
						v = cv.X
					}
					if s, ok := constString(v); ok {
						out = append(out, s)
					}
				}
			}
		}
	}
	sort.Strings(out)
	return out
}

func c05Tables(w *World, r *Report) {
	ri := r.Rule("C05.4", 2, "the default allowed algorithms are asymmetric and a subset of the algorithms accepted by the parser")
	// the tables are found by their use: the parser's set is what is handed to jwt.ParseSigned, the
	// defaults are what a constructor stores into the AllowedAlgorithms of the assertions
	// the field of the assertions holding the allowed algorithms: found by its configuration tag
	algField := "AllowedAlgorithms"
	if exp := w.Named("internal/rules/mechanisms/oauth2", "Expectation"); exp != nil {
		if st, ok := exp.Underlying().(*types.Struct); ok {
			for i := 0; i < st.NumFields(); i++ {
				if tag, _ := reflect.StructTag(st.Tag(i)).Lookup("mapstructure"); strings.Split(tag, ",")[0] == "allowed_algorithms" {
					algField = st.Field(i).Name()
				}
			}
		}
	}
	var def, sup *ssa.Function
	var ctors []*ssa.Function
	for _, fn := range w.Funcs {
		if w.isMockFn(fn) || !strings.HasSuffix(fnPkgPath(fn), "/internal/rules/mechanisms/authenticators") {
			continue
		}
		for _, c := range findCalls(fn, func(c *ssa.CallCommon) bool { return strings.HasSuffix(callName(c), "jwt.ParseSigned") }) {
			if len(c.Common().Args) >= 2 {
				if tc, _ := resultOfCall(c.Common().Args[1]); tc != nil {
					if g := tc.Common().StaticCallee(); g != nil && w.inModule(g) && g.Signature.Params().Len() == 0 {
						sup = g
					}
				}
			}
		}
		eachInstr(fn, func(in ssa.Instruction) {
			st, ok := in.(*ssa.Store)
			if !ok || !pathEndsWith(st.Addr, algField) {
				return
			}
			if tc, _ := resultOfCall(st.Val); tc != nil {
				if g := tc.Common().StaticCallee(); g != nil && w.inModule(g) && g.Signature.Params().Len() == 0 {
					def = g
					ctors = append(ctors, fn)
				}
			}
		})
	}
	if def == nil || sup == nil {
		r.Undecided(ri, "algorithm tables not found")
		return
	}
	r.Analysed(w.FnName(def), w.FnName(sup))
	d, s := constStringsOf(w, def), constStringsOf(w, sup)
	okAsym := len(d) > 0
	for _, a := range d {
		if strings.HasPrefix(a, "HS") || strings.EqualFold(a, "none") || a == "" {
			okAsym = false
		}
	}
	r.Ob(ri, "default-algorithms-asymmetric", def.Pos(), okAsym, "the default allowed algorithms contain a symmetric algorithm or 'none': "+strings.Join(d, ","))
	sub := len(s) > 0
	set := map[string]bool{}
	for _, a := range s {
		set[a] = true
		if strings.EqualFold(a, "none") {
			sub = false
		}
	}
	for _, a := range d {
		if !set[a] {
			sub = false
		}
	}
	r.Ob(ri, "default-subset-of-parse-set", sup.Pos(), sub, fmt.Sprintf("defaults %v are not a subset of the parser's set %v (or the parser accepts 'none')", d, s))
	// the parser accepts every signature algorithm the library knows: the policy (allowed algorithms)
	// is applied after parsing, where a violation is an authentication failure. An algorithm the parser
	// does not know makes a well-formed, signed token "unparsable", which counts as "no credentials
	// presented" and lets the next authenticator (anonymous) take over.
	if sl, isSl := sup.Signature.Results().At(0).Type().Underlying().(*types.Slice); isSl {
		if nt, isN := sl.Elem().(*types.Named); isN && nt.Obj().Pkg() != nil {
			var missing []string
			sc := nt.Obj().Pkg().Scope()
			for _, name := range sc.Names() {
				if k, isK := sc.Lookup(name).(*types.Const); isK && types.Identical(k.Type(), nt) && k.Val().Kind() == constant.String {
					if v := constant.StringVal(k.Val()); v != "" && !strings.EqualFold(v, "none") && !set[v] {
						missing = append(missing, v)
					}
				}
			}
			sort.Strings(missing)
			r.Ob(ri, "parse-set-covers-library", sup.Pos(), len(missing) == 0, "the parser's algorithm set lacks "+strings.Join(missing, ", ")+": a token signed with one of them cannot be parsed, is treated as missing credentials and falls through to the next authenticator instead of being rejected")
		}
	}
	// the defaults are installed when none are configured
	sort.Slice(ctors, func(i, j int) bool { return ctors[i].String() < ctors[j].String() })
	for _, ctor := range ctors {
		if !strings.Contains(strings.ToLower(ctor.Name()), "jwt") {
			continue // the obligation is keyed for the JWT authenticator's constructor
		}
		ok := false
		for _, c := range findCalls(ctor, func(c *ssa.CallCommon) bool { return c.StaticCallee() == def }) {
			if onlyVia(ctor, c.Block(), func(f Fact) bool {
				l, k := lenFact(f)
				return l != nil && k == "empty" && pathEndsWith(l, algField)
			}) {
				ok = true
			}
		}
		r.Ob(ri, "defaults-installed-when-unconfigured", ctor.Pos(), ok, "the default allowed algorithms must be installed exactly when no algorithms are configured")
	}
}

func c05Precedence(w *World, r *Report, exp *types.Named) {
	ri := r.Rule("C05.5", 5, "assertions take precedence: rule-level over catalogue, configured over metadata-derived; Merge keeps each non-empty field of its receiver")
	merge := w.Method(exp, "Merge")
	if merge == nil || merge.Blocks == nil {
		r.Undecided(ri, "Expectation.Merge not found")
		return
	}
	r.Analysed(w.FnName(merge))
	st := exp.Underlying().(*types.Struct)
	for i := 0; i < st.NumFields(); i++ {
		f := st.Field(i)
		ok := false
		eachInstr(merge, func(in ssa.Instruction) {
			s, isSt := in.(*ssa.Store)
			if !isSt {
				return
			}
			_, p := accessPath(s.Addr)
			if len(p) != 1 || p[0] != f.Name() {
				return
			}
			c, isC := s.Val.(*ssa.Call)
			if !isC || selectOperands(c) == nil {
				return
			}
			ops := selectOperands(c)
			r0, p0 := accessPath(ops[0])
			r1, p1 := accessPath(ops[1])
			recvOK := r0 == ssa.Value(merge.Params[0]) && len(p0) == 1 && p0[0] == f.Name()
			othOK := r1 == ssa.Value(merge.Params[1]) && len(p1) == 1 && p1[0] == f.Name()
			condOK := false
			for _, fct := range condFacts(selectCond(c), true) {
				if l, k := lenFact(fct); l != nil && k == "nonempty" {
					if rr, pp := accessPath(l); rr == ssa.Value(merge.Params[0]) && len(pp) == 1 && pp[0] == f.Name() {
						condOK = true
					}
				}
				if fct.Kind == FNonNil || (fct.Kind == FCmp && fct.Op == token.NEQ) {
					v := fct.V
					if fct.Kind == FCmp {
						v = fct.X
					}
					if rr, pp := accessPath(v); rr == ssa.Value(merge.Params[0]) && len(pp) == 1 && pp[0] == f.Name() {
						condOK = true
					}
				}
			}
			if recvOK && othOK && condOK {
				ok = true
			}
		})
		r.Ob(ri, w.FnName(merge)+"|keeps-receiver|"+f.Name(), merge.Pos(), ok, "Merge must set "+f.Name()+" to the receiver's value if that is non-empty, else to the other's same field")
	}
	// call sites: the receiver is the higher-priority operand
	nth := map[string]int{}
	for _, fn := range w.Funcs {
		if w.isMockFn(fn) || fn.Synthetic != "" {
			continue
		}
		for _, c := range findCalls(fn, func(c *ssa.CallCommon) bool { return c.StaticCallee() == merge }) {
			r.Analysed(w.FnName(fn))
			nth[w.FnName(fn)]++
			recvV, argV := c.Common().Args[0], c.Common().Args[1]
			top := fn
			for top.Parent() != nil {
				top = top.Parent()
			}
			ok, msg := false, "unrecognised Merge operands"
			rr, rp := accessPath(recvV)
			ar, ap := accessPath(argV)
			mechRecv := ssa.Value(nil)
			if len(top.Params) > 0 && top.Signature.Recv() != nil {
				mechRecv = top.Params[0]
			}
			switch {
			case top.Name() == "WithConfig":
				// rule-level config (decoded option) takes precedence over the prototype's field
				recvIsCfg := decodedOptionPath(recvV)
				argIsProto := ar == mechRecv && len(ap) == 1
				ok, msg = recvIsCfg && argIsProto, "in WithConfig the rule-level assertions must be the receiver of Merge and the prototype's assertions the argument"
			default:
				// the mechanism's configured assertions take precedence over a freshly built (metadata-derived) expectation
				recvIsField := rr == mechRecv && len(rp) == 1
				_, argIsFresh := ar.(*ssa.Alloc)
				ok, msg = recvIsField && argIsFresh && len(ap) == 0, "the configured assertions must be the receiver of Merge and the metadata-derived expectation the argument"
			}
			r.Ob(ri, fmt.Sprintf("%s|merge#%d", w.FnName(fn), nth[w.FnName(fn)]), c.Pos(), ok, msg)
		}
	}
}

// decodedOptionPath: v is (a load of) a field with a mapstructure tag (a decoded option).
func decodedOptionPath(v ssa.Value) bool {
	v = stripConv(v)
	if u, ok := v.(*ssa.UnOp); ok {
		if fa, ok := u.X.(*ssa.FieldAddr); ok {
			return tagName(structTagOfFieldAddr(fa)) != ""
		}
	}
	return false
}

func c05KeyValidation(w *World, r *Report) {
	ri := r.Rule("C05.6", 2, "a key obtained from the key-set endpoint is validated before it is cached or used")
	n := 0
	for _, fn := range w.Funcs {
		if w.isMockFn(fn) || !strings.HasSuffix(fnPkgPath(fn), "/authenticators") {
			continue
		}
		vals := findCalls(fn, func(c *ssa.CallCommon) bool {
			// the key validation: a module function that takes the JWK, returns only an error and
			// reaches the certificate validation of internal/x/pkix
			callee := c.StaticCallee()
			if callee == nil || !w.inModule(callee) || callee.Blocks == nil || callee.Signature.Results().Len() != 1 || !isErrorType(callee.Signature.Results().At(0).Type()) {
				return false
			}
			takesJWK := false
			for i := 0; i < callee.Signature.Params().Len(); i++ {
				if strings.HasSuffix(callee.Signature.Params().At(i).Type().String(), "jose/v4.JSONWebKey") {
					takesJWK = true
				}
			}
			if !takesJWK {
				return false
			}
			for _, cc := range callsIn(callee) {
				if g := cc.Common().StaticCallee(); g != nil && g.Name() == "ValidateCertificate" && strings.HasSuffix(fnPkgPath(g), "/internal/x/pkix") {
					return true
				}
			}
			return false
		})
		if len(vals) == 0 {
			continue
		}
		r.Analysed(w.FnName(fn))
		for _, v := range vals {
			n++
			keyV := callArgs(v.Common())[0]
			// uses of that key after validation: verification calls and cache stores must be on the nil edge
			ok := true
			for _, c := range callsIn(fn) {
				name := callName(c.Common())
				uses := false
				for _, a := range c.Common().Args {
					if a == keyV || stripConv(a) == stripConv(keyV) {
						uses = true
					}
				}
				isSet := strings.HasSuffix(name, "cache.Cache.Set")
				if c == ssa.CallInstruction(v) || (!uses && !isSet) {
					continue
				}
				if !reachableAfter(v, c) {
					continue
				}
				if !onlyVia(fn, c.Block(), nilOf(isResult(v, 0))) {
					ok = false
				}
			}
			for _, ret := range returnsOf(fn) {
				if ret.Results[0] == keyV && !onlyVia(fn, ret.Block(), nilOf(isResult(v, 0))) {
					ok = false
				}
			}
			r.Ob(ri, fmt.Sprintf("%s|validated-before-use#%d", w.FnName(fn), n), v.Pos(), ok, "the key is cached, returned or used for verification on a path where its validation did not succeed")
		}
	}
	if n == 0 {
		r.Undecided(ri, "no JWK validation call found")
	}
}


// valueWithError: the return can yield a non-nil first result together with a non-nil error.
// Both results delegated from one call are not judged (the callee is).
func valueWithError(w *World, fn *ssa.Function, ret *ssa.Return) bool {
	P, E := ret.Results[0], ret.Results[len(ret.Results)-1]
	if pc, _ := resultOfCall(P); pc != nil {
		if ec, _ := resultOfCall(E); ec == pc {
			if _, isEx := P.(*ssa.Extract); isEx {
				return false
			}
		}
	}
	mayNonNil := func(s Src) bool {
		switch s.Kind {
		case "nil":
			return false
		case "nonnil":
			return true
		}
		sv := s.V
		// entering only where it was found nil
		if srcOnlyVia(fn, s, func(f Fact) bool { return f.Kind == FNil && (f.V == sv || sameValue(f.V, sv)) }) {
			return false
		}
		return true
	}
	// pairwise per entering edge: a payload and an error that enter the return through the same
	// Phi edge (or one of them not through a Phi at all) come together
	ps, es := w.Sources(P, ret.Block()), w.Sources(E, ret.Block())
	for _, sp := range ps {
		if !mayNonNil(sp) {
			continue
		}
		for _, se := range es {
			if !mayNonNil(se) {
				continue
			}
			if sp.To != nil && se.To != nil && sp.To == se.To && sp.At != se.At {
				continue // different edges of the same merge
			}
			return true
		}
	}
	return false
}
