package main

import (
	"fmt"
	"go/types"
	"sort"
	"strings"
)

// listRenameCandidates prints the unexported struct fields, package-level functions and methods of
// the module packages whose path contains one of the given fragments (developer sweep).
func listRenameCandidates(w *World, frags []string) {
	var out []string
	for _, p := range w.Pkgs {
		if p.Types == nil || !strings.HasPrefix(p.PkgPath, modPath+"/") || strings.Contains(p.PkgPath, "/mocks") {
			continue
		}
		hit := false
		for _, f := range frags {
			if strings.Contains(p.PkgPath, f) {
				hit = true
			}
		}
		if !hit {
			continue
		}
		rel := strings.TrimPrefix(p.PkgPath, modPath+"/")
		sc := p.Types.Scope()
		for _, n := range sc.Names() {
			o := sc.Lookup(n)
			switch x := o.(type) {
			case *types.Func:
				if !x.Exported() && n != "init" && n != "main" {
					out = append(out, rel+"."+n)
				}
			case *types.Var, *types.Const:
				if !o.Exported() && n != "_" {
					out = append(out, rel+"."+n)
				}
			case *types.TypeName:
				if strings.HasSuffix(n, "Mock") {
					continue
				}
				if !x.Exported() {
					out = append(out, rel+"."+n)
				}
				if st, ok := x.Type().Underlying().(*types.Struct); ok {
					for i := 0; i < st.NumFields(); i++ {
						if f := st.Field(i); !f.Exported() && !f.Embedded() {
							out = append(out, rel+"."+n+"."+f.Name())
						}
					}
				}
				if nt, ok := x.Type().(*types.Named); ok {
					for i := 0; i < nt.NumMethods(); i++ {
						if m := nt.Method(i); !m.Exported() {
							out = append(out, rel+"."+n+"."+m.Name())
						}
					}
				}
			}
		}
	}
	sort.Strings(out)
	for _, s := range out {
		fmt.Println(s)
	}
}
