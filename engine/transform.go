package main

import (
	"go/ast"
	"os"
	"sort"
	"strings"
)

// Whole-module behaviour-preserving source transformations for the checker self-test
// ("-transform invertif|reversefuncs|both", developer / thorough tier). Each produces overlays for
// every non-test, non-mock file of the module; the program computes the same results, so every
// check must stay silent on the transformed program. They catch rules that depend on block
// numbering, on the textual order of branches or on the order of declarations in a file.
//
//   invertif      if c { A } else { B }   ->  if !(c) { B } else { A }
//   reversefuncs  the function declarations of every file, in reverse order
//   condlocal     if a && b { .. }        ->  cnd1 := a && b; if cnd1 { .. }   (statement-level ifs
//                 without init whose condition is a conjunction / disjunction: the condition
//                 materialises as a Phi of booleans)
//   deferclosure  defer x.f()             ->  defer func() { x.f() }()          (calls without arguments)

func transformOverlays(w *World, kind string) (map[string][]byte, error) {
	out := map[string][]byte{}
	for _, p := range w.Pkgs {
		if !strings.HasPrefix(p.PkgPath, modPath) || strings.Contains(p.PkgPath, "/mocks") {
			continue
		}
		for _, f := range p.Syntax {
			pos := w.Fset.Position(f.Pos())
			if strings.HasSuffix(pos.Filename, "_test.go") || !strings.HasPrefix(pos.Filename, w.Repo) {
				continue
			}
			src, err := os.ReadFile(pos.Filename)
			if err != nil {
				return nil, err
			}
			if ov, ok := w.Overlay[pos.Filename]; ok {
				src = ov
			}
			base := w.Fset.File(f.Pos()).Base()
			txt := string(src)
			changed := false
			if kind == "invertif" || kind == "both" {
				t2 := invertIfs(f, txt, base)
				if t2 != txt {
					txt, changed = t2, true
				}
			}
			if kind == "condlocal" {
				if t2 := condLocals(f, txt, base); t2 != txt {
					txt, changed = t2, true
				}
			}
			if kind == "deferclosure" {
				if t2 := deferClosures(f, txt, base); t2 != txt {
					txt, changed = t2, true
				}
			}
			if kind == "reversefuncs" || (kind == "both" && !changed) {
				// (after invertif the offsets of the AST no longer fit the text: "both" reverses
				// only files that invertif left alone)
				t2 := reverseFuncs(f, txt, base)
				if t2 != txt {
					txt, changed = t2, true
				}
			}
			if changed {
				out[pos.Filename] = []byte(txt)
			}
		}
	}
	return out, nil
}

func invertIfs(f *ast.File, src string, base int) string {
	var render func(n ast.Node, from, to int) string
	// render emits src[from:to], replacing the outermost invertible if statements inside
	render = func(root ast.Node, from, to int) string {
		var tops []*ast.IfStmt
		ast.Inspect(root, func(n ast.Node) bool {
			if n == nil {
				return false
			}
			if is, ok := n.(*ast.IfStmt); ok && n != root {
				if _, isBlock := is.Else.(*ast.BlockStmt); isBlock {
					s, e := int(is.Pos())-base, int(is.End())-base
					if s >= from && e <= to {
						tops = append(tops, is)
						return false
					}
				}
			}
			return true
		})
		sort.Slice(tops, func(i, j int) bool { return tops[i].Pos() < tops[j].Pos() })
		var sb strings.Builder
		cur := from
		for _, is := range tops {
			s, e := int(is.Pos())-base, int(is.End())-base
			if s < cur {
				continue
			}
			sb.WriteString(src[cur:s])
			sb.WriteString("if ")
			if is.Init != nil {
				sb.WriteString(src[int(is.Init.Pos())-base : int(is.Init.End())-base])
				sb.WriteString("; ")
			}
			sb.WriteString("!(")
			sb.WriteString(render(is.Cond, int(is.Cond.Pos())-base, int(is.Cond.End())-base))
			sb.WriteString(") ")
			el := is.Else.(*ast.BlockStmt)
			sb.WriteString(render(el, int(el.Pos())-base, int(el.End())-base))
			sb.WriteString(" else ")
			sb.WriteString(render(is.Body, int(is.Body.Pos())-base, int(is.Body.End())-base))
			cur = e
		}
		sb.WriteString(src[cur:to])
		return sb.String()
	}
	return render(f, 0, len(src))
}

func reverseFuncs(f *ast.File, src string, base int) string {
	type rng struct{ s, e int }
	var slots []rng
	for _, d := range f.Decls {
		fd, ok := d.(*ast.FuncDecl)
		if !ok || fd.Name.Name == "init" {
			continue
		}
		s := int(fd.Pos()) - base
		if fd.Doc != nil {
			s = int(fd.Doc.Pos()) - base
		}
		slots = append(slots, rng{s, int(fd.End()) - base})
	}
	if len(slots) < 2 {
		return src
	}
	var sb strings.Builder
	cur := 0
	for i, sl := range slots {
		sb.WriteString(src[cur:sl.s])
		o := slots[len(slots)-1-i]
		sb.WriteString(src[o.s:o.e])
		cur = sl.e
	}
	sb.WriteString(src[cur:])
	return sb.String()
}

type textEdit struct {
	s, e int
	txt  string
}

func applyEdits(src string, es []textEdit) string {
	sort.Slice(es, func(i, j int) bool { return es[i].s > es[j].s })
	for _, e := range es {
		src = src[:e.s] + e.txt + src[e.e:]
	}
	return src
}

func condLocals(f *ast.File, src string, base int) string {
	var es []textEdit
	n := 0
	visitList := func(list []ast.Stmt) {
		for _, st := range list {
			is, ok := st.(*ast.IfStmt)
			if !ok || is.Init != nil {
				continue
			}
			be, ok := is.Cond.(*ast.BinaryExpr)
			if !ok || (be.Op.String() != "&&" && be.Op.String() != "||") {
				continue
			}
			n++
			name := "cndLocal" + itoa(n)
			cs, ce := int(is.Cond.Pos())-base, int(is.Cond.End())-base
			es = append(es, textEdit{cs, ce, name})
			es = append(es, textEdit{int(is.Pos()) - base, int(is.Pos()) - base, name + " := " + src[cs:ce] + "\n"})
		}
	}
	ast.Inspect(f, func(nd ast.Node) bool {
		switch x := nd.(type) {
		case *ast.BlockStmt:
			visitList(x.List)
		case *ast.CaseClause:
			visitList(x.Body)
		case *ast.CommClause:
			visitList(x.Body)
		}
		return true
	})
	return applyEdits(src, es)
}

func itoa(n int) string {
	if n == 0 {
		return "0"
	}
	s := ""
	for n > 0 {
		s = string(rune('0'+n%10)) + s
		n /= 10
	}
	return s
}

func deferClosures(f *ast.File, src string, base int) string {
	var es []textEdit
	ast.Inspect(f, func(nd ast.Node) bool {
		d, ok := nd.(*ast.DeferStmt)
		if !ok || len(d.Call.Args) != 0 {
			return true
		}
		if _, isLit := d.Call.Fun.(*ast.FuncLit); isLit {
			return true
		}
		cs, ce := int(d.Call.Pos())-base, int(d.Call.End())-base
		es = append(es, textEdit{cs, ce, "func() { " + src[cs:ce] + " }()"})
		return true
	})
	return applyEdits(src, es)
}
