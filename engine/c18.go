package main

import (
	"fmt"
	"go/constant"
	"go/token"
	"go/types"
	"sort"
	"strings"

	"golang.org/x/tools/go/ssa"
)

func init() { register("C18", checkC18) }

type provSite struct {
	Fn   *ssa.Function
	Call *ssa.Call
	Kind string // OnCreated | OnUpdated | OnDeleted
}

func processorCalls(w *World) []provSite {
	sp := w.Named("internal/rules/rule", "SetProcessor")
	var out []provSite
	if sp == nil {
		return nil
	}
	for _, fn := range w.Funcs {
		p := fnPkgPath(fn)
		if w.isMockFn(fn) || !strings.Contains(p, "/internal/rules/provider/") || strings.Contains(p, "/kubernetes") {
			continue
		}
		for _, c := range findCalls(fn, func(c *ssa.CallCommon) bool { return c.IsInvoke() && types.Identical(c.Value.Type(), sp) }) {
			out = append(out, provSite{fn, c, c.Common().Method.Name()})
		}
	}
	return out
}

// stateWrite: an instruction that records / forgets the hash of a source in the provider's state.
type stateWrite struct {
	In     ssa.Instruction
	Delete bool
	Val    ssa.Value
}

func stateWrites(fn *ssa.Function) []stateWrite {
	var out []stateWrite
	for _, c := range callsIn(fn) {
		switch callName(c.Common()) {
		case "sync.Map.Store":
			out = append(out, stateWrite{In: c, Val: c.Common().Args[2]})
		case "sync.Map.Swap", "sync.Map.LoadOrStore":
			out = append(out, stateWrite{In: c, Val: c.Common().Args[2]})
		case "sync.Map.CompareAndSwap":
			out = append(out, stateWrite{In: c, Val: c.Common().Args[3]})
		case "sync.Map.Delete", "sync.Map.LoadAndDelete", "sync.Map.CompareAndDelete":
			out = append(out, stateWrite{In: c, Delete: true})
		case "builtin.delete":
			out = append(out, stateWrite{In: c, Delete: true})
		}
	}
	eachInstr(fn, func(in ssa.Instruction) {
		if mu, ok := in.(*ssa.MapUpdate); ok {
			if strings.Contains(mu.Map.Type().String(), "State") || strings.Contains(strings.ToLower(mu.Map.Name()), "state") {
				out = append(out, stateWrite{In: in, Val: mu.Value})
			}
		}
	})
	return out
}

// knownFlag: v is the "entry present" boolean of a state lookup (sync.Map.Load*/Swap, or the
// comma-ok of an index expression on a map).
func knownFlag(v ssa.Value) bool {
	ex, ok := v.(*ssa.Extract)
	if !ok || ex.Index != 1 {
		return false
	}
	switch t := ex.Tuple.(type) {
	case *ssa.Call:
		n := callName(t.Common())
		return strings.HasPrefix(n, "sync.Map.Load") || n == "sync.Map.Swap"
	case *ssa.Lookup:
		_, isMap := t.X.Type().Underlying().(*types.Map)
		return t.CommaOk && isMap
	}
	return false
}

func isProcResult(v ssa.Value, calls []*ssa.Call) bool {
	for _, k := range calls {
		if isResult(k, 0)(v) {
			return true
		}
	}
	if p, ok := v.(*ssa.Phi); ok {
		all := len(p.Edges) > 0
		for _, e := range p.Edges {
			ok := false
			for _, k := range calls {
				if isResult(k, 0)(e) {
					ok = true
				}
			}
			if c, isC := e.(*ssa.Const); isC && c.Value == nil {
				ok = true // initial nil before a call was made
			}
			if !ok {
				all = false
			}
		}
		return all
	}
	return false
}

func checkC18(w *World, r *Report) {
	sites := processorCalls(w)
	if len(sites) < 9 {
		r.Undecided(nil, fmt.Sprintf("only %d processor calls found in the hash-based providers", len(sites)))
		return
	}
	byFn := map[*ssa.Function][]provSite{}
	for _, s := range sites {
		byFn[s.Fn] = append(byFn[s.Fn], s)
	}
	ri1 := r.Rule("C18.1", 6, "a source's hash is recorded only after the processor accepted that content, and forgotten only after it accepted the removal")
	ri2 := r.Rule("C18.2", 6, "an update is applied only if the content hash differs, a creation only for an unknown source; unchanged content triggers no processor call")
	ri4 := r.Rule("C18.4", 3, "a vanished or emptied source is unloaded only if it was loaded")
	// a helper that does nothing but hand the rule set to the processor and return its verdict
	// stands for the processor call at its call sites (state writes of the caller are checked
	// against the helper's result)
	verdictHelper := func(h *ssa.Function) (string, bool) {
		ss, ok := byFn[h]
		if !ok || len(stateWrites(h)) > 0 {
			return "", false
		}
		var calls []*ssa.Call
		kind := ""
		for _, s := range ss {
			calls = append(calls, s.Call)
			k := "add"
			if s.Kind == "OnDeleted" {
				k = "del"
			}
			if kind != "" && kind != k {
				return "", false
			}
			kind = k
		}
		for _, ret := range returnsOf(h) {
			if len(ret.Results) == 0 || !isProcResult(ret.Results[len(ret.Results)-1], calls) {
				return "", false
			}
		}
		return kind, true
	}
	type c181 struct {
		fn   *ssa.Function
		add  []*ssa.Call
		del  []*ssa.Call
		own  []provSite
		argN map[*ssa.Call]int // index of the rule-set argument of a stand-in call
	}
	var hosts []c181
	for _, fn := range w.Funcs {
		p := fnPkgPath(fn)
		if w.isMockFn(fn) || !strings.Contains(p, "/internal/rules/provider/") || strings.Contains(p, "/kubernetes") {
			continue
		}
		h := c181{fn: fn, own: byFn[fn], argN: map[*ssa.Call]int{}}
		for _, s := range byFn[fn] {
			if s.Kind == "OnDeleted" {
				h.del = append(h.del, s.Call)
			} else {
				h.add = append(h.add, s.Call)
			}
		}
		for _, ci := range callsIn(fn) {
			c, ok := ci.(*ssa.Call)
			if !ok {
				continue
			}
			callee := c.Common().StaticCallee()
			if callee == nil || callee == fn || fnPkgPath(callee) != p {
				continue
			}
			if kind, ok := verdictHelper(callee); ok {
				// which argument is the rule set handed on?
				for i, a := range c.Common().Args {
					if strings.Contains(a.Type().String(), "RuleSet") {
						h.argN[c] = i
					}
				}
				if kind == "del" {
					h.del = append(h.del, c)
				} else {
					h.add = append(h.add, c)
				}
			}
		}
		if len(h.add)+len(h.del) > 0 {
			hosts = append(hosts, h)
		}
	}
	sort.Slice(hosts, func(i, j int) bool { return hosts[i].fn.String() < hosts[j].fn.String() })
	for _, host := range hosts {
		fn, ss := host.fn, host.own
		r.Analysed(w.FnName(fn))
		addCalls, delCalls := host.add, host.del
		n := 0
		for _, sw := range stateWrites(fn) {
			n++
			calls := addCalls
			if sw.Delete {
				calls = delCalls
			}
			ok := onlyVia(fn, sw.In.Block(), func(f Fact) bool { return f.Kind == FNil && isProcResult(f.V, calls) })
			// the write follows the call (not before it)
			after := false
			for _, k := range calls {
				if reachableAfter(k, sw.In) {
					after = true
				}
			}
			msg := "the state is changed on a path where the processor did not accept the change (the next poll then believes the content is loaded / unloaded)"
			okHash := true
			if !sw.Delete && sw.Val != nil {
				// the recorded hash belongs to the rule set handed to the processor
				okHash = false
				for _, k := range calls {
					rs := k.Common().Args[0]
					if i, standIn := host.argN[k]; standIn {
						rs = k.Common().Args[i]
					}
					// the value stored is <rs>.Hash for the very value rs that was handed over (SSA value
					// identity: an element of the same slice at another index is a different value)
					if ld, isLd := stripConv(sw.Val).(*ssa.UnOp); isLd {
						if fa, isFa := ld.X.(*ssa.FieldAddr); isFa {
							if f := fieldOf(fa.X.Type(), fa.Field); f != nil && f.Name() == "Hash" {
								base := fa.X
								for { // Hash may be promoted through an embedded struct
									in, isIn := base.(*ssa.FieldAddr)
									if !isIn {
										break
									}
									base = in.X
								}
								if base == rs || sameValue(base, rs) {
									okHash = true
								}
							}
						}
					}
				}
				if !okHash {
					msg = "the recorded hash is not the hash of the rule set that was handed to the processor"
				}
			}
			kind := "record"
			if sw.Delete {
				kind = "forget"
			}
			r.Ob(ri1, fmt.Sprintf("%s|%s#%d", w.FnName(fn), kind, n), sw.In.Pos(), ok && after && okHash, msg)
		}
		for _, s := range ss {
			switch s.Kind {
			case "OnUpdated":
				ok := onlyVia(fn, s.Call.Block(), func(f Fact) bool {
					if f.Kind != FFalse {
						return false
					}
					c, _ := resultOfCall(f.V)
					if c == nil {
						return false
					}
					n := callName(c.Common())
					if n != "bytes.Equal" && n != "slices.Equal" {
						return false
					}
					for _, a := range c.Common().Args {
						if pathEndsWith(a, "Hash") {
							return true
						}
					}
					return false
				})
				r.Ob(ri2, w.FnName(fn)+"|update-only-if-hash-differs", s.Call.Pos(), ok, "OnUpdated is reachable without the content hash having been compared and found different (unchanged content would be re-applied, or changed content detection is broken)")
			case "OnCreated":
				ok := onlyVia(fn, s.Call.Block(), func(f Fact) bool {
					// unknown source: empty stored hash, failed state lookup, or membership in the new-ids list
					if l, k := lenFact(f); l != nil && k == "empty" {
						return true
					}
					if f.Kind == FFalse && knownFlag(f.V) {
						return true
					}
					if f.Kind == FTrue {
						if c, _ := resultOfCall(f.V); c != nil && strings.HasPrefix(callName(c.Common()), "slices.Contains") {
							return true
						}
					}
					return false
				})
				r.Ob(ri2, w.FnName(fn)+"|create-only-if-unknown", s.Call.Pos(), ok, "OnCreated is reachable for a source that is already known")
			case "OnDeleted":
				ok := onlyVia(fn, s.Call.Block(), func(f Fact) bool {
					return f.Kind == FTrue && knownFlag(f.V)
				})
				if !ok {
					// iteration over ids taken from the state (maps.Keys(state) or range over the state map)
					if dependsOn(w, s.Call.Common().Args[0], func(x ssa.Value) bool {
						if c, isC := x.(*ssa.Call); isC && strings.Contains(callName(c.Common()), "maps.Keys") {
							return true
						}
						if nx, isNext := x.(*ssa.Next); isNext && !nx.IsString {
							if rg, isRange := nx.Iter.(*ssa.Range); isRange {
								if _, isMap := rg.X.Type().Underlying().(*types.Map); isMap {
									return strings.Contains(rg.X.Type().String(), "State") || strings.Contains(strings.ToLower(rg.X.Name()), "state")
								}
							}
						}
						return false
					}) {
						ok = true
					}
				}
				r.Ob(ri4, w.FnName(fn)+"|delete-only-if-known", s.Call.Pos(), ok, "OnDeleted is reachable for a source that was never loaded")
			}
		}
	}
	// C18.8: unloading a vanished source does not depend on another source's new content being accepted
	ri8 := r.Rule("C18.8", 1, "where a provider applies additions/updates and removals in one pass, a rejected addition or update does not make the removals of that pass unreachable")
	n8 := 0
	for fn, ss := range byFn {
		for _, a := range ss {
			if a.Kind == "OnDeleted" {
				continue
			}
			for _, d := range ss {
				if d.Kind != "OnDeleted" {
					continue
				}
				n8++
				if !reachableAfter(a.Call, d.Call) {
					// removals are not downstream of this call at all
					r.Ob(ri8, fmt.Sprintf("%s|%s-then-OnDeleted", w.FnName(fn), a.Kind), a.Call.Pos(), true, "")
					continue
				}
				ok := false
				for _, b := range fn.Blocks {
					for bi := range b.Succs {
						for _, f := range edgeFacts(b, bi) {
							if f.Kind == FNonNil && isResult(a.Call, 0)(f.V) && reachFromEdge(b, bi, nil)[d.Call.Block()] {
								ok = true
							}
						}
					}
				}
				r.Ob(ri8, fmt.Sprintf("%s|%s-then-OnDeleted", w.FnName(fn), a.Kind), a.Call.Pos(), ok,
					"the removal of vanished sources comes after "+a.Kind+" in the same pass and is skipped when the processor rejects that rule set: a source that no longer exists stays loaded for as long as another source's content is rejected")
			}
		}
	}
	if n8 == 0 {
		r.Undecided(ri8, "no provider function both adds/updates and removes rule sets")
	}
	// C18.3: an invalid new version (load / parse error other than 'empty' or 'gone') neither reaches the processor nor the state
	ri3 := r.Rule("C18.3", 1, "a new version that cannot be loaded leaves state and processor untouched unless it is classified as empty or gone")
	n3 := 0
	// 1: not yet classified, 2: reaches a processor call / state write, 3: does not
	touching := map[*ssa.Function]int{}
	for _, fn := range w.Funcs {
		if strings.Contains(fnPkgPath(fn), "/internal/rules/provider/") && !w.isMockFn(fn) {
			touching[fn] = 1
		}
	}
	// candidates: provider functions that load a rule set and then (directly or through a helper)
	// talk to the processor or touch the state
	var c3 []*ssa.Function
	for _, fn := range w.Funcs {
		if w.isMockFn(fn) || !strings.Contains(fnPkgPath(fn), "/internal/rules/provider/") || strings.Contains(fnPkgPath(fn), "/kubernetes") || fn.Parent() != nil {
			continue
		}
		_, direct := byFn[fn]
		viaHelper := false
		for _, ci := range callsIn(fn) {
			if callee := ci.Common().StaticCallee(); callee != nil && callee != fn && w.inModule(callee) && fnPkgPath(callee) == fnPkgPath(fn) {
				if _, has := byFn[callee]; has {
					viaHelper = true
				}
			}
		}
		if direct || viaHelper {
			c3 = append(c3, fn)
		}
	}
	sort.Slice(c3, func(i, j int) bool { return c3[i].String() < c3[j].String() })
	for _, fn := range c3 {
		for _, lc := range findCalls(fn, func(c *ssa.CallCommon) bool {
			callee := c.StaticCallee()
			return callee != nil && w.inModule(callee) && lastResultIsError(c.Signature()) && c.Signature().Results().Len() == 2 &&
				strings.Contains(c.Signature().Results().At(0).Type().String(), "RuleSet") && callee.Signature.Recv() != nil
		}) {
			n3++
			ei := errIdx(lc)
			cut := factCut(func(f Fact) bool {
				if f.Kind != FTrue {
					return false
				}
				c, _ := resultOfCall(f.V)
				return c != nil && callName(c.Common()) == "errors.Is" && isResult(lc, ei)(c.Common().Args[0])
			})
			ok := true
			for _, b := range fn.Blocks {
				for bi := range b.Succs {
					for _, f := range edgeFacts(b, bi) {
						if f.Kind == FNonNil && isResult(lc, ei)(f.V) {
							seen := reachFromEdge(b, bi, cut)
							for _, s := range byFn[fn] {
								if seen[s.Call.Block()] {
									ok = false
								}
							}
							for _, sw := range stateWrites(fn) {
								if seen[sw.In.Block()] {
									ok = false
								}
							}
							// ... nor through a helper that calls the processor or writes the state
							for blk := range seen {
								for _, in := range blk.Instrs {
									c, isC := in.(*ssa.Call)
									if !isC {
										continue
									}
									callee := c.Common().StaticCallee()
									if callee == nil || !w.inModule(callee) || touching[callee] == 0 {
										continue
									}
									if touching[callee] == 1 {
										if reach, _ := w.CG().Reachable([]*ssa.Function{callee}, nil); true {
											touching[callee] = 3
											for g := range reach {
												if _, has := byFn[g]; has || (strings.Contains(fnPkgPath(g), "/internal/rules/provider/") && len(stateWrites(g)) > 0) {
													touching[callee] = 2
												}
											}
										}
									}
									if touching[callee] == 2 {
										ok = false
									}
								}
							}
						}
					}
				}
			}
			r.Ob(ri3, w.FnName(fn)+"|invalid-version-ignored", lc.Pos(), ok, "after the rule set could not be loaded, the processor or the state can still be reached without the error having been classified as 'empty' / 'not found'")
		}
	}
	if n3 == 0 {
		r.Undecided(ri3, "no provider loads a rule set and calls the processor in one function")
	}
	touches := func(callee *ssa.Function) bool {
		if touching[callee] == 1 {
			touching[callee] = 3
			reach, _ := w.CG().Reachable([]*ssa.Function{callee}, nil)
			reach[callee] = nil
			for g := range reach {
				if _, has := byFn[g]; has || (strings.Contains(fnPkgPath(g), "/internal/rules/provider/") && len(stateWrites(g)) > 0) {
					touching[callee] = 2
				}
			}
		}
		return touching[callee] == 2
	}
	c18InvalidVersion(w, r, byFn, touches)
	c18SourceAndHash(w, r, byFn)
	c18Events(w, r, touches)
	c18Singleton(w, r, byFn, touches)
	c18EmptyMeansEmpty(w, r)
	c18StateNotACopy(w, r, byFn)
}

// errorsIsTarget returns the package-level sentinel an errors.Is call tests for.
func errorsIsTarget(c *ssa.Call) *types.Var {
	if c == nil || callName(c.Common()) != "errors.Is" || len(c.Common().Args) != 2 {
		return nil
	}
	if u, ok := stripConv(c.Common().Args[1]).(*ssa.UnOp); ok {
		if g, ok := u.X.(*ssa.Global); ok {
			if v, ok := g.Object().(*types.Var); ok {
				return v
			}
		}
	}
	return nil
}

// c18InvalidVersion (C18.3b): the parse failure of a new version is given a sentinel kind by the
// loader/fetcher, and the consumer reaches the processor/state after a failed fetch only on paths
// where that kind was tested and found absent, or the error was positively classified as something
// else (empty, gone).
func c18InvalidVersion(w *World, r *Report, byFn map[*ssa.Function][]provSite, touches func(*ssa.Function) bool) {
	riA := r.Rule("C18.3b", 6, "a version that cannot be parsed is reported with a sentinel kind, and after a failed load the processor and the state are reachable only where that kind was excluded or the error was classified as empty/gone")
	parseKinds := map[string]map[*types.Var]bool{} // provider package -> kinds of a parse failure
	loaders := map[*ssa.Function]bool{}
	for _, fn := range w.Funcs {
		p := fnPkgPath(fn)
		if w.isMockFn(fn) || !strings.Contains(p, "/internal/rules/provider/") {
			continue
		}
		for _, pc := range findCalls(fn, func(c *ssa.CallCommon) bool {
			f := c.StaticCallee()
			return f != nil && f.Name() == "ParseRules" && strings.HasSuffix(fnPkgPath(f), "/internal/rules/config")
		}) {
			r.Analysed(w.FnName(fn))
			loaders[fn] = true
			ei := errIdx(pc)
			var common map[*types.Var]bool
			nret := 0
			for _, b := range fn.Blocks {
				for bi := range b.Succs {
					for _, f := range edgeFacts(b, bi) {
						if f.Kind != FNonNil || !isResult(pc, ei)(f.V) {
							continue
						}
						seen := reachFromEdge(b, bi, nil)
						for _, ret := range returnsOf(fn) {
							if !seen[ret.Block()] {
								continue
							}
							nret++
							ks := mustKinds(w, ret.Results[len(ret.Results)-1], 0)
							if common == nil {
								common = map[*types.Var]bool{}
								for k := range ks {
									common[k] = true
								}
							} else {
								for k := range common {
									if !ks[k] {
										delete(common, k)
									}
								}
							}
						}
					}
				}
			}
			// the sentinel the parser itself uses for "empty" is not the kind of an invalid version
			for k := range common {
				if strings.Contains(k.Name(), "Empty") {
					delete(common, k)
				}
			}
			r.Ob(riA, w.FnName(fn)+"|parse-failure-has-kind", pc.Pos(), nret > 0 && len(common) > 0, "the error returned when the content cannot be parsed carries no sentinel kind the provider could recognise it by")
			if parseKinds[p] == nil {
				parseKinds[p] = map[*types.Var]bool{}
			}
			for k := range common {
				parseKinds[p][k] = true
			}
		}
	}
	// callers of the loaders (directly or through the package's fetcher interface)
	for fn := range byFn {
		p := fnPkgPath(fn)
		_ = p
	}
	for _, fn := range w.Funcs {
		p := fnPkgPath(fn)
		if w.isMockFn(fn) || parseKinds[p] == nil {
			continue
		}
		for _, lci := range callsIn(fn) {
			lc, isCall := lci.(*ssa.Call)
			if !isCall {
				continue
			}
			cc := lc.Common()
			if !lastResultIsError(cc.Signature()) || cc.Signature().Results().Len() != 2 || !strings.Contains(cc.Signature().Results().At(0).Type().String(), "RuleSet") {
				continue
			}
			var callees []*ssa.Function
			if cc.IsInvoke() {
				callees = w.resolveInvoke(cc)
			} else if f := cc.StaticCallee(); f != nil {
				callees = []*ssa.Function{f}
			}
			isLoader := false
			for _, f := range callees {
				if reach, _ := w.CG().Reachable([]*ssa.Function{f}, nil); true {
					if loaders[f] {
						isLoader = true
					}
					for g := range reach {
						if loaders[g] {
							isLoader = true
						}
					}
				}
			}
			if !isLoader {
				continue
			}
			// does this function do anything with processor/state afterwards?
			ei := errIdx(lc)
			cut := factCut(func(f Fact) bool {
				c, _ := resultOfCall(f.V)
				t := errorsIsTarget(c)
				if t == nil || !isResult(lc, ei)(c.Common().Args[0]) {
					return false
				}
				if parseKinds[p][t] {
					return f.Kind == FFalse
				}
				return f.Kind == FTrue
			})
			ok, relevant := true, false
			for _, b := range fn.Blocks {
				for bi := range b.Succs {
					for _, f := range edgeFacts(b, bi) {
						if f.Kind != FNonNil || !isResult(lc, ei)(f.V) {
							continue
						}
						for pass, ct := range []edgePred{nil, cut} {
							seen := reachFromEdge(b, bi, ct)
							for blk := range seen {
								for _, in := range blk.Instrs {
									c, isC := in.(*ssa.Call)
									if !isC {
										continue
									}
									hit := false
									if c.Common().IsInvoke() {
										for _, s := range byFn[fn] {
											if s.Call == c {
												hit = true
											}
										}
									} else if callee := c.Common().StaticCallee(); callee != nil && w.inModule(callee) && touches(callee) {
										hit = true
									}
									if hit && pass == 0 {
										relevant = true
									}
									if hit && pass == 1 {
										ok = false
									}
								}
								for _, sw := range stateWrites(fn) {
									if sw.In.Block() == blk {
										if pass == 0 {
											relevant = true
										} else {
											ok = false
										}
									}
								}
							}
						}
					}
				}
			}
			if !relevant {
				continue // the error path never comes near processor or state (plain propagation)
			}
			r.Analysed(w.FnName(fn))
			r.Ob(riA, w.FnName(fn)+"|after-failed-load:"+callName(cc), lc.Pos(), ok, "after a failed load the processor or the state is reachable although the error may still be the 'cannot be parsed' kind (an invalid new version would unload or replace the previous one)")
		}
	}
}

// mustKinds: the sentinels that are certainly in the chain of an error value (the may-analysis of
// errkinds.go is too generous to conclude "not this kind => not this failure").
func mustKinds(w *World, v ssa.Value, depth int) map[*types.Var]bool {
	out := map[*types.Var]bool{}
	if depth > 4 {
		return out
	}
	union := func(m map[*types.Var]bool) {
		for k := range m {
			out[k] = true
		}
	}
	switch x := stripConv(v).(type) {
	case *ssa.UnOp:
		if g, ok := x.X.(*ssa.Global); ok {
			if gv, ok := g.Object().(*types.Var); ok {
				out[gv] = true
			}
		}
		if a, ok := x.X.(*ssa.Alloc); ok {
			if st := lastStoreBefore(x, a); st != nil {
				return mustKinds(w, st.Val, depth+1)
			}
		}
	case *ssa.Phi:
		first := true
		for _, e := range x.Edges {
			m := mustKinds(w, e, depth+1)
			if first {
				union(m)
				first = false
				continue
			}
			for k := range out {
				if !m[k] {
					delete(out, k)
				}
			}
		}
	case *ssa.Extract:
		if c, ok := x.Tuple.(*ssa.Call); ok {
			union(mustKindsCall(w, c, x.Index, depth))
		}
	case *ssa.Call:
		union(mustKindsCall(w, x, 0, depth))
	}
	return out
}

func mustKindsCall(w *World, c *ssa.Call, idx, depth int) map[*types.Var]bool {
	out := map[*types.Var]bool{}
	cc := c.Common()
	name := callName(cc)
	switch {
	case strings.HasPrefix(name, errorchainPkg+".New"):
		if len(cc.Args) > 0 {
			return mustKinds(w, cc.Args[0], depth+1)
		}
	case name == errorchainPkg+".ErrorChain.CausedBy":
		for _, a := range cc.Args[:2] {
			for k := range mustKinds(w, a, depth+1) {
				out[k] = true
			}
		}
		return out
	case name == errorchainPkg+".ErrorChain.WithErrorContext":
		return mustKinds(w, cc.Args[0], depth+1)
	}
	f := cc.StaticCallee()
	if f == nil || f.Blocks == nil || !w.inModule(f) {
		return out
	}
	first := true
	for _, ret := range returnsOf(f) {
		if idx >= len(ret.Results) {
			continue
		}
		rv := ret.Results[idx]
		if ld, ok := rv.(*ssa.UnOp); ok {
			if a, ok := ld.X.(*ssa.Alloc); ok {
				if st := lastStoreBefore(ld, a); st != nil {
					rv = st.Val
				}
			}
		}
		if k, ok := rv.(*ssa.Const); ok && k.Value == nil {
			continue // nil error: not a failure
		}
		m := mustKinds(w, rv, depth+1)
		if first {
			for k := range m {
				out[k] = true
			}
			first = false
			continue
		}
		for k := range out {
			if !m[k] {
				delete(out, k)
			}
		}
	}
	return out
}

// ---------------------------------------------------------------------------------------------
// C18.5 - C18.7
// ---------------------------------------------------------------------------------------------

// strShape reduces a string-valued expression to its constant skeleton: literals are kept,
// everything else is an opaque part ("\x00"); + and fmt.Sprintf with %s/%v/%d verbs are flattened,
// calls to module functions keep their name.
func strShape(w *World, v ssa.Value, depth int) []string {
	v = stripConv(v)
	if depth > 6 {
		return []string{"\x00"}
	}
	switch x := v.(type) {
	case *ssa.Const:
		if x.Value != nil && x.Value.Kind() == constant.String {
			return []string{constant.StringVal(x.Value)}
		}
	case *ssa.BinOp:
		if x.Op == token.ADD {
			return mergeShape(append(strShape(w, x.X, depth+1), strShape(w, x.Y, depth+1)...))
		}
	case *ssa.Call:
		cc := x.Common()
		if callName(cc) == "fmt.Sprintf" && len(cc.Args) >= 1 {
			if f, ok := constString(cc.Args[0]); ok {
				var out []string
				rest := f
				for {
					i := strings.IndexByte(rest, '%')
					if i < 0 || i+1 >= len(rest) {
						out = append(out, rest)
						break
					}
					out = append(out, rest[:i])
					if rest[i+1] == '%' {
						out = append(out, "%")
					} else {
						out = append(out, "\x00")
					}
					rest = rest[i+2:]
				}
				return mergeShape(out)
			}
		}
		if f := cc.StaticCallee(); f != nil && w.inModule(f) && !cc.IsInvoke() && f.Signature.Recv() == nil {
			return []string{"call:" + f.Name()}
		}
	}
	return []string{"\x00"}
}

// opaqueDescs describes, in order, the non-constant parts of a string expression: a method of a
// module type ("method (*T).ID"), a field ("field UID"), a parameter ("parameter"), else "?".
func opaqueDescs(w *World, v ssa.Value, depth int) []string {
	v = stripConv(v)
	if depth > 6 {
		return []string{"?"}
	}
	switch x := v.(type) {
	case *ssa.Const:
		return nil
	case *ssa.BinOp:
		if x.Op == token.ADD {
			return append(opaqueDescs(w, x.X, depth+1), opaqueDescs(w, x.Y, depth+1)...)
		}
	case *ssa.Parameter:
		return []string{"a parameter"}
	case *ssa.Call:
		cc := x.Common()
		if callName(cc) == "fmt.Sprintf" && len(cc.Args) >= 2 {
			var out []string
			for _, el := range sliceLiteralElems(cc.Args[1]) {
				if el == nil {
					out = append(out, "?")
					continue
				}
				if _, isC := stripConv(el).(*ssa.Const); isC {
					out = append(out, "?")
					continue
				}
				d := opaqueDescs(w, el, depth+1)
				if len(d) == 1 {
					out = append(out, d[0])
				} else {
					out = append(out, "?")
				}
			}
			return out
		}
		if cc.IsInvoke() {
			d := "method " + cc.Method.Name()
			// getters among the implementations stand for the field they return
			for _, impl := range w.resolveInvoke(cc) {
				if impl.Blocks == nil || !w.inModule(impl) {
					continue
				}
				rets := returnsOf(impl)
				if len(rets) == 1 && len(rets[0].Results) == 1 {
					if fd := opaqueDescs(w, rets[0].Results[0], depth+1); len(fd) == 1 && strings.HasPrefix(fd[0], "field ") {
						d += "|" + fd[0]
					}
				}
			}
			return []string{d}
		}
		if f := cc.StaticCallee(); f != nil && f.Signature.Recv() != nil {
			// a getter stands for the field it returns
			if f.Blocks != nil && w.inModule(f) {
				rets := returnsOf(f)
				if len(rets) == 1 && len(rets[0].Results) == 1 {
					if d := opaqueDescs(w, rets[0].Results[0], depth+1); len(d) == 1 && strings.HasPrefix(d[0], "field ") {
						return []string{"method " + f.Name() + "|" + d[0]}
					}
				}
			}
			return []string{"method " + f.Name()}
		}
		return []string{"?"}
	case *ssa.UnOp:
		if _, fld := fieldLoad(x); fld != nil {
			return []string{"field " + fld.Name()}
		}
	case *ssa.Field:
		if _, fld := fieldLoad(x); fld != nil {
			return []string{"field " + fld.Name()}
		}
	}
	return []string{"?"}
}

// descCompatible: two descriptions (alternatives separated by '|') share an alternative.
func descCompatible(a, b string) bool {
	for _, x := range strings.Split(a, "|") {
		for _, y := range strings.Split(b, "|") {
			if x == y {
				return true
			}
		}
	}
	return false
}

func mergeShape(parts []string) []string {
	var out []string
	for _, p := range parts {
		if p == "" {
			continue
		}
		if n := len(out); n > 0 && out[n-1] != "\x00" && p != "\x00" && !strings.HasPrefix(out[n-1], "call:") && !strings.HasPrefix(p, "call:") {
			out[n-1] += p
			continue
		}
		if n := len(out); n > 0 && out[n-1] == "\x00" && p == "\x00" {
			out = append(out, p) // two adjacent opaque parts stay two
			continue
		}
		out = append(out, p)
	}
	return out
}

func shapeString(s []string) string {
	var b strings.Builder
	for _, p := range s {
		if p == "\x00" {
			b.WriteString("<?>")
		} else {
			b.WriteString(strconvQuote(p))
		}
	}
	return b.String()
}

func strconvQuote(s string) string { return fmt.Sprintf("%q", s) }

type sourceStore struct {
	Fn    *ssa.Function
	St    *ssa.Store
	Shape []string
}

// sourceStores: every store to the Source field of a rule set's meta data in a provider package.
func sourceStores(w *World, pkg string) []sourceStore {
	var out []sourceStore
	for _, fn := range w.Funcs {
		if fnPkgPath(fn) != pkg || w.isMockFn(fn) {
			continue
		}
		eachInstr(fn, func(in ssa.Instruction) {
			st, ok := in.(*ssa.Store)
			if !ok {
				return
			}
			fa, ok := st.Addr.(*ssa.FieldAddr)
			if !ok {
				return
			}
			f := fieldOf(fa.X.Type(), fa.Field)
			if f == nil || f.Name() != "Source" || f.Pkg() == nil || !strings.HasSuffix(f.Pkg().Path(), "/internal/rules/config") {
				return
			}
			out = append(out, sourceStore{fn, st, strShape(w, st.Val, 0)})
		})
	}
	sort.Slice(out, func(i, j int) bool { return w.Pos(out[i].St.Pos()) < w.Pos(out[j].St.Pos()) })
	return out
}

func c18SourceAndHash(w *World, r *Report, byFn map[*ssa.Function][]provSite) {
	ri5 := r.Rule("C18.5", 3, "a vanished source is announced to the processor under the Source its rule set was created with (same constant skeleton; where the state is keyed by the Source itself, the key is handed over unchanged)")
	ri6 := r.Rule("C18.6", 3, "the hash recorded for change detection is a digest computed by the loader over the bytes it parsed")
	pkgs := map[string]bool{}
	for fn := range byFn {
		pkgs[fnPkgPath(fn)] = true
	}
	var pl []string
	for p := range pkgs {
		pl = append(pl, p)
	}
	sort.Strings(pl)
	for _, pkg := range pl {
		short := pkg[strings.LastIndex(pkg, "/")+1:]
		// is the state keyed by the Source?
		keyIsSource := false
		var delFns []*ssa.Function
		for fn, ss := range byFn {
			if fnPkgPath(fn) != pkg {
				continue
			}
			for _, s := range ss {
				if s.Kind == "OnDeleted" {
					delFns = append(delFns, fn)
				}
			}
			for _, sw := range stateWrites(fn) {
				if sw.Delete {
					continue
				}
				var key ssa.Value
				switch x := sw.In.(type) {
				case *ssa.MapUpdate:
					key = x.Key
				case *ssa.Call:
					if len(x.Common().Args) > 1 {
						key = x.Common().Args[1]
					}
				}
				if key != nil && pathEndsWith(stripConv(key), "Source") {
					keyIsSource = true
				}
			}
		}
		stores := sourceStores(w, pkg)
		if len(stores) == 0 {
			r.Undecided(ri5, "no assignment of a rule set Source found in "+short)
			continue
		}
		if keyIsSource {
			// the deletion literal's Source must be the very key the state entry is deleted under
			n := 0
			for _, ss := range stores {
				isDel := false
				for _, d := range delFns {
					if d == ss.Fn {
						isDel = true
					}
				}
				if !isDel {
					continue
				}
				n++
				ok := false
				for _, sw := range stateWrites(ss.Fn) {
					if !sw.Delete {
						continue
					}
					if c, isC := sw.In.(*ssa.Call); isC {
						args := c.Common().Args
						k := args[len(args)-1]
						if sameValue(k, ss.St.Val) || sameExpr(k, ss.St.Val) {
							ok = true
						}
					}
				}
				r.Analysed(w.FnName(ss.Fn))
				r.Ob(ri5, short+"|"+w.FnName(ss.Fn)+"|delete-source-is-state-key", ss.St.Pos(), ok,
					fmt.Sprintf("the state of %s is keyed by the rule set's Source, but the rule set announced as deleted carries %s instead of the key itself: the processor finds no rule with that source", short, shapeString(ss.Shape)))
			}
			if n == 0 {
				r.Undecided(ri5, "no Source assignment in the deleting function of "+short)
			}
		} else {
			ref := stores[0]
			ok := true
			msg := ""
			for _, ss := range stores[1:] {
				if shapeString(ss.Shape) != shapeString(ref.Shape) {
					ok = false
					msg = fmt.Sprintf("%s assigns Source as %s in %s but as %s in %s: creation and deletion do not name the same source", short, shapeString(ref.Shape), w.FnName(ref.Fn), shapeString(ss.Shape), w.FnName(ss.Fn))
				}
				// the variable parts must name the same thing: where both are recognisable (a method of the
				// endpoint, a field, a parameter) they must be of the same kind
				da, db := opaqueDescs(w, ref.St.Val, 0), opaqueDescs(w, ss.St.Val, 0)
				if len(da) == len(db) {
					for i := range da {
						if da[i] != "?" && db[i] != "?" && !descCompatible(da[i], db[i]) {
							ok = false
							msg = fmt.Sprintf("%s fills the variable part of Source with %s in %s but with %s in %s: the identifier under which a source is removed is not the one it was created with", short, da[i], w.FnName(ref.Fn), db[i], w.FnName(ss.Fn))
						}
					}
				}
				r.Analysed(w.FnName(ss.Fn))
			}
			if len(stores) < 2 {
				r.Undecided(ri5, "only one Source assignment in "+short+" (creation and deletion expected)")
				continue
			}
			r.Ob(ri5, short+"|source-skeletons-agree", ref.St.Pos(), ok, msg)
		}
	}
	// C18.6
	for _, fn := range w.Funcs {
		p := fnPkgPath(fn)
		if w.isMockFn(fn) || !pkgs[p] {
			continue
		}
		for _, pc := range findCalls(fn, func(c *ssa.CallCommon) bool {
			f := c.StaticCallee()
			return f != nil && f.Name() == "ParseRules" && strings.HasSuffix(fnPkgPath(f), "/internal/rules/config")
		}) {
			// the Hash stores of this loader
			var hashStores []*ssa.Store
			eachInstr(fn, func(in ssa.Instruction) {
				if st, ok := in.(*ssa.Store); ok {
					if fa, ok := st.Addr.(*ssa.FieldAddr); ok {
						if f := fieldOf(fa.X.Type(), fa.Field); f != nil && f.Name() == "Hash" {
							hashStores = append(hashStores, st)
						}
					}
				}
			})
			ok := len(hashStores) > 0
			why := "the loader does not set the rule set's Hash"
			reader := pc.Common().Args[1]
			for _, st := range hashStores {
				good := false
				dependsOn(w, st.Val, func(x ssa.Value) bool {
					c, isC := x.(*ssa.Call)
					if !isC {
						return false
					}
					cc := c.Common()
					if cc.IsInvoke() && cc.Method.Name() == "Sum" {
						// the hash.Hash must be fed by the reader handed to the parser
						h := cc.Value
						if dependsOn(w, reader, func(y ssa.Value) bool {
							tc, ok := y.(*ssa.Call)
							return ok && callName(tc.Common()) == "io.TeeReader" && sameValue(tc.Common().Args[1], h)
						}) {
							good = true
						}
					}
					if f := cc.StaticCallee(); f != nil && f.Pkg != nil && strings.HasPrefix(f.Pkg.Pkg.Path(), "crypto/") && strings.HasPrefix(f.Name(), "Sum") && len(cc.Args) == 1 {
						// digest of a byte slice the parser also reads
						b := cc.Args[0]
						if dependsOn(w, reader, func(y ssa.Value) bool { return sameValue(y, b) }) {
							good = true
						}
					}
					return false
				})
				if !good {
					ok = false
					why = "the recorded Hash is not a digest the loader computed over the parsed bytes (e.g. provider metadata that may be absent or stale): a content change may go unnoticed or be applied twice"
				}
			}
			r.Analysed(w.FnName(fn))
			r.Ob(ri6, w.FnName(fn)+"|hash-of-parsed-content", pc.Pos(), ok, why)
		}
	}
}

// c18Events (C18.7): the file-system event dispatcher, evaluated per single fsnotify operation.
func c18Events(w *World, r *Report, touches func(*ssa.Function) bool) {
	ri := r.Rule("C18.7", 4, "each file event that changes a source's presence or content is dispatched: create/write to the create-or-update handler, remove/rename to the delete handler")
	want := []struct {
		name string
		op   int64
		del  bool
	}{{"Create", 1, false}, {"Write", 2, false}, {"Remove", 4, true}, {"Rename", 8, true}}
	found := false
	for _, fn := range w.Funcs {
		if w.isMockFn(fn) || !strings.Contains(fnPkgPath(fn), "/internal/rules/provider/filesystem") {
			continue
		}
		// the dispatcher: takes the fsnotify event and calls the handlers that reach the processor
		takesEvent := false
		for _, pa := range fn.Params {
			if strings.HasSuffix(pa.Type().String(), "fsnotify.Event") {
				takesEvent = true
			}
		}
		nh := 0
		for _, c := range callsIn(fn) {
			if f := c.Common().StaticCallee(); f != nil && w.inModule(f) && touches(f) {
				nh++
			}
		}
		if !takesEvent || nh == 0 {
			continue
		}
		found = true
		r.Analysed(w.FnName(fn))
		var eval func(v ssa.Value, pred *ssa.BasicBlock, op int64) (bool, bool)
		eval = func(v ssa.Value, pred *ssa.BasicBlock, op int64) (bool, bool) {
			switch x := v.(type) {
			case *ssa.Const:
				if x.Value != nil && x.Value.Kind() == constant.Bool {
					return constant.BoolVal(x.Value), true
				}
			case *ssa.Call:
				if n := callName(x.Common()); strings.HasSuffix(n, "fsnotify.Event.Has") || strings.HasSuffix(n, "fsnotify.Op.Has") {
					if k, ok := constInt(x.Common().Args[len(x.Common().Args)-1]); ok {
						return k&op != 0, true
					}
				}
			case *ssa.UnOp:
				if x.Op == token.NOT {
					b, ok := eval(x.X, pred, op)
					return !b, ok
				}
			case *ssa.BinOp:
				// evt.Op&mask != 0 / == 0
				if x.Op == token.NEQ || x.Op == token.EQL {
					for _, pair := range [][2]ssa.Value{{x.X, x.Y}, {x.Y, x.X}} {
						and, isAnd := pair[0].(*ssa.BinOp)
						zero, isK := constInt(pair[1])
						if !isAnd || and.Op != token.AND || !isK || zero != 0 {
							continue
						}
						for _, m := range []ssa.Value{and.X, and.Y} {
							if mask, ok := constInt(m); ok {
								return (mask&op != 0) == (x.Op == token.NEQ), true
							}
						}
					}
				}
			case *ssa.Phi:
				for i, p := range x.Block().Preds {
					if p == pred {
						return eval(x.Edges[i], pred, op)
					}
				}
			}
			return false, false
		}
		for _, wn := range want {
			var handler *ssa.Function
			decided := true
			nameFiltered := ""
			b, pred := fn.Blocks[0], (*ssa.BasicBlock)(nil)
			for steps := 0; steps < 64 && b != nil && handler == nil; steps++ {
				for _, in := range b.Instrs {
					if c, ok := in.(*ssa.Call); ok {
						if f := c.Common().StaticCallee(); f != nil && w.inModule(f) && touches(f) {
							handler = f
						}
					}
				}
				if handler != nil || len(b.Instrs) == 0 {
					break
				}
				switch t := b.Instrs[len(b.Instrs)-1].(type) {
				case *ssa.If:
					// phis are evaluated relative to the edge we came in on
					val, ok := eval(t.Cond, predOf(t.Cond, b, pred), wn.op)
					if !ok {
						// a filter on the file's name: harmless exactly if the initial scan of the directory
						// applies the same predicate (what is never loaded need not be tracked)
						if pc := nameFilterPredicate(w, fn, t.Cond); pc != nil {
							mirrored := false
							dreach, _ := w.CG().Reachable([]*ssa.Function{fn}, func(g *ssa.Function) bool { return !w.inModule(g) })
							for _, g := range w.Funcs {
								if fnPkgPath(g) != fnPkgPath(fn) || g == fn || g.Blocks == nil || w.isMockFn(g) {
									continue
								}
								if _, inDispatch := dreach[g]; inDispatch {
									continue
								}
								for _, gc := range callsIn(g) {
									if gc.Common().StaticCallee() == pc {
										mirrored = true
									}
								}
							}
							if !mirrored {
								nameFiltered = pc.Name()
								b = nil
								break
							}
							// take the branch on which the event is processed
							nb := b.Succs[0]
							if !reachesHandler(w, b.Succs[0], touches) {
								nb = b.Succs[1]
							}
							pred, b = b, nb
							continue
						}
						decided = false
						b = nil
						break
					}
					pred = b
					if val {
						b = b.Succs[0]
					} else {
						b = b.Succs[1]
					}
				case *ssa.Jump:
					pred, b = b, b.Succs[0]
				default:
					b = nil
				}
			}
			if !decided {
				r.Undecided(ri, "event dispatch of "+w.FnName(fn)+" is not a decision over fsnotify operations only")
				continue
			}
			if nameFiltered != "" {
				r.Ob(ri, w.FnName(fn)+"|"+wn.name, fn.Pos(), false, fmt.Sprintf("%s events are discarded by a filter on the file's name (%s) that the initial scan of the directory does not apply: a file of that kind is loaded at start but never updated or unloaded afterwards", wn.name, nameFiltered))
				continue
			}
			ok := false
			if handler != nil {
				reach, _ := w.CG().Reachable([]*ssa.Function{handler}, nil)
				reach[handler] = nil
				for g := range reach {
					for _, c := range callsIn(g) {
						if c.Common().IsInvoke() && c.Common().Method != nil {
							m := c.Common().Method.Name()
							if wn.del && m == "OnDeleted" || !wn.del && (m == "OnCreated" || m == "OnUpdated") {
								ok = true
							}
						}
					}
				}
			}
			r.Ob(ri, w.FnName(fn)+"|"+wn.name, fn.Pos(), ok, fmt.Sprintf("a %s event of a rule file does not reach the %s handler: the change of that source is never applied", wn.name, map[bool]string{true: "delete", false: "create-or-update"}[wn.del]))
		}
	}
	if !found {
		r.Undecided(ri, "no fsnotify event dispatcher found in the file-system provider")
	}
}

// predOf: a condition that is a Phi of the current block is evaluated relative to the block we came from.
func predOf(cond ssa.Value, cur, pred *ssa.BasicBlock) *ssa.BasicBlock {
	return pred
}

// c18Singleton (C18.9): the hash bookkeeping is an unlocked check-then-act on the provider's state;
// it is only correct if two polls of the same source never overlap, i.e. the scheduled task runs
// in singleton mode (or the bookkeeping function holds a mutex).
func c18Singleton(w *World, r *Report, byFn map[*ssa.Function][]provSite, touches func(*ssa.Function) bool) {
	ri := r.Rule("C18.9", 2, "a periodically scheduled poll whose bookkeeping is an unlocked check-then-act on the provider state is scheduled in singleton mode, so two polls of one source never overlap")
	n := 0
	for _, fn := range w.Funcs {
		if w.isMockFn(fn) || !strings.Contains(fnPkgPath(fn), "/internal/rules/provider/") {
			continue
		}
		var tasks []*ssa.Call
		for _, c := range findCalls(fn, func(c *ssa.CallCommon) bool { return strings.HasSuffix(callName(c), "gocron/v2.NewTask") }) {
			tasks = append(tasks, c)
		}
		if len(tasks) == 0 {
			continue
		}
		for _, tc := range tasks {
			// the task function (a bound method value or function)
			var target *ssa.Function
			for _, o := range w.Origins(tc.Common().Args[0], nil) {
				switch x := o.(type) {
				case *ssa.MakeClosure:
					if f, ok := x.Fn.(*ssa.Function); ok {
						target = f
						if strings.HasSuffix(f.Name(), "$bound") {
							// bound method wrapper: its only call is the method
							for _, c := range callsIn(f) {
								if g := c.Common().StaticCallee(); g != nil {
									target = g
								}
							}
						}
					}
				case *ssa.Function:
					target = x
				}
			}
			if target == nil || !touches(target) {
				continue
			}
			// is the bookkeeping locked? (any state write of a reached provider function under a mutex)
			locked := true
			reach, _ := w.CG().Reachable([]*ssa.Function{target}, nil)
			reach[target] = nil
			for g := range reach {
				if !strings.Contains(fnPkgPath(g), "/internal/rules/provider/") {
					continue
				}
				for _, sw := range stateWrites(g) {
					held := lockInfo(g).At[sw.In]
					if len(held) == 0 && len(entryHeld(w, g, 0)) == 0 {
						locked = false
					}
				}
			}
			n++
			r.Analysed(w.FnName(fn))
			singleton := false
			isSingletonOpt := func(x ssa.Value) bool {
				c, ok := x.(*ssa.Call)
				return ok && strings.HasSuffix(callName(c.Common()), "gocron/v2.WithSingletonMode")
			}
			for _, ci := range callsIn(fn) {
				cc := ci.Common()
				un := callName(cc)
				if !(strings.HasSuffix(un, "gocron/v2.NewScheduler") || cc.IsInvoke() && cc.Method.Name() == "NewJob") {
					continue
				}
				for _, a := range cc.Args {
					if dependsOn(w, a, isSingletonOpt) {
						singleton = true
					}
				}
			}
			r.Ob(ri, w.FnName(fn)+"|"+target.Name()+"|singleton-or-locked", tc.Pos(), singleton || locked,
				"polls of the same source can overlap (no singleton mode) while "+target.Name()+" compares and records the source's hash without a lock: a slow fetch makes the same content be created twice, or an older version be applied after a newer one")
		}
	}
	if n == 0 {
		r.Undecided(ri, "no scheduled provider task found")
	}
}

// c18StateNotACopy (C18.1b): the map the bookkeeping writes into is the provider's persistent
// state. If a function hands the bookkeeping a fresh copy (maps.Clone, make), every path after
// the call - in particular the one on which a later source of the same poll was rejected - must
// store the copy back, or what was recorded for the sources already applied is forgotten and
// they are created again at the next poll.
func c18StateNotACopy(w *World, r *Report, byFn map[*ssa.Function][]provSite) {
	ri := r.Rule("C18.1b", 1, "the state map handed to the bookkeeping is the provider's persistent state, or a copy that is stored back on every path after the call (also when a later source of the same poll was rejected)")
	n := 0
	for callee := range byFn {
		// which parameter is the state map?
		stateIdx := -1
		for i, p := range callee.Params {
			if _, isMap := p.Type().Underlying().(*types.Map); isMap && (strings.Contains(p.Type().String(), "State") || strings.Contains(strings.ToLower(p.Name()), "state")) {
				stateIdx = i
			}
		}
		if stateIdx < 0 {
			continue
		}
		for _, e := range w.CG().In[callee] {
			call, ok := e.Site.(*ssa.Call)
			if !ok || e.Kind != "static" || stateIdx >= len(call.Common().Args) {
				continue
			}
			n++
			caller := e.Caller
			r.Analysed(w.FnName(caller))
			arg := call.Common().Args[stateIdx]
			fresh := false
			for _, o := range w.Origins(arg, nil) {
				switch x := o.(type) {
				case *ssa.MakeMap:
					fresh = true
				case *ssa.Call:
					if strings.Contains(callName(x.Common()), "maps.Clone") {
						fresh = true
					}
				}
			}
			ok2 := true
			if fresh {
				// every return reachable after the call must be preceded by a store of the copy into a sync.Map / field
				stored := map[*ssa.BasicBlock]bool{}
				for _, ci := range callsIn(caller) {
					if callName(ci.Common()) == "sync.Map.Store" && len(ci.Common().Args) == 3 && sameValue(ci.Common().Args[2], arg) && reachableAfter(call, ci) {
						stored[ci.Block()] = true
					}
				}
				seen := map[*ssa.BasicBlock]bool{call.Block(): true}
				work := []*ssa.BasicBlock{call.Block()}
				for len(work) > 0 && ok2 {
					b := work[len(work)-1]
					work = work[:len(work)-1]
					if b != call.Block() || !stored[b] {
						if _, isRet := b.Instrs[len(b.Instrs)-1].(*ssa.Return); isRet && !stored[b] {
							ok2 = false
						}
					}
					for _, sb := range b.Succs {
						if !seen[sb] && !stored[sb] {
							seen[sb] = true
							work = append(work, sb)
						} else if !seen[sb] && stored[sb] {
							seen[sb] = true
						}
					}
				}
			}
			r.Ob(ri, fmt.Sprintf("%s|state-for-%s", w.FnName(caller), callee.Name()), call.Pos(), ok2,
				"the bookkeeping works on a copy of the state that is not stored back on every path after the call: if one source of a poll is rejected, the hashes recorded for the sources applied before it are lost and those sources are created again at the next poll")
		}
	}
	if n == 0 {
		r.Undecided(ri, "no call handing a state map to the bookkeeping found")
	}
}


// nameFilterPredicate: cond is (the negation of) a call of a module predicate applied to the Name
// of the fsnotify event that fn received; returns that predicate.
func nameFilterPredicate(w *World, fn *ssa.Function, cond ssa.Value) *ssa.Function {
	var evt *ssa.Parameter
	for _, pa := range fn.Params {
		if strings.HasSuffix(pa.Type().String(), "fsnotify.Event") {
			evt = pa
		}
	}
	if evt == nil {
		return nil
	}
	if u, ok := cond.(*ssa.UnOp); ok && u.Op == token.NOT {
		cond = u.X
	}
	c, ok := cond.(*ssa.Call)
	if !ok {
		return nil
	}
	callee := c.Common().StaticCallee()
	if callee == nil || !w.inModule(callee) {
		return nil
	}
	for _, a := range c.Common().Args {
		if dependsOn(w, a, func(x ssa.Value) bool {
			root, p := accessPath(x)
			return (root == ssa.Value(evt) || bindParam(root) == ssa.Value(evt)) && len(p) == 1 && p[0] == "Name"
		}) {
			return callee
		}
		// the event is spilled when its address is taken (evt.String())
		if dependsOn(w, a, func(x ssa.Value) bool {
			if fa, ok := x.(*ssa.FieldAddr); ok {
				if f := fieldOf(fa.X.Type(), fa.Field); f != nil && f.Name() == "Name" && strings.HasSuffix(derefType(fa.X.Type()).String(), "fsnotify.Event") {
					return true
				}
			}
			return false
		}) {
			return callee
		}
	}
	return nil
}

// reachesHandler: from block b a call of a handler that touches the processor is reachable.
func reachesHandler(w *World, b *ssa.BasicBlock, touches func(*ssa.Function) bool) bool {
	for x := range reach(b, nil) {
		for _, in := range x.Instrs {
			if c, ok := in.(*ssa.Call); ok {
				if f := c.Common().StaticCallee(); f != nil && w.inModule(f) && touches(f) {
					return true
				}
			}
		}
	}
	return false
}

// c18EmptyMeansEmpty (C18.10): the providers unload a source whose content is reported as "empty".
// That report must mean what it says - nothing could be read (end of input) - and must not be
// produced for a document that was read and then found wanting (a truncated file that ends after
// "rules:"): such content is malformed, and a malformed version leaves the loaded one in place.
func c18EmptyMeansEmpty(w *World, r *Report) {
	ri := r.Rule("C18.10", 2, "the 'empty rule set' sentinel is produced only at the end of input (io.EOF): content that was read but is malformed or incomplete is an error, not an emptiness")
	g, _ := w.Obj("internal/rules/config", "ErrEmptyRuleSet").(*types.Var)
	if g == nil {
		r.Undecided(ri, "ErrEmptyRuleSet not found")
		return
	}
	isEOFTest := func(f Fact) bool {
		if f.Kind == FTrue {
			if c, _ := resultOfCall(f.V); c != nil && callName(c.Common()) == "errors.Is" && len(c.Common().Args) == 2 {
				if u, ok := c.Common().Args[1].(*ssa.UnOp); ok {
					if gg, ok := u.X.(*ssa.Global); ok && gg.Name() == "EOF" && gg.Pkg != nil && gg.Pkg.Pkg.Path() == "io" {
						return true
					}
				}
			}
		}
		if f.Kind == FCmp && f.Op == token.EQL {
			for _, v := range []ssa.Value{f.X, f.Y} {
				if u, ok := v.(*ssa.UnOp); ok {
					if gg, ok := u.X.(*ssa.Global); ok && gg.Name() == "EOF" && gg.Pkg != nil && gg.Pkg.Pkg.Path() == "io" {
						return true
					}
				}
			}
		}
		if l, kd := lenFact(f); l != nil && kd == "empty" {
			if sl, ok := l.Type().Underlying().(*types.Slice); ok {
				if b, ok := sl.Elem().Underlying().(*types.Basic); ok && b.Kind() == types.Uint8 {
					return true // no bytes at all
				}
			}
			if isString(l.Type()) {
				return true
			}
		}
		return false
	}
	n := 0
	for _, u := range globalUses(w, g) {
		fn := u.Parent()
		if fn == nil || w.isMockFn(fn) || usedOnlyAsComparisonTarget(u) {
			continue
		}
		n++
		r.Analysed(w.FnName(fn))
		blk := u.Block()
		ok := onlyVia(fn, blk, isEOFTest)
		r.Ob(ri, fmt.Sprintf("%s|empty-only-at-eof#%d", w.FnName(fn), n), u.Pos(), ok, "the 'empty rule set' sentinel can be produced for content that was read (not only at the end of input): a truncated or incomplete version of a source unloads the loaded rule set instead of being rejected")
	}
	if n == 0 {
		r.Undecided(ri, "the 'empty rule set' sentinel is never produced")
	}
}
