package main

// thorough runs the extra work of the thorough tier; filled in by selftest.go.
func thorough(o *Options, w *World, r *Report, extra map[string]any) {
	runSelfTest(o, w, r, extra)
}
