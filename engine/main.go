// hvet: repository-specific static checker for the heimdall properties C01..C20.
// It decides structural necessary conditions of each property on the current working tree of
// the repository (type-checked source, SSA form); it never executes heimdall code.
package main

import (
	"golang.org/x/tools/go/ssa"
	"encoding/json"
	"flag"
	"fmt"
	"os"
	"path/filepath"
	"runtime/debug"
	"sort"
	"strconv"
	"strings"
	"time"
)

type Options struct {
	Prop     string
	Tier     string
	Repo     string
	Evidence string
	Known    string
	Seed     int
	Verbose  bool
	Overlays []string
	Renames  []string
}

var dumpFn string
var sweepAll bool
var transformKind string

func uniq(in []string) []string {
	m := map[string]bool{}
	var out []string
	for _, s := range in {
		if !m[s] {
			m[s] = true
			out = append(out, s)
		}
	}
	sort.Strings(out)
	return out
}

type propFn func(w *World, r *Report)

var registry = map[string]propFn{}

func register(id string, f propFn) { registry[id] = f }

type multiFlag []string

func (m *multiFlag) String() string     { return strings.Join(*m, ",") }
func (m *multiFlag) Set(s string) error { *m = append(*m, s); return nil }

func main() {
	var o Options
	var ov multiFlag
	flag.StringVar(&o.Prop, "prop", "", "property id (C01..C20)")
	flag.StringVar(&o.Tier, "tier", "quick", "quick|thorough")
	flag.StringVar(&o.Repo, "repo", "/repo", "repository root")
	flag.StringVar(&o.Evidence, "evidence", "", "evidence file to write")
	flag.StringVar(&o.Known, "known", "/verif/known_findings.json", "known findings file")
	flag.BoolVar(&o.Verbose, "v", false, "print every obligation")
	flag.Var(&ov, "overlay", "abs-file=replacement-file (may repeat); analysed instead of the file on disk")
	var rn multiFlag
	flag.Var(&rn, "rename", "self-test: <pkg rel path>.<Type>.<field>=<new> or <pkg rel path>.<func>=<new> (may repeat); the property is checked on the renamed program")
	explain := flag.String("explain", "", "print a replay file")
	list := flag.Bool("list", false, "list registered properties")
	flag.StringVar(&dumpFn, "dumpfn", "", "debug: print the SSA of module functions whose name contains this string")
	mut := flag.Bool("mutants", false, "run only the overlay corpus of -prop (developer loop)")
	flag.BoolVar(&sweepAll, "sweep", false, "developer: run every property on the (renamed) program, print what is not clean")
	flag.StringVar(&transformKind, "transform", "", "self-test: check the property on a behaviour-preserving rewrite of the whole module (invertif|reversefuncs|both)")
	listNames := flag.String("listnames", "", "developer: list unexported names of packages whose path contains one of the comma-separated fragments")
	flag.Parse()
	if *listNames != "" {
		w, err := Load(o.Repo, false, nil)
		if err != nil {
			fmt.Println(err)
			os.Exit(2)
		}
		listRenameCandidates(w, strings.Split(*listNames, ","))
		return
	}
	o.Overlays = ov
	o.Renames = rn
	if s := os.Getenv("VERIF_SEED"); s != "" {
		o.Seed, _ = strconv.Atoi(s)
	}
	if *list {
		var ids []string
		for k := range registry {
			ids = append(ids, k)
		}
		sort.Strings(ids)
		fmt.Println(strings.Join(ids, " "))
		return
	}
	if *explain != "" {
		b, err := os.ReadFile(*explain)
		if err != nil {
			fmt.Println(err)
			os.Exit(2)
		}
		var m map[string]any
		_ = json.Unmarshal(b, &m)
		fmt.Printf("replay %s\n", *explain)
		for _, k := range []string{"property", "rule", "key", "where", "msg", "reason"} {
			if v, ok := m[k]; ok {
				fmt.Printf("  %-9s %v\n", k, v)
			}
		}
		if wl, ok := m["witness"].([]any); ok {
			for _, l := range wl {
				fmt.Printf("      %v\n", l)
			}
		}
		fmt.Printf("re-derive on the current tree: ./check %v quick\n", m["property"])
		return
	}
	if *mut {
		if o.Evidence == "" {
			o.Evidence = filepath.Join("/verif/evidence", o.Prop+".json")
		}
		os.Exit(selfTestOnly(&o))
	}
	if sweepAll {
		os.Exit(run(&o, nil))
	}
	f, ok := registry[o.Prop]
	if !ok {
		fmt.Printf("unknown property %q\n", o.Prop)
		os.Exit(2)
	}
	if o.Evidence == "" {
		o.Evidence = filepath.Join("/verif/evidence", o.Prop+".json")
	}
	_ = os.MkdirAll(filepath.Dir(o.Evidence), 0o755)
	os.Exit(run(&o, f))
}

func run(o *Options, f propFn) (code int) {
	start := time.Now()
	overlay := map[string][]byte{}
	for _, s := range o.Overlays {
		i := strings.Index(s, "=")
		if i < 0 {
			fmt.Println("bad -overlay")
			return 2
		}
		b, err := os.ReadFile(s[i+1:])
		if err != nil {
			fmt.Println(err)
			return 2
		}
		overlay[s[:i]] = b
	}
	w, err := Load(o.Repo, false, overlay)
	if err == nil && len(o.Renames) > 0 {
		// type-resolved rename (self-test): compute the overlays on the loaded program, load again
		ro, rerr := renameOverlays(w, o.Renames)
		if rerr != nil {
			fmt.Println(rerr)
			return 2
		}
		for k, v := range ro {
			overlay[k] = v
		}
		lockCache = map[*ssa.Function]*LockInfo{}
		w, err = Load(o.Repo, false, overlay)
	}
	if err == nil && transformKind != "" {
		to, terr := transformOverlays(w, transformKind)
		if terr != nil {
			fmt.Println(terr)
			return 2
		}
		for k, v := range to {
			overlay[k] = v
		}
		fmt.Printf("transform %s: %d files rewritten\n", transformKind, len(to))
		lockCache = map[*ssa.Function]*LockInfo{}
		w, err = Load(o.Repo, false, overlay)
	}
	if sweepAll {
		// developer sweep: every property on the (renamed / overlaid) program in one process;
		// prints only what is not clean
		if err != nil {
			fmt.Println("SWEEP load failed:", firstLines(err.Error(), 3))
			return 1
		}
		var ids []string
		for id := range registry {
			ids = append(ids, id)
		}
		sort.Strings(ids)
		bad := 0
		for _, id := range ids {
			rr := NewReport(w, id)
			func() {
				defer func() {
					if p := recover(); p != nil {
						rr.Undecided(nil, fmt.Sprintf("engine panic: %v", p))
					}
				}()
				registry[id](w, rr)
			}()
			oo := *o
			oo.Prop = id
			oo.Evidence = filepath.Join(os.TempDir(), "hvet-sweep", fmt.Sprintf("%d", os.Getpid()), id+".json")
			_ = os.MkdirAll(filepath.Dir(oo.Evidence), 0o755)
			old := os.Stdout
			devnull, _ := os.Open(os.DevNull)
			nf, _ := os.OpenFile(os.DevNull, os.O_WRONLY, 0)
			os.Stdout = nf
			code := rr.Finish(&oo, start, nil)
			os.Stdout = old
			devnull.Close()
			nf.Close()
			if code != 0 {
				bad++
				var rules []string
				for _, ob := range rr.Obs {
					if !ob.OK {
						rules = append(rules, ob.Rule)
					}
				}
				fmt.Printf("SWEEP %s not clean: %v %v\n", id, uniq(rules), rr.Undec)
			}
		}
		_ = os.RemoveAll(filepath.Join(os.TempDir(), "hvet-sweep", fmt.Sprintf("%d", os.Getpid())))
		if bad == 0 {
			fmt.Println("SWEEP clean")
		}
		return 0
	}
	r := NewReport(w, o.Prop)
	if err != nil {
		// the tree cannot be analysed: the property cannot be asserted to hold
		r.W = &World{Repo: o.Repo}
		r.Undecided(nil, "load failed: "+err.Error())
		return r.Finish(o, start, nil)
	}
	if dumpFn != "" {
		for _, fn := range w.Funcs {
			if strings.Contains(fn.String(), dumpFn) {
				fn.WriteTo(os.Stdout)
			}
		}
	}
	func() {
		defer func() {
			if p := recover(); p != nil {
				r.Undecided(nil, fmt.Sprintf("engine panic: %v\n%s", p, firstLines(string(debug.Stack()), 30)))
			}
		}()
		f(w, r)
	}()
	extra := map[string]any{}
	if o.Tier == "thorough" {
		thorough(o, w, r, extra)
	}
	if o.Verbose {
		for _, ob := range r.Obs {
			s := "ok  "
			if !ob.OK {
				s = "FAIL"
			}
			fmt.Printf("  %s %s @%s %s\n", s, ob.Key, ob.Where, ob.Msg)
		}
	}
	return r.Finish(o, start, extra)
}

func firstLines(s string, n int) string {
	l := strings.Split(s, "\n")
	if len(l) > n {
		l = l[:n]
	}
	return strings.Join(l, "\n")
}
