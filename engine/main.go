// hvet: repository-specific static checker for the heimdall properties C01..C20.
// It decides structural necessary conditions of each property on the current working tree of
// the repository (type-checked source, SSA form); it never executes heimdall code.
package main

import (
	"encoding/json"
	"flag"
	"fmt"
	"os"
	"path/filepath"
	"runtime/debug"
	"sort"
	"strconv"
	"strings"
	"time"
)

type Options struct {
	Prop     string
	Tier     string
	Repo     string
	Evidence string
	Known    string
	Seed     int
	Verbose  bool
	Overlays []string
}

var dumpFn string

type propFn func(w *World, r *Report)

var registry = map[string]propFn{}

func register(id string, f propFn) { registry[id] = f }

type multiFlag []string

func (m *multiFlag) String() string     { return strings.Join(*m, ",") }
func (m *multiFlag) Set(s string) error { *m = append(*m, s); return nil }

func main() {
	var o Options
	var ov multiFlag
	flag.StringVar(&o.Prop, "prop", "", "property id (C01..C20)")
	flag.StringVar(&o.Tier, "tier", "quick", "quick|thorough")
	flag.StringVar(&o.Repo, "repo", "/repo", "repository root")
	flag.StringVar(&o.Evidence, "evidence", "", "evidence file to write")
	flag.StringVar(&o.Known, "known", "/verif/known_findings.json", "known findings file")
	flag.BoolVar(&o.Verbose, "v", false, "print every obligation")
	flag.Var(&ov, "overlay", "abs-file=replacement-file (may repeat); analysed instead of the file on disk")
	explain := flag.String("explain", "", "print a replay file")
	list := flag.Bool("list", false, "list registered properties")
	flag.StringVar(&dumpFn, "dumpfn", "", "debug: print the SSA of module functions whose name contains this string")
	mut := flag.Bool("mutants", false, "run only the overlay corpus of -prop (developer loop)")
	flag.Parse()
	o.Overlays = ov
	if s := os.Getenv("VERIF_SEED"); s != "" {
		o.Seed, _ = strconv.Atoi(s)
	}
	if *list {
		var ids []string
		for k := range registry {
			ids = append(ids, k)
		}
		sort.Strings(ids)
		fmt.Println(strings.Join(ids, " "))
		return
	}
	if *explain != "" {
		b, err := os.ReadFile(*explain)
		if err != nil {
			fmt.Println(err)
			os.Exit(2)
		}
		var m map[string]any
		_ = json.Unmarshal(b, &m)
		fmt.Printf("replay %s\n", *explain)
		for _, k := range []string{"property", "rule", "key", "where", "msg", "reason"} {
			if v, ok := m[k]; ok {
				fmt.Printf("  %-9s %v\n", k, v)
			}
		}
		if wl, ok := m["witness"].([]any); ok {
			for _, l := range wl {
				fmt.Printf("      %v\n", l)
			}
		}
		fmt.Printf("re-derive on the current tree: ./check %v quick\n", m["property"])
		return
	}
	if *mut {
		if o.Evidence == "" {
			o.Evidence = filepath.Join("/verif/evidence", o.Prop+".json")
		}
		os.Exit(selfTestOnly(&o))
	}
	f, ok := registry[o.Prop]
	if !ok {
		fmt.Printf("unknown property %q\n", o.Prop)
		os.Exit(2)
	}
	if o.Evidence == "" {
		o.Evidence = filepath.Join("/verif/evidence", o.Prop+".json")
	}
	_ = os.MkdirAll(filepath.Dir(o.Evidence), 0o755)
	os.Exit(run(&o, f))
}

func run(o *Options, f propFn) (code int) {
	start := time.Now()
	overlay := map[string][]byte{}
	for _, s := range o.Overlays {
		i := strings.Index(s, "=")
		if i < 0 {
			fmt.Println("bad -overlay")
			return 2
		}
		b, err := os.ReadFile(s[i+1:])
		if err != nil {
			fmt.Println(err)
			return 2
		}
		overlay[s[:i]] = b
	}
	w, err := Load(o.Repo, false, overlay)
	r := NewReport(w, o.Prop)
	if err != nil {
		// the tree cannot be analysed: the property cannot be asserted to hold
		r.W = &World{Repo: o.Repo}
		r.Undecided(nil, "load failed: "+err.Error())
		return r.Finish(o, start, nil)
	}
	if dumpFn != "" {
		for _, fn := range w.Funcs {
			if strings.Contains(fn.String(), dumpFn) {
				fn.WriteTo(os.Stdout)
			}
		}
	}
	func() {
		defer func() {
			if p := recover(); p != nil {
				r.Undecided(nil, fmt.Sprintf("engine panic: %v\n%s", p, firstLines(string(debug.Stack()), 30)))
			}
		}()
		f(w, r)
	}()
	extra := map[string]any{}
	if o.Tier == "thorough" {
		thorough(o, w, r, extra)
	}
	if o.Verbose {
		for _, ob := range r.Obs {
			s := "ok  "
			if !ob.OK {
				s = "FAIL"
			}
			fmt.Printf("  %s %s @%s %s\n", s, ob.Key, ob.Where, ob.Msg)
		}
	}
	return r.Finish(o, start, extra)
}

func firstLines(s string, n int) string {
	l := strings.Split(s, "\n")
	if len(l) > n {
		l = l[:n]
	}
	return strings.Join(l, "\n")
}
