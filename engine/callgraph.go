package main

import (
	"go/types"
	"sort"

	"golang.org/x/tools/go/ssa"
)

// CallGraph is the module-restricted call graph (DESIGN 1.2): static callees directly; interface
// invocations resolved to every non-mock module type implementing the interface; every function
// value created in f counts as callable from f; dynamic calls through function values go to every
// address-taken module function with an identical signature.
type CallGraph struct {
	Out map[*ssa.Function][]*Edge
	In  map[*ssa.Function][]*Edge
}

type Edge struct {
	Caller *ssa.Function
	Callee *ssa.Function
	Site   ssa.Instruction // call instruction or the instruction creating the function value
	Kind   string          // static | invoke | funcvalue | dynamic
}

func (w *World) CG() *CallGraph {
	if w.cg != nil {
		return w.cg
	}
	cg := &CallGraph{Out: map[*ssa.Function][]*Edge{}, In: map[*ssa.Function][]*Edge{}}
	add := func(e *Edge) {
		if e.Callee == nil {
			return
		}
		cg.Out[e.Caller] = append(cg.Out[e.Caller], e)
		cg.In[e.Callee] = append(cg.In[e.Callee], e)
	}
	// address-taken functions by signature
	taken := map[string][]*ssa.Function{}
	isTaken := map[*ssa.Function]bool{}
	for _, fn := range w.Funcs {
		eachInstr(fn, func(in ssa.Instruction) {
			var ops []*ssa.Value
			ops = in.Operands(ops)
			for i, op := range ops {
				if op == nil || *op == nil {
					continue
				}
				var g *ssa.Function
				switch x := (*op).(type) {
				case *ssa.Function:
					g = x
				case *ssa.MakeClosure:
					continue
				}
				if mc, ok := in.(*ssa.MakeClosure); ok && i == 0 {
					g, _ = mc.Fn.(*ssa.Function)
				}
				if g == nil {
					continue
				}
				// skip the callee position of a direct call
				if ci, ok := in.(ssa.CallInstruction); ok && ci.Common().Value == g && !ci.Common().IsInvoke() {
					// still a static call: handled below
					continue
				}
				if !isTaken[g] {
					isTaken[g] = true
					k := g.Signature.String()
					taken[k] = append(taken[k], g)
				}
				add(&Edge{Caller: fn, Callee: g, Site: in, Kind: "funcvalue"})
			}
		})
	}
	// method values / bound methods create synthetic functions; covered as *ssa.Function operands.
	implCache := map[string][]*ssa.Function{}
	for _, fn := range w.Funcs {
		for _, ci := range callsIn(fn) {
			cc := ci.Common()
			switch {
			case cc.IsInvoke():
				key := cc.Value.Type().String() + "." + cc.Method.Name()
				impls, ok := implCache[key]
				if !ok {
					impls = w.resolveInvoke(cc)
					implCache[key] = impls
				}
				for _, g := range impls {
					add(&Edge{Caller: fn, Callee: g, Site: ci, Kind: "invoke"})
				}
			case cc.StaticCallee() != nil:
				g := cc.StaticCallee()
				add(&Edge{Caller: fn, Callee: g, Site: ci, Kind: "static"})
				// closures called directly: MakeClosure value
			default:
				if _, isB := cc.Value.(*ssa.Builtin); isB {
					continue
				}
				if mc, ok := cc.Value.(*ssa.MakeClosure); ok {
					g, _ := mc.Fn.(*ssa.Function)
					add(&Edge{Caller: fn, Callee: g, Site: ci, Kind: "static"})
					continue
				}
				sig, ok := cc.Value.Type().Underlying().(*types.Signature)
				if !ok {
					continue
				}
				for _, g := range taken[sig.String()] {
					add(&Edge{Caller: fn, Callee: g, Site: ci, Kind: "dynamic"})
				}
			}
		}
	}
	w.cg = cg
	return cg
}

// resolveInvoke returns the module (non-mock) methods an interface invocation may dispatch to.
func (w *World) resolveInvoke(cc *ssa.CallCommon) []*ssa.Function {
	it, ok := cc.Value.Type().Underlying().(*types.Interface)
	if !ok {
		return nil
	}
	var out []*ssa.Function
	for _, t := range w.Implementors(it) {
		for _, tt := range []types.Type{t, types.NewPointer(t)} {
			if !types.Implements(tt, it) {
				continue
			}
			sel := w.Prog.MethodSets.MethodSet(tt).Lookup(cc.Method.Pkg(), cc.Method.Name())
			if sel == nil {
				continue
			}
			if fn := w.Prog.MethodValue(sel); fn != nil {
				out = append(out, fn)
			}
			break
		}
	}
	return out
}

// Reachable computes the functions reachable from roots; barrier functions are included but not
// expanded. parent records one predecessor edge for witness paths.
func (cg *CallGraph) Reachable(roots []*ssa.Function, barrier func(*ssa.Function) bool) (map[*ssa.Function]*Edge, []*ssa.Function) {
	parent := map[*ssa.Function]*Edge{}
	var order []*ssa.Function
	var work []*ssa.Function
	for _, r := range roots {
		if _, ok := parent[r]; !ok {
			parent[r] = nil
			work = append(work, r)
			order = append(order, r)
		}
	}
	for len(work) > 0 {
		f := work[0]
		work = work[1:]
		if barrier != nil && barrier(f) {
			continue
		}
		es := cg.Out[f]
		sort.SliceStable(es, func(i, j int) bool { return es[i].Callee.String() < es[j].Callee.String() })
		for _, e := range es {
			if _, ok := parent[e.Callee]; ok {
				continue
			}
			parent[e.Callee] = e
			work = append(work, e.Callee)
			order = append(order, e.Callee)
		}
	}
	return parent, order
}

// Path renders the call chain from a root to fn.
func (w *World) Path(parent map[*ssa.Function]*Edge, fn *ssa.Function) []string {
	var out []string
	for fn != nil {
		e := parent[fn]
		if e == nil {
			out = append([]string{"root " + w.FnName(fn)}, out...)
			break
		}
		out = append([]string{"  -> " + w.FnName(fn) + " [" + e.Kind + " at " + w.Pos(e.Site.Pos()) + "]"}, out...)
		fn = e.Caller
	}
	return out
}
