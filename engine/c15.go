package main

import (
	"go/types"
	"strings"

	"golang.org/x/tools/go/ssa"
)

func init() { register("C15", checkC15) }

func checkC15(w *World, r *Report) {
	c15CreateURL(w, r)
	c15Rewriter(w, r)
	c15Outgoing(w, r)
	c09Upstream(w, r)
	c15Body(w, r)
	c15HeaderWrites(w, r)
	c15Unescape(w, r)
}

func c15CreateURL(w *World, r *Report) {
	ri := r.Rule("C15.1", 6, "the upstream URL takes its host from forward_to and scheme, path, raw path and query from the request; the rewriter is applied iff configured")
	fn := w.MethodOf("internal/rules/config", "Backend", "CreateURL")
	if fn == nil || fn.Blocks == nil {
		r.Undecided(ri, "Backend.CreateURL not found")
		return
	}
	r.Analysed(w.FnName(fn))
	lits := urlLiterals(fn)
	if len(lits) != 1 {
		r.Undecided(ri, "expected one URL literal in CreateURL")
		return
	}
	recv, val := fn.Params[0], fn.Params[1]
	for _, f := range []string{"Scheme", "Path", "RawPath", "RawQuery"} {
		v, st := storedField(lits[0], f)
		ok := false
		if v != nil {
			root, p := accessPath(v)
			ok = root == ssa.Value(val) && len(p) == 1 && p[0] == f
		}
		// ... on every path, and before the rewriter sees the URL (it derives the new path from what is there)
		if ok && st != nil {
			for _, ret := range returnsOf(fn) {
				if !dominatesInstr(st, ret) {
					ok = false
				}
			}
			for _, c := range findCalls(fn, func(c *ssa.CallCommon) bool { return methodCallNamed(c, "Rewrite") }) {
				if !dominatesInstr(st, c) {
					ok = false
				}
			}
		}
		r.Ob(ri, w.FnName(fn)+"|"+f+"-from-request", lits[0].Pos(), ok, "URL component "+f+" must be taken from the same component of the request URL")
	}
	hv, _ := storedField(lits[0], "Host")
	okH := false
	if hv != nil {
		root, p := accessPath(hv)
		okH = root == ssa.Value(recv) && len(p) == 1 && p[0] == "Host"
	}
	r.Ob(ri, w.FnName(fn)+"|host-from-backend", lits[0].Pos(), okH, "the upstream host must be forward_to.host")
	rw := findCalls(fn, func(c *ssa.CallCommon) bool { return methodCallNamed(c, "Rewrite") })
	okR := len(rw) == 1
	if okR {
		c := rw[0]
		okR = onlyVia(fn, c.Block(), func(f Fact) bool { return f.Kind == FNonNil && pathEndsWith(f.V, "URLRewriter") }) &&
			callArgs(c.Common())[0] == ssa.Value(lits[0]) && pathEndsWith(callRecv(c.Common()), "URLRewriter")
		// and nothing else skips it: from the != nil edge the call is always reached
		for _, b := range fn.Blocks {
			for bi := range b.Succs {
				for _, f := range rawEdgeFacts(b, bi) {
					if f.Kind == FNonNil && pathEndsWith(f.V, "URLRewriter") {
						// every return reachable from this edge passes the call block
						marks := map[*ssa.BasicBlock]bool{c.Block(): true}
						seen := map[*ssa.BasicBlock]bool{}
						work := []*ssa.BasicBlock{b.Succs[bi]}
						for len(work) > 0 {
							x := work[len(work)-1]
							work = work[:len(work)-1]
							if seen[x] || marks[x] {
								continue
							}
							seen[x] = true
							if len(x.Instrs) > 0 {
								if _, isRet := x.Instrs[len(x.Instrs)-1].(*ssa.Return); isRet {
									okR = false
								}
							}
							work = append(work, x.Succs...)
						}
					}
				}
			}
		}
	}
	r.Ob(ri, w.FnName(fn)+"|rewriter-iff-configured", fn.Pos(), okR, "the configured rewrite must be applied to the new URL exactly when a rewriter is configured")
}

func c15Rewriter(w *World, r *Report) {
	ri := r.Rule("C15.2", 4, "rewrite: strip the prefix, then add the prefix; scheme only if configured; query parameters removed from the raw query")
	rwFn := w.MethodOf("internal/rules/config", "URLRewriter", "Rewrite")
	// the path transformer: the method of the same receiver that Rewrite calls with a path (string -> string)
	var tp *ssa.Function
	if rwFn != nil {
		for _, c := range callsIn(rwFn) {
			cal := c.Common().StaticCallee()
			if cal == nil || cal.Signature.Recv() == nil || rwFn.Signature.Recv() == nil || !types.Identical(cal.Signature.Recv().Type(), rwFn.Signature.Recv().Type()) {
				continue
			}
			if cal.Signature.Params().Len() == 1 && cal.Signature.Results().Len() == 1 && isString(cal.Signature.Params().At(0).Type()) && isString(cal.Signature.Results().At(0).Type()) {
				// ... and whose result becomes the URL's (raw) path
				toPath := false
				eachInstr(rwFn, func(in ssa.Instruction) {
					if st, ok := in.(*ssa.Store); ok && pathEndsWith(st.Addr, "RawPath") {
						if dependsOn(w, st.Val, func(x ssa.Value) bool { cv, isV := c.(ssa.Value); return isV && x == cv }) {
							toPath = true
						}
					}
				})
				if toPath {
					tp = cal
				}
			}
		}
	}
	if tp == nil || rwFn == nil {
		r.Undecided(ri, "URLRewriter methods not found")
		return
	}
	r.Analysed(w.FnName(tp), w.FnName(rwFn))
	ok := false
	for _, ret := range returnsOf(tp) {
		add, _ := resultOfCall(ret.Results[0])
		if add != nil && pathEndsWith(callRecv(add.Common()), "PathPrefixToAdd") {
			cut, _ := resultOfCall(callArgs(add.Common())[0])
			if cut != nil && pathEndsWith(callRecv(cut.Common()), "PathPrefixToCut") && callArgs(cut.Common())[0] == ssa.Value(tp.Params[1]) {
				ok = true
			}
		}
	}
	r.Ob(ri, w.FnName(tp)+"|cut-then-add", tp.Pos(), ok, "the path must be transformed as add(cut(path))")
	// the transformed path works on the escaped path (no double encoding): argument of transformPath is EscapedPath()
	okE, okS, okQ := false, false, false
	for _, c := range findCalls(rwFn, func(c *ssa.CallCommon) bool { return c.StaticCallee() == tp }) {
		if ec, _ := resultOfCall(callArgs(c.Common())[0]); ec != nil && callName(ec.Common()) == "net/url.URL.EscapedPath" {
			okE = true
		}
	}
	eachInstr(rwFn, func(in ssa.Instruction) {
		st, isSt := in.(*ssa.Store)
		if !isSt {
			return
		}
		switch {
		case pathEndsWith(st.Addr, "Scheme"):
			// select(len(r.Scheme) != 0, r.Scheme, value.Scheme)
			os := w.Origins(st.Val, nil)
			hasCfg, hasOrig := false, false
			for _, o := range os {
				root, p := accessPath(o)
				if len(p) == 1 && p[0] == "Scheme" {
					if root == ssa.Value(rwFn.Params[0]) {
						hasCfg = true
					}
					if root == ssa.Value(rwFn.Params[1]) {
						hasOrig = true
					}
				}
			}
			okS = hasCfg && hasOrig
		case pathEndsWith(st.Addr, "RawQuery"):
			if c, _ := resultOfCall(st.Val); c != nil {
				for _, a := range callArgs(c.Common()) {
					if pathEndsWith(a, "RawQuery") {
						okQ = true
					}
				}
			}
		}
	})
	r.Ob(ri, w.FnName(rwFn)+"|works-on-escaped-path", rwFn.Pos(), okE, "the path rewrite must work on the escaped path (preserving the percent-encoding)")
	r.Ob(ri, w.FnName(rwFn)+"|scheme-only-if-configured", rwFn.Pos(), okS, "the scheme is overridden only if a scheme is configured")
	r.Ob(ri, w.FnName(rwFn)+"|query-transformed", rwFn.Pos(), okQ, "the query transformation must be applied to the raw query")
}

func c15Outgoing(w *World, r *Report) {
	ri := r.Rule("C15.3", 6, "the forwarded request: method from the request view, URL and host from the target, pipeline headers replace client headers after the forwarding-header deletions, cookies added, body untouched")
	n := 0
	for _, fn := range w.Funcs {
		if w.isMockFn(fn) || fnPkgPath(fn) != modPath+"/internal/handler/proxy" {
			continue
		}
		// the rewrite closure: takes a *httputil.ProxyRequest
		if fn.Signature.Params().Len() != 1 || !strings.HasSuffix(fn.Signature.Params().At(0).Type().String(), "httputil.ProxyRequest") {
			continue
		}
		n++
		r.Analysed(w.FnName(fn))
		key := w.FnName(fn)
		isOutHdr := func(v ssa.Value) bool { return pathEndsWith(v, "Out", "Header") }
		okM, okU, okH := false, false, false
		bodyWrite := false
		eachInstr(fn, func(in ssa.Instruction) {
			st, isSt := in.(*ssa.Store)
			if !isSt {
				return
			}
			_, p := accessPath(st.Addr)
			if len(p) < 2 || p[len(p)-2] != "Out" {
				return
			}
			switch p[len(p)-1] {
			case "Method":
				if c, _ := resultOfCall(stripLoadChain(st.Val)); c != nil || pathEndsWith(st.Val, "Method") {
					okM = dependsOn(w, st.Val, func(x ssa.Value) bool {
						cc, isC := x.(*ssa.Call)
						return isC && methodCallNamed(cc.Common(), "Request")
					})
				}
			case "URL":
				if root, pp := accessPath(st.Val); len(pp) == 0 {
					if _, isFV := st.Val.(*ssa.UnOp); isFV || root != nil {
						okU = true
					}
				}
			case "Host":
				if pathEndsWith(st.Val, "Host") {
					okH = true
				}
			case "Body", "GetBody", "ContentLength":
				bodyWrite = true
			}
		})
		r.Ob(ri, key+"|method-from-request-view", fn.Pos(), okM, "the outgoing method must be the method of the request view")
		r.Ob(ri, key+"|url-and-host-from-target", fn.Pos(), okU && okH, "the outgoing URL and Host must be the target URL's")
		r.Ob(ri, key+"|body-untouched", fn.Pos(), !bodyWrite, "the proxy must not touch the request body")
		// pipeline headers: applied with replace semantics, after the deletions
		var dels []*ssa.Call
		for _, c := range findCalls(fn, named("net/http.Header.Del")) {
			if isOutHdr(c.Common().Args[0]) {
				if hn, isC := constString(c.Common().Args[1]); isC && strings.HasPrefix(strings.ToLower(hn), "x-forwarded-") {
					dels = append(dels, c)
				}
			}
		}
		okRep, msg := false, "the pipeline headers are not applied to the outgoing request"
		var isUpstream func(v ssa.Value) bool
		isUpstream = func(v ssa.Value) bool {
			return dependsOn(w, v, func(x ssa.Value) bool {
				// the parameter of a single-call helper stands for the argument handed to it
				if pa, isParam := x.(*ssa.Parameter); isParam {
					if b := bindParam(pa); b != ssa.Value(pa) {
						return isUpstream(b)
					}
					return false
				}
				c, isC := x.(*ssa.Call)
				return isC && methodCallNamed(c.Common(), "UpstreamHeaders")
			})
		}
		for _, ia := range withHelperBodies(fn) {
			in := ia.At
			switch x := ia.In.(type) {
			case *ssa.MapUpdate:
				if isOutHdr(x.Map) && isUpstream(x.Value) {
					okRep, msg = true, ""
					for _, d := range dels {
						if !dominatesInstr(d, in) {
							okRep, msg = false, "pipeline headers are applied before the forwarding headers are deleted"
						}
					}
				}
			case *ssa.Call:
				n := callName(x.Common())
				if (n == "net/http.Header.Set" || n == "net/http.Header.Add") && isOutHdr(x.Common().Args[0]) {
					if _, isConst := constString(x.Common().Args[1]); isConst {
						continue
					}
					if !isUpstream(x.Common().Args[2]) && !isUpstream(x.Common().Args[1]) {
						continue
					}
					if n == "net/http.Header.Add" {
						okRep, msg = false, "pipeline headers are added with Header.Add: a same-named header sent by the client stays in front of the pipeline's value"
						continue
					}
					okRep, msg = true, ""
					for _, d := range dels {
						if !dominatesInstr(d, in) {
							okRep, msg = false, "pipeline headers are applied before the forwarding headers are deleted"
						}
					}
				}
			}
		}
		// an Add anywhere for pipeline headers overrides a positive finding
		for _, ia := range withHelperBodies(fn) {
			c, isCall := ia.In.(*ssa.Call)
			if !isCall || callName(c.Common()) != "net/http.Header.Add" {
				continue
			}
			if isOutHdr(c.Common().Args[0]) && (isUpstream(c.Common().Args[2]) || isUpstream(c.Common().Args[1])) {
				okRep, msg = false, "pipeline headers are added with Header.Add: a same-named header sent by the client stays in front of the pipeline's value"
			}
		}
		r.Ob(ri, key+"|pipeline-headers-replace", fn.Pos(), okRep, msg)
		// cookies
		okC := false
		for _, c := range findCalls(fn, named("net/http.Request.AddCookie")) {
			if dependsOn(w, c.Common().Args[1], func(x ssa.Value) bool {
				cc, isC := x.(*ssa.Call)
				return isC && methodCallNamed(cc.Common(), "UpstreamCookies")
			}) {
				okC = true
			}
		}
		r.Ob(ri, key+"|cookies-added", fn.Pos(), okC, "the pipeline cookies must be added to the outgoing request")
		// Host special case: a pipeline Host header becomes the request host and is removed from the headers
		okHost := false
		eachInstr(fn, func(in ssa.Instruction) {
			if st, isSt := in.(*ssa.Store); isSt && pathEndsWith(st.Addr, "Out", "Host") {
				if c, _ := resultOfCall(st.Val); c != nil && callName(c.Common()) == "net/http.Header.Get" {
					if s, isC := constString(c.Common().Args[1]); isC && s == "Host" {
						okHost = true
					}
				}
			}
		})
		r.Ob(ri, key+"|host-header-becomes-request-host", fn.Pos(), okHost, "a Host header produced by the pipeline must become the request host")
	}
	if n == 0 {
		r.Undecided(ri, "the proxy rewrite function was not found")
	}
}

func stripLoadChain(v ssa.Value) ssa.Value {
	for i := 0; i < 4; i++ {
		if u, ok := v.(*ssa.UnOp); ok {
			if fa, ok := u.X.(*ssa.FieldAddr); ok {
				v = fa.X
				continue
			}
		}
		break
	}
	return v
}
